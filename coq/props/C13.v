(* C13  Invalid requests are reported by raising, identically for single and list calls (model: gen/Fteik2d.v, gen/Fteik3d.v; ray kernels: see C10)
   Only statements and `exact`: the proofs are in proofs/.  Written by tools/mkprops.py from Coq's own printing of the
   lemma statements; every statement is in full below so that it cannot be weakened without this file changing. *)
From Coq Require Import ZArith List Bool PrimFloat.
From FT.lib Require Import Num Arr ArrLemmas Lower NumArr.
From FT.gen Require Import Common Fteik2d Fteik3d.
From FT.gen Require Import Interp2d Interp3d FteikCommon Ray2d Ray3d.
From FT.proofs Require Import Solve2dProofs Solve3dProofs VectorizedProofs Ray2dProofs.
From FT.proofs Require Ray3dProofs RayBudget ApiGenEq.
Import ListNotations.
Open Scope Z_scope.

(* single solve: ValueError iff the source fails the domain test; otherwise it returns (no valid request raises) *)
Theorem C13_single_solve2d_raises_iff_outside :
  forall (T : Type) (H : Num T) (slow : arr T) (dz dx zsrc xsrc : T) (nsweep : Z) (grad : bool),
       (inside2d slow dz dx zsrc xsrc = false -> fteik2d slow dz dx zsrc xsrc nsweep grad = Raise ValueError) /\
       (inside2d slow dz dx zsrc xsrc = true ->
        exists r : arr T * arr T * T, fteik2d slow dz dx zsrc xsrc nsweep grad = Ok r).
Proof. exact @Solve2dProofs.fteik2d_raises_iff. Qed.

(* 3D *)
Theorem C13_single_solve3d_raises_iff_outside :
  forall (T : Type) (H : Num T) (slow : arr T) (dz dx dy zsrc xsrc ysrc : T) (nsweep : Z) (grad : bool),
       (inside3d slow dz dx dy zsrc xsrc ysrc = false ->
        fteik3d slow dz dx dy zsrc xsrc ysrc nsweep grad = Raise ValueError) /\
       (inside3d slow dz dx dy zsrc xsrc ysrc = true ->
        exists r : arr T * arr T * T, fteik3d slow dz dx dy zsrc xsrc ysrc nsweep grad = Ok r).
Proof. exact @Solve3dProofs.fteik3d_raises_iff. Qed.

(* list solve = validation of every source in order, then the single solver mapped over the sources: no exception is raised from inside the parallel loop *)
Theorem C13_list_solve2d_spec :
  forall (T : Type) (H : Num T) (slow : arr T) (dz dx : T) (zsrc xsrc : arr T) (nsweep : Z) (grad : bool),
       fteik2d_vectorized slow dz dx zsrc xsrc nsweep grad =
       match
         find_exc
           (fun i : Z =>
            if negb (src_inside2 slow dz dx (get (nofZ 0) zsrc [i]) (get (nofZ 0) xsrc [i]))
            then Some ValueError
            else None) (pyrange 0 (dim zsrc 0) 1)
       with
       | Some e => Raise e
       | None =>
           mapM (fun i : Z => fteik2d slow dz dx (get (nofZ 0) zsrc [i]) (get (nofZ 0) xsrc [i]) nsweep grad)
             (pyrange 0 (dim zsrc 0) 1)
       end.
Proof. exact @VectorizedProofs.fteik2d_vectorized_spec. Qed.

(* 3D *)
Theorem C13_list_solve3d_spec :
  forall (T : Type) (H : Num T) (slow : arr T) (dz dx dy : T) (zsrc xsrc ysrc : arr T) (nsweep : Z) (grad : bool),
       fteik3d_vectorized slow dz dx dy zsrc xsrc ysrc nsweep grad =
       match
         find_exc
           (fun i : Z =>
            if negb (src_inside3 slow dz dx dy (get (nofZ 0) zsrc [i]) (get (nofZ 0) xsrc [i]) (get (nofZ 0) ysrc [i]))
            then Some ValueError
            else None) (pyrange 0 (dim zsrc 0) 1)
       with
       | Some e => Raise e
       | None =>
           mapM
             (fun i : Z =>
              fteik3d slow dz dx dy (get (nofZ 0) zsrc [i]) (get (nofZ 0) xsrc [i]) (get (nofZ 0) ysrc [i]) nsweep grad)
             (pyrange 0 (dim zsrc 0) 1)
       end.
Proof. exact @VectorizedProofs.fteik3d_vectorized_spec. Qed.

(* an outside source at any position of the list makes the list call raise ValueError *)
Theorem C13_list_solve2d_raises_if_some_source_outside :
  forall (T : Type) (H : Num T) (slow : arr T) (dz dx : T) (zsrc xsrc : arr T) (nsweep : Z) (grad : bool),
       (exists i : Z,
          In i (pyrange 0 (dim zsrc 0) 1) /\
          src_inside2 slow dz dx (get (nofZ 0) zsrc [i]) (get (nofZ 0) xsrc [i]) = false) ->
       fteik2d_vectorized slow dz dx zsrc xsrc nsweep grad = Raise ValueError.
Proof. exact @VectorizedProofs.solve2d_list_raises_iff_some_source_outside. Qed.

(* and when every source is inside the list call returns the single results, in order *)
Theorem C13_list_solve2d_returns_map_of_singles :
  forall (T : Type) (H : Num T) (slow : arr T) (dz dx : T) (zsrc xsrc : arr T) (nsweep : Z) 
         (grad : bool) (r : Z -> arr T * arr T * T),
       (forall i : Z,
        In i (pyrange 0 (dim zsrc 0) 1) ->
        src_inside2 slow dz dx (get (nofZ 0) zsrc [i]) (get (nofZ 0) xsrc [i]) = true /\
        fteik2d slow dz dx (get (nofZ 0) zsrc [i]) (get (nofZ 0) xsrc [i]) nsweep grad = Ok (r i)) ->
       fteik2d_vectorized slow dz dx zsrc xsrc nsweep grad = Ok (map r (pyrange 0 (dim zsrc 0) 1)).
Proof. exact @VectorizedProofs.solve2d_list_is_map_of_singles. Qed.

(* single raytrace: ValueError iff the end point fails the hull test *)
Theorem C13_single_ray2d_value_error_iff_outside :
  forall (T : Type) (H : Num T) (z x zgrad xgrad : arr T) (zend xend zsrc xsrc stepsize : T) 
         (max_step : Z) (hg : bool) (fuel : nat),
       u_ray2d_v fuel z x zgrad xgrad zend xend zsrc xsrc stepsize max_step hg = OutOfFuel \/
       (u_ray2d_v fuel z x zgrad xgrad zend xend zsrc xsrc stepsize max_step hg = Raise ValueError <->
        hull2 z x zend xend = false).
Proof. exact @Ray2dProofs.ray2d_raises_value_error_iff. Qed.

(* list raytrace: the non-raising core mapped over the end points, then the first negative count decides the exception - nothing is raised from inside the parallel loop *)
Theorem C13_list_ray2d_spec :
  forall (T : Type) (H : Num T) (z x zgrad xgrad zend xend : arr T) (zsrc xsrc stepsize : T) 
         (max_step : Z) (hg : bool) (fuel : nat),
       u_ray2d_vectorized_v fuel z x zgrad xgrad zend xend zsrc xsrc stepsize max_step hg =
       rbind
         (mapM
            (fun i : Z =>
             u_ray2d_core_v fuel z x zgrad xgrad (get (nofZ 0) zend [i]) (get (nofZ 0) xend [i]) zsrc xsrc stepsize
               max_step hg) (pyrange 0 (dim zend 0) 1))
         (fun l : list (arr T * Z) => match first_exc count_exc l with
                                      | Some e => Raise e
                                      | None => Ok l
                                      end).
Proof. exact @Ray2dProofs.ray2d_vectorized_spec. Qed.

(* the list call raises e iff the first failing single call raises e, and returns the singles' results when none fails *)
Theorem C13_list_ray2d_raises_like_first_failing_single :
  forall (T : Type) (H : Num T) (z x zgrad xgrad zend xend : arr T) (zsrc xsrc stepsize : T) 
         (max_step : Z) (hg : bool) (fuel : nat),
       (forall i : Z,
        In i (pyrange 0 (dim zend 0) 1) ->
        u_ray2d_core_v fuel z x zgrad xgrad (get (nofZ 0) zend [i]) (get (nofZ 0) xend [i]) zsrc xsrc stepsize max_step
          hg <> OutOfFuel) ->
       (forall e : exn,
        u_ray2d_vectorized_v fuel z x zgrad xgrad zend xend zsrc xsrc stepsize max_step hg = Raise e <->
        (exists (l1 : list Z) (i : Z) (l2 : list Z),
           pyrange 0 (dim zend 0) 1 = l1 ++ i :: l2 /\
           (forall j : Z,
            In j l1 ->
            exists rc : arr T * Z,
              u_ray2d_v fuel z x zgrad xgrad (get (nofZ 0) zend [j]) (get (nofZ 0) xend [j]) zsrc xsrc stepsize
                max_step hg = Ok rc) /\
           u_ray2d_v fuel z x zgrad xgrad (get (nofZ 0) zend [i]) (get (nofZ 0) xend [i]) zsrc xsrc stepsize max_step
             hg = Raise e)) /\
       (forall l : list (arr T * Z),
        u_ray2d_vectorized_v fuel z x zgrad xgrad zend xend zsrc xsrc stepsize max_step hg = Ok l <->
        Forall2
          (fun (i : Z) (rc : arr T * Z) =>
           u_ray2d_v fuel z x zgrad xgrad (get (nofZ 0) zend [i]) (get (nofZ 0) xend [i]) zsrc xsrc stepsize max_step
             hg = Ok rc) (pyrange 0 (dim zend 0) 1) l).
Proof. exact @Ray2dProofs.ray2d_list_raises_like_first_failing_single. Qed.

(* 3D *)
Theorem C13_list_ray3d_raises_like_first_failing_single :
  forall (T : Type) (H : Num T) (z x y zgrad xgrad ygrad zend xend yend : arr T) (zsrc xsrc ysrc stepsize : T)
         (max_step : Z) (hg : bool) (fuel : nat),
       (forall i : Z,
        In i (pyrange 0 (dim zend 0) 1) ->
        u_ray3d_core_v fuel z x y zgrad xgrad ygrad (get (nofZ 0) zend [i]) (get (nofZ 0) xend [i])
          (get (nofZ 0) yend [i]) zsrc xsrc ysrc stepsize max_step hg <> OutOfFuel) ->
       (forall e : exn,
        u_ray3d_vectorized_v fuel z x y zgrad xgrad ygrad zend xend yend zsrc xsrc ysrc stepsize max_step hg = Raise e <->
        (exists (l1 : list Z) (i : Z) (l2 : list Z),
           pyrange 0 (dim zend 0) 1 = l1 ++ i :: l2 /\
           (forall j : Z,
            In j l1 ->
            exists rc : arr T * Z,
              u_ray3d_v fuel z x y zgrad xgrad ygrad (get (nofZ 0) zend [j]) (get (nofZ 0) xend [j])
                (get (nofZ 0) yend [j]) zsrc xsrc ysrc stepsize max_step hg = Ok rc) /\
           u_ray3d_v fuel z x y zgrad xgrad ygrad (get (nofZ 0) zend [i]) (get (nofZ 0) xend [i])
             (get (nofZ 0) yend [i]) zsrc xsrc ysrc stepsize max_step hg = Raise e)) /\
       (forall l : list (arr T * Z),
        u_ray3d_vectorized_v fuel z x y zgrad xgrad ygrad zend xend yend zsrc xsrc ysrc stepsize max_step hg = Ok l <->
        Forall2
          (fun (i : Z) (rc : arr T * Z) =>
           u_ray3d_v fuel z x y zgrad xgrad ygrad (get (nofZ 0) zend [i]) (get (nofZ 0) xend [i])
             (get (nofZ 0) yend [i]) zsrc xsrc ysrc stepsize max_step hg = Ok rc) (pyrange 0 (dim zend 0) 1) l).
Proof. exact @Ray3dProofs.ray3d_list_raises_like_first_failing_single. Qed.

(* a ray that is returned with c+1 rows is returned for every budget > c and raises RuntimeError for every budget <= c: exhaustion is reported by raising, never by a shortened ray (every numeric instance, both modes) *)
Theorem C13_ray_budget_raises_iff_insufficient_2d :
  forall (T : Type) (H : Num T) (z x zgrad xgrad p src : arr T) (stepsize : T) (hg : bool) 
         (M : Z) (fuel : nat) (r : arr T),
       ray2d_1 fuel z x zgrad xgrad p src stepsize M hg = Ok r ->
       exists c : Z,
         1 <= c < M /\
         shape r = [c + 1; 2] /\
         (forall (M' : Z) (fuel' : nat),
          c < M' ->
          (fuel <= fuel')%nat \/ RayBudget.enough2 z x stepsize M' fuel' ->
          ray2d_1 fuel' z x zgrad xgrad p src stepsize M' hg = Ok r) /\
         (forall (M'' : Z) (fuel'' : nat),
          M'' <= c ->
          (fuel <= fuel'')%nat \/ RayBudget.enough2 z x stepsize M'' fuel'' ->
          ray2d_1 fuel'' z x zgrad xgrad p src stepsize M'' hg = Raise RuntimeError).
Proof. exact @RayBudget.ray2d_1_budget. Qed.

(* 3D *)
Theorem C13_ray_budget_raises_iff_insufficient_3d :
  forall (T : Type) (H : Num T) (z x y zgrad xgrad ygrad p src : arr T) (stepsize : T) 
         (hg : bool) (M : Z) (fuel : nat) (r : arr T),
       ray3d_1 fuel z x y zgrad xgrad ygrad p src stepsize M hg = Ok r ->
       exists c : Z,
         1 <= c < M /\
         shape r = [c + 1; 3] /\
         (forall (M' : Z) (fuel' : nat),
          c < M' ->
          (fuel <= fuel')%nat \/ RayBudget.enough3 z x y stepsize M' fuel' ->
          ray3d_1 fuel' z x y zgrad xgrad ygrad p src stepsize M' hg = Ok r) /\
         (forall (M'' : Z) (fuel'' : nat),
          M'' <= c ->
          (fuel <= fuel'')%nat \/ RayBudget.enough3 z x y stepsize M'' fuel'' ->
          ray3d_1 fuel'' z x y zgrad xgrad ygrad p src stepsize M'' hg = Raise RuntimeError).
Proof. exact @RayBudget.ray3d_1_budget. Qed.

(* the out-of-hull outcome (ValueError) does not depend on the budget *)
Theorem C13_ray_outside_hull_independent_of_budget_2d :
  forall (T : Type) (H : Num T) (z x zgrad xgrad : arr T) (zend xend zsrc xsrc stepsize : T) 
         (hg : bool) (M : Z) (fuel : nat) (ray : arr T),
       u_ray2d_core_v fuel z x zgrad xgrad zend xend zsrc xsrc stepsize M hg = Ok (ray, -1) ->
       forall (M' : Z) (fuel' : nat),
       u_ray2d_core_v fuel' z x zgrad xgrad zend xend zsrc xsrc stepsize M' hg = Ok (full [M'; 2] (nofZ 0), -1).
Proof. exact @RayBudget.ray2d_outside_budget_free. Qed.

(* 3D *)
Theorem C13_ray_outside_hull_independent_of_budget_3d :
  forall (T : Type) (H : Num T) (z x y zgrad xgrad ygrad : arr T) (zend xend yend zsrc xsrc ysrc stepsize : T)
         (hg : bool) (M : Z) (fuel : nat) (ray : arr T),
       u_ray3d_core_v fuel z x y zgrad xgrad ygrad zend xend yend zsrc xsrc ysrc stepsize M hg = Ok (ray, -1) ->
       forall (M' : Z) (fuel' : nat),
       u_ray3d_core_v fuel' z x y zgrad xgrad ygrad zend xend yend zsrc xsrc ysrc stepsize M' hg =
       Ok (full [M'; 3] (nofZ 0), -1).
Proof. exact @RayBudget.ray3d_outside_budget_free. Qed.

(* API layer (extracted): `.gradient` (and hence raytrace) on a grid solved without return_gradient raises ValueError *)
Theorem C13_gradient_access_without_gradient_raises_ValueError :
  ApiGen.gradient_2d_guard =
       (String.String (Ascii.Ascii true true false false true true true false)
          (String.String (Ascii.Ascii true false true false false true true false)
             (String.String (Ascii.Ascii false false true true false true true false)
                (String.String (Ascii.Ascii false true true false false true true false)
                   (String.String (Ascii.Ascii false true true true false true false false)
                      (String.String (Ascii.Ascii true true true true true false true false)
                         (String.String (Ascii.Ascii true true true false false true true false)
                            (String.String (Ascii.Ascii false true false false true true true false)
                               (String.String (Ascii.Ascii true false false false false true true false)
                                  (String.String (Ascii.Ascii false false true false false true true false)
                                     (String.String (Ascii.Ascii true false false true false true true false)
                                        (String.String (Ascii.Ascii true false true false false true true false)
                                           (String.String (Ascii.Ascii false true true true false true true false)
                                              (String.String (Ascii.Ascii false false true false true true true false)
                                                 (String.String
                                                    (Ascii.Ascii false false false false false true false false)
                                                    (String.String
                                                       (Ascii.Ascii true false false true false true true false)
                                                       (String.String
                                                          (Ascii.Ascii true true false false true true true false)
                                                          (String.String
                                                             (Ascii.Ascii false false false false false true false
                                                                false)
                                                             (String.String
                                                                (Ascii.Ascii false true true true false false true
                                                                   false)
                                                                (String.String
                                                                   (Ascii.Ascii true true true true false true true
                                                                      false)
                                                                   (String.String
                                                                      (Ascii.Ascii false true true true false true true
                                                                         false)
                                                                      (String.String
                                                                         (Ascii.Ascii true false true false false true
                                                                            true false) String.EmptyString))))))))))))))))))))),
        String.String (Ascii.Ascii false true true false true false true false)
          (String.String (Ascii.Ascii true false false false false true true false)
             (String.String (Ascii.Ascii false false true true false true true false)
                (String.String (Ascii.Ascii true false true false true true true false)
                   (String.String (Ascii.Ascii true false true false false true true false)
                      (String.String (Ascii.Ascii true false true false false false true false)
                         (String.String (Ascii.Ascii false true false false true true true false)
                            (String.String (Ascii.Ascii false true false false true true true false)
                               (String.String (Ascii.Ascii true true true true false true true false)
                                  (String.String (Ascii.Ascii false true false false true true true false)
                                     String.EmptyString)))))))))) /\
       ApiGen.gradient_2d_ctor =
       String.String (Ascii.Ascii true true true false false false true false)
         (String.String (Ascii.Ascii false true false false true true true false)
            (String.String (Ascii.Ascii true false false true false true true false)
               (String.String (Ascii.Ascii false false true false false true true false)
                  (String.String (Ascii.Ascii false true false false true true false false)
                     (String.String (Ascii.Ascii false false true false false false true false) String.EmptyString))))) /\
       ApiGen.gradient_2d_index = ApiGen.arange 2 /\
       ApiGen.gradient_2d_axis = (2, 3) /\
       ApiGen.gradient_2d_items =
       [[(String.String (Ascii.Ascii true true true false false true true false)
            (String.String (Ascii.Ascii false true false false true true true false)
               (String.String (Ascii.Ascii true false false true false true true false)
                  (String.String (Ascii.Ascii false false true false false true true false) String.EmptyString))),
          String.String (Ascii.Ascii true true false false true true true false)
            (String.String (Ascii.Ascii true false true false false true true false)
               (String.String (Ascii.Ascii false false true true false true true false)
                  (String.String (Ascii.Ascii false true true false false true true false)
                     (String.String (Ascii.Ascii false true true true false true false false)
                        (String.String (Ascii.Ascii true true true true true false true false)
                           (String.String (Ascii.Ascii true true true false false true true false)
                              (String.String (Ascii.Ascii false true false false true true true false)
                                 (String.String (Ascii.Ascii true false false false false true true false)
                                    (String.String (Ascii.Ascii false false true false false true true false)
                                       (String.String (Ascii.Ascii true false false true false true true false)
                                          (String.String (Ascii.Ascii true false true false false true true false)
                                             (String.String (Ascii.Ascii false true true true false true true false)
                                                (String.String
                                                   (Ascii.Ascii false false true false true true true false)
                                                   (String.String
                                                      (Ascii.Ascii true true false true true false true false)
                                                      (String.String
                                                         (Ascii.Ascii false true false true true true false false)
                                                         (String.String
                                                            (Ascii.Ascii false false true true false true false false)
                                                            (String.String
                                                               (Ascii.Ascii false false false false false true false
                                                                  false)
                                                               (String.String
                                                                  (Ascii.Ascii false true false true true true false
                                                                     false)
                                                                  (String.String
                                                                     (Ascii.Ascii false false true true false true
                                                                        false false)
                                                                     (String.String
                                                                        (Ascii.Ascii false false false false false true
                                                                           false false)
                                                                        (String.String
                                                                           (Ascii.Ascii false false false false true
                                                                              true false false)
                                                                           (String.String
                                                                              (Ascii.Ascii true false true true true
                                                                                 false true false) String.EmptyString)))))))))))))))))))))));
         (String.String (Ascii.Ascii true true true false false true true false)
            (String.String (Ascii.Ascii false true false false true true true false)
               (String.String (Ascii.Ascii true false false true false true true false)
                  (String.String (Ascii.Ascii false false true false false true true false)
                     (String.String (Ascii.Ascii true true false false true true true false)
                        (String.String (Ascii.Ascii true false false true false true true false)
                           (String.String (Ascii.Ascii false true false true true true true false)
                              (String.String (Ascii.Ascii true false true false false true true false)
                                 String.EmptyString))))))),
          String.String (Ascii.Ascii true true false false true true true false)
            (String.String (Ascii.Ascii true false true false false true true false)
               (String.String (Ascii.Ascii false false true true false true true false)
                  (String.String (Ascii.Ascii false true true false false true true false)
                     (String.String (Ascii.Ascii false true true true false true false false)
                        (String.String (Ascii.Ascii true true true true true false true false)
                           (String.String (Ascii.Ascii true true true false false true true false)
                              (String.String (Ascii.Ascii false true false false true true true false)
                                 (String.String (Ascii.Ascii true false false true false true true false)
                                    (String.String (Ascii.Ascii false false true false false true true false)
                                       (String.String (Ascii.Ascii true true false false true true true false)
                                          (String.String (Ascii.Ascii true false false true false true true false)
                                             (String.String (Ascii.Ascii false true false true true true true false)
                                                (String.String
                                                   (Ascii.Ascii true false true false false true true false)
                                                   String.EmptyString))))))))))))));
         (String.String (Ascii.Ascii true true true true false true true false)
            (String.String (Ascii.Ascii false true false false true true true false)
               (String.String (Ascii.Ascii true false false true false true true false)
                  (String.String (Ascii.Ascii true true true false false true true false)
                     (String.String (Ascii.Ascii true false false true false true true false)
                        (String.String (Ascii.Ascii false true true true false true true false) String.EmptyString))))),
          String.String (Ascii.Ascii true true false false true true true false)
            (String.String (Ascii.Ascii true false true false false true true false)
               (String.String (Ascii.Ascii false false true true false true true false)
                  (String.String (Ascii.Ascii false true true false false true true false)
                     (String.String (Ascii.Ascii false true true true false true false false)
                        (String.String (Ascii.Ascii true true true true true false true false)
                           (String.String (Ascii.Ascii true true true true false true true false)
                              (String.String (Ascii.Ascii false true false false true true true false)
                                 (String.String (Ascii.Ascii true false false true false true true false)
                                    (String.String (Ascii.Ascii true true true false false true true false)
                                       (String.String (Ascii.Ascii true false false true false true true false)
                                          (String.String (Ascii.Ascii false true true true false true true false)
                                             String.EmptyString))))))))))))];
        [(String.String (Ascii.Ascii true true true false false true true false)
            (String.String (Ascii.Ascii false true false false true true true false)
               (String.String (Ascii.Ascii true false false true false true true false)
                  (String.String (Ascii.Ascii false false true false false true true false) String.EmptyString))),
          String.String (Ascii.Ascii true true false false true true true false)
            (String.String (Ascii.Ascii true false true false false true true false)
               (String.String (Ascii.Ascii false false true true false true true false)
                  (String.String (Ascii.Ascii false true true false false true true false)
                     (String.String (Ascii.Ascii false true true true false true false false)
                        (String.String (Ascii.Ascii true true true true true false true false)
                           (String.String (Ascii.Ascii true true true false false true true false)
                              (String.String (Ascii.Ascii false true false false true true true false)
                                 (String.String (Ascii.Ascii true false false false false true true false)
                                    (String.String (Ascii.Ascii false false true false false true true false)
                                       (String.String (Ascii.Ascii true false false true false true true false)
                                          (String.String (Ascii.Ascii true false true false false true true false)
                                             (String.String (Ascii.Ascii false true true true false true true false)
                                                (String.String
                                                   (Ascii.Ascii false false true false true true true false)
                                                   (String.String
                                                      (Ascii.Ascii true true false true true false true false)
                                                      (String.String
                                                         (Ascii.Ascii false true false true true true false false)
                                                         (String.String
                                                            (Ascii.Ascii false false true true false true false false)
                                                            (String.String
                                                               (Ascii.Ascii false false false false false true false
                                                                  false)
                                                               (String.String
                                                                  (Ascii.Ascii false true false true true true false
                                                                     false)
                                                                  (String.String
                                                                     (Ascii.Ascii false false true true false true
                                                                        false false)
                                                                     (String.String
                                                                        (Ascii.Ascii false false false false false true
                                                                           false false)
                                                                        (String.String
                                                                           (Ascii.Ascii true false false false true
                                                                              true false false)
                                                                           (String.String
                                                                              (Ascii.Ascii true false true true true
                                                                                 false true false) String.EmptyString)))))))))))))))))))))));
         (String.String (Ascii.Ascii true true true false false true true false)
            (String.String (Ascii.Ascii false true false false true true true false)
               (String.String (Ascii.Ascii true false false true false true true false)
                  (String.String (Ascii.Ascii false false true false false true true false)
                     (String.String (Ascii.Ascii true true false false true true true false)
                        (String.String (Ascii.Ascii true false false true false true true false)
                           (String.String (Ascii.Ascii false true false true true true true false)
                              (String.String (Ascii.Ascii true false true false false true true false)
                                 String.EmptyString))))))),
          String.String (Ascii.Ascii true true false false true true true false)
            (String.String (Ascii.Ascii true false true false false true true false)
               (String.String (Ascii.Ascii false false true true false true true false)
                  (String.String (Ascii.Ascii false true true false false true true false)
                     (String.String (Ascii.Ascii false true true true false true false false)
                        (String.String (Ascii.Ascii true true true true true false true false)
                           (String.String (Ascii.Ascii true true true false false true true false)
                              (String.String (Ascii.Ascii false true false false true true true false)
                                 (String.String (Ascii.Ascii true false false true false true true false)
                                    (String.String (Ascii.Ascii false false true false false true true false)
                                       (String.String (Ascii.Ascii true true false false true true true false)
                                          (String.String (Ascii.Ascii true false false true false true true false)
                                             (String.String (Ascii.Ascii false true false true true true true false)
                                                (String.String
                                                   (Ascii.Ascii true false true false false true true false)
                                                   String.EmptyString))))))))))))));
         (String.String (Ascii.Ascii true true true true false true true false)
            (String.String (Ascii.Ascii false true false false true true true false)
               (String.String (Ascii.Ascii true false false true false true true false)
                  (String.String (Ascii.Ascii true true true false false true true false)
                     (String.String (Ascii.Ascii true false false true false true true false)
                        (String.String (Ascii.Ascii false true true true false true true false) String.EmptyString))))),
          String.String (Ascii.Ascii true true false false true true true false)
            (String.String (Ascii.Ascii true false true false false true true false)
               (String.String (Ascii.Ascii false false true true false true true false)
                  (String.String (Ascii.Ascii false true true false false true true false)
                     (String.String (Ascii.Ascii false true true true false true false false)
                        (String.String (Ascii.Ascii true true true true true false true false)
                           (String.String (Ascii.Ascii true true true true false true true false)
                              (String.String (Ascii.Ascii false true false false true true true false)
                                 (String.String (Ascii.Ascii true false false true false true true false)
                                    (String.String (Ascii.Ascii true true true false false true true false)
                                       (String.String (Ascii.Ascii true false false true false true true false)
                                          (String.String (Ascii.Ascii false true true true false true true false)
                                             String.EmptyString))))))))))))]] /\
       ApiGen.grid_2d_init =
       (String.String (Ascii.Ascii false false false true false true false false)
          (String.String (Ascii.Ascii true true false false true true true false)
             (String.String (Ascii.Ascii true false true false false true true false)
                (String.String (Ascii.Ascii false false true true false true true false)
                   (String.String (Ascii.Ascii false true true false false true true false)
                      (String.String (Ascii.Ascii false false true true false true false false)
                         (String.String (Ascii.Ascii false false false false false true false false)
                            (String.String (Ascii.Ascii false true false true false true false false)
                               (String.String (Ascii.Ascii true false false false false true true false)
                                  (String.String (Ascii.Ascii false true false false true true true false)
                                     (String.String (Ascii.Ascii true true true false false true true false)
                                        (String.String (Ascii.Ascii true true false false true true true false)
                                           (String.String (Ascii.Ascii false false true true false true false false)
                                              (String.String
                                                 (Ascii.Ascii false false false false false true false false)
                                                 (String.String
                                                    (Ascii.Ascii false true false true false true false false)
                                                    (String.String
                                                       (Ascii.Ascii false true false true false true false false)
                                                       (String.String
                                                          (Ascii.Ascii true true false true false true true false)
                                                          (String.String
                                                             (Ascii.Ascii true true true false true true true false)
                                                             (String.String
                                                                (Ascii.Ascii true false false false false true true
                                                                   false)
                                                                (String.String
                                                                   (Ascii.Ascii false true false false true true true
                                                                      false)
                                                                   (String.String
                                                                      (Ascii.Ascii true true true false false true true
                                                                         false)
                                                                      (String.String
                                                                         (Ascii.Ascii true true false false true true
                                                                            true false)
                                                                         (String.String
                                                                            (Ascii.Ascii true false false true false
                                                                               true false false) String.EmptyString)))))))))))))))))))))),
        String.String (Ascii.Ascii true true false false true true true false)
          (String.String (Ascii.Ascii true false true false true true true false)
             (String.String (Ascii.Ascii false false false false true true true false)
                (String.String (Ascii.Ascii true false true false false true true false)
                   (String.String (Ascii.Ascii false true false false true true true false)
                      (String.String (Ascii.Ascii false false false true false true false false)
                         (String.String (Ascii.Ascii true false false true false true false false)
                            (String.String (Ascii.Ascii false true true true false true false false)
                               (String.String (Ascii.Ascii true true true true true false true false)
                                  (String.String (Ascii.Ascii true true true true true false true false)
                                     (String.String (Ascii.Ascii true false false true false true true false)
                                        (String.String (Ascii.Ascii false true true true false true true false)
                                           (String.String (Ascii.Ascii true false false true false true true false)
                                              (String.String (Ascii.Ascii false false true false true true true false)
                                                 (String.String (Ascii.Ascii true true true true true false true false)
                                                    (String.String
                                                       (Ascii.Ascii true true true true true false true false)
                                                       (String.String
                                                          (Ascii.Ascii false false false true false true false false)
                                                          (String.String
                                                             (Ascii.Ascii false true false true false true false false)
                                                             (String.String
                                                                (Ascii.Ascii true false false false false true true
                                                                   false)
                                                                (String.String
                                                                   (Ascii.Ascii false true false false true true true
                                                                      false)
                                                                   (String.String
                                                                      (Ascii.Ascii true true true false false true true
                                                                         false)
                                                                      (String.String
                                                                         (Ascii.Ascii true true false false true true
                                                                            true false)
                                                                         (String.String
                                                                            (Ascii.Ascii false false true true false
                                                                               true false false)
                                                                            (String.String
                                                                               (Ascii.Ascii false false false false
                                                                                  false true false false)
                                                                               (String.String
                                                                                  (Ascii.Ascii false true false true
                                                                                     false true false false)
                                                                                  (String.String
                                                                                     (Ascii.Ascii false true false true
                                                                                        false true false false)
                                                                                     (String.String
                                                                                        (Ascii.Ascii true true false
                                                                                          true false true true false)
                                                                                        (String.String
                                                                                          (Ascii.Ascii true true true
                                                                                          false true true true false)
                                                                                          (String.String
                                                                                          (Ascii.Ascii true false false
                                                                                          false false true true false)
                                                                                          (String.String
                                                                                          (Ascii.Ascii false true false
                                                                                          false true true true false)
                                                                                          (String.String
                                                                                          (Ascii.Ascii true true true
                                                                                          false false true true false)
                                                                                          (String.String
                                                                                          (Ascii.Ascii true true false
                                                                                          false true true true false)
                                                                                          (String.String
                                                                                          (Ascii.Ascii true false false
                                                                                          true false true false false)
                                                                                          String.EmptyString))))))))))))))))))))))))))))))))).
Proof. exact @ApiGenEq.gen_gradient_2d. Qed.

(* 3D *)
Theorem C13_gradient_access_without_gradient_raises_ValueError_3d :
  ApiGen.gradient_3d_guard =
       (String.String (Ascii.Ascii true true false false true true true false)
          (String.String (Ascii.Ascii true false true false false true true false)
             (String.String (Ascii.Ascii false false true true false true true false)
                (String.String (Ascii.Ascii false true true false false true true false)
                   (String.String (Ascii.Ascii false true true true false true false false)
                      (String.String (Ascii.Ascii true true true true true false true false)
                         (String.String (Ascii.Ascii true true true false false true true false)
                            (String.String (Ascii.Ascii false true false false true true true false)
                               (String.String (Ascii.Ascii true false false false false true true false)
                                  (String.String (Ascii.Ascii false false true false false true true false)
                                     (String.String (Ascii.Ascii true false false true false true true false)
                                        (String.String (Ascii.Ascii true false true false false true true false)
                                           (String.String (Ascii.Ascii false true true true false true true false)
                                              (String.String (Ascii.Ascii false false true false true true true false)
                                                 (String.String
                                                    (Ascii.Ascii false false false false false true false false)
                                                    (String.String
                                                       (Ascii.Ascii true false false true false true true false)
                                                       (String.String
                                                          (Ascii.Ascii true true false false true true true false)
                                                          (String.String
                                                             (Ascii.Ascii false false false false false true false
                                                                false)
                                                             (String.String
                                                                (Ascii.Ascii false true true true false false true
                                                                   false)
                                                                (String.String
                                                                   (Ascii.Ascii true true true true false true true
                                                                      false)
                                                                   (String.String
                                                                      (Ascii.Ascii false true true true false true true
                                                                         false)
                                                                      (String.String
                                                                         (Ascii.Ascii true false true false false true
                                                                            true false) String.EmptyString))))))))))))))))))))),
        String.String (Ascii.Ascii false true true false true false true false)
          (String.String (Ascii.Ascii true false false false false true true false)
             (String.String (Ascii.Ascii false false true true false true true false)
                (String.String (Ascii.Ascii true false true false true true true false)
                   (String.String (Ascii.Ascii true false true false false true true false)
                      (String.String (Ascii.Ascii true false true false false false true false)
                         (String.String (Ascii.Ascii false true false false true true true false)
                            (String.String (Ascii.Ascii false true false false true true true false)
                               (String.String (Ascii.Ascii true true true true false true true false)
                                  (String.String (Ascii.Ascii false true false false true true true false)
                                     String.EmptyString)))))))))) /\
       ApiGen.gradient_3d_ctor =
       String.String (Ascii.Ascii true true true false false false true false)
         (String.String (Ascii.Ascii false true false false true true true false)
            (String.String (Ascii.Ascii true false false true false true true false)
               (String.String (Ascii.Ascii false false true false false true true false)
                  (String.String (Ascii.Ascii true true false false true true false false)
                     (String.String (Ascii.Ascii false false true false false false true false) String.EmptyString))))) /\
       ApiGen.gradient_3d_index = ApiGen.arange 3 /\
       ApiGen.gradient_3d_axis = (3, 4) /\
       ApiGen.gradient_3d_items =
       [[(String.String (Ascii.Ascii true true true false false true true false)
            (String.String (Ascii.Ascii false true false false true true true false)
               (String.String (Ascii.Ascii true false false true false true true false)
                  (String.String (Ascii.Ascii false false true false false true true false) String.EmptyString))),
          String.String (Ascii.Ascii true true false false true true true false)
            (String.String (Ascii.Ascii true false true false false true true false)
               (String.String (Ascii.Ascii false false true true false true true false)
                  (String.String (Ascii.Ascii false true true false false true true false)
                     (String.String (Ascii.Ascii false true true true false true false false)
                        (String.String (Ascii.Ascii true true true true true false true false)
                           (String.String (Ascii.Ascii true true true false false true true false)
                              (String.String (Ascii.Ascii false true false false true true true false)
                                 (String.String (Ascii.Ascii true false false false false true true false)
                                    (String.String (Ascii.Ascii false false true false false true true false)
                                       (String.String (Ascii.Ascii true false false true false true true false)
                                          (String.String (Ascii.Ascii true false true false false true true false)
                                             (String.String (Ascii.Ascii false true true true false true true false)
                                                (String.String
                                                   (Ascii.Ascii false false true false true true true false)
                                                   (String.String
                                                      (Ascii.Ascii true true false true true false true false)
                                                      (String.String
                                                         (Ascii.Ascii false true false true true true false false)
                                                         (String.String
                                                            (Ascii.Ascii false false true true false true false false)
                                                            (String.String
                                                               (Ascii.Ascii false false false false false true false
                                                                  false)
                                                               (String.String
                                                                  (Ascii.Ascii false true false true true true false
                                                                     false)
                                                                  (String.String
                                                                     (Ascii.Ascii false false true true false true
                                                                        false false)
                                                                     (String.String
                                                                        (Ascii.Ascii false false false false false true
                                                                           false false)
                                                                        (String.String
                                                                           (Ascii.Ascii false true false true true true
                                                                              false false)
                                                                           (String.String
                                                                              (Ascii.Ascii false false true true false
                                                                                 true false false)
                                                                              (String.String
                                                                                 (Ascii.Ascii false false false false
                                                                                    false true false false)
                                                                                 (String.String
                                                                                    (Ascii.Ascii false false false
                                                                                       false true true false false)
                                                                                    (String.String
                                                                                       (Ascii.Ascii true false true
                                                                                          true true false true false)
                                                                                       String.EmptyString))))))))))))))))))))))))));
         (String.String (Ascii.Ascii true true true false false true true false)
            (String.String (Ascii.Ascii false true false false true true true false)
               (String.String (Ascii.Ascii true false false true false true true false)
                  (String.String (Ascii.Ascii false false true false false true true false)
                     (String.String (Ascii.Ascii true true false false true true true false)
                        (String.String (Ascii.Ascii true false false true false true true false)
                           (String.String (Ascii.Ascii false true false true true true true false)
                              (String.String (Ascii.Ascii true false true false false true true false)
                                 String.EmptyString))))))),
          String.String (Ascii.Ascii true true false false true true true false)
            (String.String (Ascii.Ascii true false true false false true true false)
               (String.String (Ascii.Ascii false false true true false true true false)
                  (String.String (Ascii.Ascii false true true false false true true false)
                     (String.String (Ascii.Ascii false true true true false true false false)
                        (String.String (Ascii.Ascii true true true true true false true false)
                           (String.String (Ascii.Ascii true true true false false true true false)
                              (String.String (Ascii.Ascii false true false false true true true false)
                                 (String.String (Ascii.Ascii true false false true false true true false)
                                    (String.String (Ascii.Ascii false false true false false true true false)
                                       (String.String (Ascii.Ascii true true false false true true true false)
                                          (String.String (Ascii.Ascii true false false true false true true false)
                                             (String.String (Ascii.Ascii false true false true true true true false)
                                                (String.String
                                                   (Ascii.Ascii true false true false false true true false)
                                                   String.EmptyString))))))))))))));
         (String.String (Ascii.Ascii true true true true false true true false)
            (String.String (Ascii.Ascii false true false false true true true false)
               (String.String (Ascii.Ascii true false false true false true true false)
                  (String.String (Ascii.Ascii true true true false false true true false)
                     (String.String (Ascii.Ascii true false false true false true true false)
                        (String.String (Ascii.Ascii false true true true false true true false) String.EmptyString))))),
          String.String (Ascii.Ascii true true false false true true true false)
            (String.String (Ascii.Ascii true false true false false true true false)
               (String.String (Ascii.Ascii false false true true false true true false)
                  (String.String (Ascii.Ascii false true true false false true true false)
                     (String.String (Ascii.Ascii false true true true false true false false)
                        (String.String (Ascii.Ascii true true true true true false true false)
                           (String.String (Ascii.Ascii true true true true false true true false)
                              (String.String (Ascii.Ascii false true false false true true true false)
                                 (String.String (Ascii.Ascii true false false true false true true false)
                                    (String.String (Ascii.Ascii true true true false false true true false)
                                       (String.String (Ascii.Ascii true false false true false true true false)
                                          (String.String (Ascii.Ascii false true true true false true true false)
                                             String.EmptyString))))))))))))];
        [(String.String (Ascii.Ascii true true true false false true true false)
            (String.String (Ascii.Ascii false true false false true true true false)
               (String.String (Ascii.Ascii true false false true false true true false)
                  (String.String (Ascii.Ascii false false true false false true true false) String.EmptyString))),
          String.String (Ascii.Ascii true true false false true true true false)
            (String.String (Ascii.Ascii true false true false false true true false)
               (String.String (Ascii.Ascii false false true true false true true false)
                  (String.String (Ascii.Ascii false true true false false true true false)
                     (String.String (Ascii.Ascii false true true true false true false false)
                        (String.String (Ascii.Ascii true true true true true false true false)
                           (String.String (Ascii.Ascii true true true false false true true false)
                              (String.String (Ascii.Ascii false true false false true true true false)
                                 (String.String (Ascii.Ascii true false false false false true true false)
                                    (String.String (Ascii.Ascii false false true false false true true false)
                                       (String.String (Ascii.Ascii true false false true false true true false)
                                          (String.String (Ascii.Ascii true false true false false true true false)
                                             (String.String (Ascii.Ascii false true true true false true true false)
                                                (String.String
                                                   (Ascii.Ascii false false true false true true true false)
                                                   (String.String
                                                      (Ascii.Ascii true true false true true false true false)
                                                      (String.String
                                                         (Ascii.Ascii false true false true true true false false)
                                                         (String.String
                                                            (Ascii.Ascii false false true true false true false false)
                                                            (String.String
                                                               (Ascii.Ascii false false false false false true false
                                                                  false)
                                                               (String.String
                                                                  (Ascii.Ascii false true false true true true false
                                                                     false)
                                                                  (String.String
                                                                     (Ascii.Ascii false false true true false true
                                                                        false false)
                                                                     (String.String
                                                                        (Ascii.Ascii false false false false false true
                                                                           false false)
                                                                        (String.String
                                                                           (Ascii.Ascii false true false true true true
                                                                              false false)
                                                                           (String.String
                                                                              (Ascii.Ascii false false true true false
                                                                                 true false false)
                                                                              (String.String
                                                                                 (Ascii.Ascii false false false false
                                                                                    false true false false)
                                                                                 (String.String
                                                                                    (Ascii.Ascii true false false false
                                                                                       true true false false)
                                                                                    (String.String
                                                                                       (Ascii.Ascii true false true
                                                                                          true true false true false)
                                                                                       String.EmptyString))))))))))))))))))))))))));
         (String.String (Ascii.Ascii true true true false false true true false)
            (String.String (Ascii.Ascii false true false false true true true false)
               (String.String (Ascii.Ascii true false false true false true true false)
                  (String.String (Ascii.Ascii false false true false false true true false)
                     (String.String (Ascii.Ascii true true false false true true true false)
                        (String.String (Ascii.Ascii true false false true false true true false)
                           (String.String (Ascii.Ascii false true false true true true true false)
                              (String.String (Ascii.Ascii true false true false false true true false)
                                 String.EmptyString))))))),
          String.String (Ascii.Ascii true true false false true true true false)
            (String.String (Ascii.Ascii true false true false false true true false)
               (String.String (Ascii.Ascii false false true true false true true false)
                  (String.String (Ascii.Ascii false true true false false true true false)
                     (String.String (Ascii.Ascii false true true true false true false false)
                        (String.String (Ascii.Ascii true true true true true false true false)
                           (String.String (Ascii.Ascii true true true false false true true false)
                              (String.String (Ascii.Ascii false true false false true true true false)
                                 (String.String (Ascii.Ascii true false false true false true true false)
                                    (String.String (Ascii.Ascii false false true false false true true false)
                                       (String.String (Ascii.Ascii true true false false true true true false)
                                          (String.String (Ascii.Ascii true false false true false true true false)
                                             (String.String (Ascii.Ascii false true false true true true true false)
                                                (String.String
                                                   (Ascii.Ascii true false true false false true true false)
                                                   String.EmptyString))))))))))))));
         (String.String (Ascii.Ascii true true true true false true true false)
            (String.String (Ascii.Ascii false true false false true true true false)
               (String.String (Ascii.Ascii true false false true false true true false)
                  (String.String (Ascii.Ascii true true true false false true true false)
                     (String.String (Ascii.Ascii true false false true false true true false)
                        (String.String (Ascii.Ascii false true true true false true true false) String.EmptyString))))),
          String.String (Ascii.Ascii true true false false true true true false)
            (String.String (Ascii.Ascii true false true false false true true false)
               (String.String (Ascii.Ascii false false true true false true true false)
                  (String.String (Ascii.Ascii false true true false false true true false)
                     (String.String (Ascii.Ascii false true true true false true false false)
                        (String.String (Ascii.Ascii true true true true true false true false)
                           (String.String (Ascii.Ascii true true true true false true true false)
                              (String.String (Ascii.Ascii false true false false true true true false)
                                 (String.String (Ascii.Ascii true false false true false true true false)
                                    (String.String (Ascii.Ascii true true true false false true true false)
                                       (String.String (Ascii.Ascii true false false true false true true false)
                                          (String.String (Ascii.Ascii false true true true false true true false)
                                             String.EmptyString))))))))))))];
        [(String.String (Ascii.Ascii true true true false false true true false)
            (String.String (Ascii.Ascii false true false false true true true false)
               (String.String (Ascii.Ascii true false false true false true true false)
                  (String.String (Ascii.Ascii false false true false false true true false) String.EmptyString))),
          String.String (Ascii.Ascii true true false false true true true false)
            (String.String (Ascii.Ascii true false true false false true true false)
               (String.String (Ascii.Ascii false false true true false true true false)
                  (String.String (Ascii.Ascii false true true false false true true false)
                     (String.String (Ascii.Ascii false true true true false true false false)
                        (String.String (Ascii.Ascii true true true true true false true false)
                           (String.String (Ascii.Ascii true true true false false true true false)
                              (String.String (Ascii.Ascii false true false false true true true false)
                                 (String.String (Ascii.Ascii true false false false false true true false)
                                    (String.String (Ascii.Ascii false false true false false true true false)
                                       (String.String (Ascii.Ascii true false false true false true true false)
                                          (String.String (Ascii.Ascii true false true false false true true false)
                                             (String.String (Ascii.Ascii false true true true false true true false)
                                                (String.String
                                                   (Ascii.Ascii false false true false true true true false)
                                                   (String.String
                                                      (Ascii.Ascii true true false true true false true false)
                                                      (String.String
                                                         (Ascii.Ascii false true false true true true false false)
                                                         (String.String
                                                            (Ascii.Ascii false false true true false true false false)
                                                            (String.String
                                                               (Ascii.Ascii false false false false false true false
                                                                  false)
                                                               (String.String
                                                                  (Ascii.Ascii false true false true true true false
                                                                     false)
                                                                  (String.String
                                                                     (Ascii.Ascii false false true true false true
                                                                        false false)
                                                                     (String.String
                                                                        (Ascii.Ascii false false false false false true
                                                                           false false)
                                                                        (String.String
                                                                           (Ascii.Ascii false true false true true true
                                                                              false false)
                                                                           (String.String
                                                                              (Ascii.Ascii false false true true false
                                                                                 true false false)
                                                                              (String.String
                                                                                 (Ascii.Ascii false false false false
                                                                                    false true false false)
                                                                                 (String.String
                                                                                    (Ascii.Ascii false true false false
                                                                                       true true false false)
                                                                                    (String.String
                                                                                       (Ascii.Ascii true false true
                                                                                          true true false true false)
                                                                                       String.EmptyString))))))))))))))))))))))))));
         (String.String (Ascii.Ascii true true true false false true true false)
            (String.String (Ascii.Ascii false true false false true true true false)
               (String.String (Ascii.Ascii true false false true false true true false)
                  (String.String (Ascii.Ascii false false true false false true true false)
                     (String.String (Ascii.Ascii true true false false true true true false)
                        (String.String (Ascii.Ascii true false false true false true true false)
                           (String.String (Ascii.Ascii false true false true true true true false)
                              (String.String (Ascii.Ascii true false true false false true true false)
                                 String.EmptyString))))))),
          String.String (Ascii.Ascii true true false false true true true false)
            (String.String (Ascii.Ascii true false true false false true true false)
               (String.String (Ascii.Ascii false false true true false true true false)
                  (String.String (Ascii.Ascii false true true false false true true false)
                     (String.String (Ascii.Ascii false true true true false true false false)
                        (String.String (Ascii.Ascii true true true true true false true false)
                           (String.String (Ascii.Ascii true true true false false true true false)
                              (String.String (Ascii.Ascii false true false false true true true false)
                                 (String.String (Ascii.Ascii true false false true false true true false)
                                    (String.String (Ascii.Ascii false false true false false true true false)
                                       (String.String (Ascii.Ascii true true false false true true true false)
                                          (String.String (Ascii.Ascii true false false true false true true false)
                                             (String.String (Ascii.Ascii false true false true true true true false)
                                                (String.String
                                                   (Ascii.Ascii true false true false false true true false)
                                                   String.EmptyString))))))))))))));
         (String.String (Ascii.Ascii true true true true false true true false)
            (String.String (Ascii.Ascii false true false false true true true false)
               (String.String (Ascii.Ascii true false false true false true true false)
                  (String.String (Ascii.Ascii true true true false false true true false)
                     (String.String (Ascii.Ascii true false false true false true true false)
                        (String.String (Ascii.Ascii false true true true false true true false) String.EmptyString))))),
          String.String (Ascii.Ascii true true false false true true true false)
            (String.String (Ascii.Ascii true false true false false true true false)
               (String.String (Ascii.Ascii false false true true false true true false)
                  (String.String (Ascii.Ascii false true true false false true true false)
                     (String.String (Ascii.Ascii false true true true false true false false)
                        (String.String (Ascii.Ascii true true true true true false true false)
                           (String.String (Ascii.Ascii true true true true false true true false)
                              (String.String (Ascii.Ascii false true false false true true true false)
                                 (String.String (Ascii.Ascii true false false true false true true false)
                                    (String.String (Ascii.Ascii true true true false false true true false)
                                       (String.String (Ascii.Ascii true false false true false true true false)
                                          (String.String (Ascii.Ascii false true true true false true true false)
                                             String.EmptyString))))))))))))]] /\
       ApiGen.grid_3d_init =
       (String.String (Ascii.Ascii false false false true false true false false)
          (String.String (Ascii.Ascii true true false false true true true false)
             (String.String (Ascii.Ascii true false true false false true true false)
                (String.String (Ascii.Ascii false false true true false true true false)
                   (String.String (Ascii.Ascii false true true false false true true false)
                      (String.String (Ascii.Ascii false false true true false true false false)
                         (String.String (Ascii.Ascii false false false false false true false false)
                            (String.String (Ascii.Ascii false true false true false true false false)
                               (String.String (Ascii.Ascii true false false false false true true false)
                                  (String.String (Ascii.Ascii false true false false true true true false)
                                     (String.String (Ascii.Ascii true true true false false true true false)
                                        (String.String (Ascii.Ascii true true false false true true true false)
                                           (String.String (Ascii.Ascii false false true true false true false false)
                                              (String.String
                                                 (Ascii.Ascii false false false false false true false false)
                                                 (String.String
                                                    (Ascii.Ascii false true false true false true false false)
                                                    (String.String
                                                       (Ascii.Ascii false true false true false true false false)
                                                       (String.String
                                                          (Ascii.Ascii true true false true false true true false)
                                                          (String.String
                                                             (Ascii.Ascii true true true false true true true false)
                                                             (String.String
                                                                (Ascii.Ascii true false false false false true true
                                                                   false)
                                                                (String.String
                                                                   (Ascii.Ascii false true false false true true true
                                                                      false)
                                                                   (String.String
                                                                      (Ascii.Ascii true true true false false true true
                                                                         false)
                                                                      (String.String
                                                                         (Ascii.Ascii true true false false true true
                                                                            true false)
                                                                         (String.String
                                                                            (Ascii.Ascii true false false true false
                                                                               true false false) String.EmptyString)))))))))))))))))))))),
        String.String (Ascii.Ascii true true false false true true true false)
          (String.String (Ascii.Ascii true false true false true true true false)
             (String.String (Ascii.Ascii false false false false true true true false)
                (String.String (Ascii.Ascii true false true false false true true false)
                   (String.String (Ascii.Ascii false true false false true true true false)
                      (String.String (Ascii.Ascii false false false true false true false false)
                         (String.String (Ascii.Ascii true false false true false true false false)
                            (String.String (Ascii.Ascii false true true true false true false false)
                               (String.String (Ascii.Ascii true true true true true false true false)
                                  (String.String (Ascii.Ascii true true true true true false true false)
                                     (String.String (Ascii.Ascii true false false true false true true false)
                                        (String.String (Ascii.Ascii false true true true false true true false)
                                           (String.String (Ascii.Ascii true false false true false true true false)
                                              (String.String (Ascii.Ascii false false true false true true true false)
                                                 (String.String (Ascii.Ascii true true true true true false true false)
                                                    (String.String
                                                       (Ascii.Ascii true true true true true false true false)
                                                       (String.String
                                                          (Ascii.Ascii false false false true false true false false)
                                                          (String.String
                                                             (Ascii.Ascii false true false true false true false false)
                                                             (String.String
                                                                (Ascii.Ascii true false false false false true true
                                                                   false)
                                                                (String.String
                                                                   (Ascii.Ascii false true false false true true true
                                                                      false)
                                                                   (String.String
                                                                      (Ascii.Ascii true true true false false true true
                                                                         false)
                                                                      (String.String
                                                                         (Ascii.Ascii true true false false true true
                                                                            true false)
                                                                         (String.String
                                                                            (Ascii.Ascii false false true true false
                                                                               true false false)
                                                                            (String.String
                                                                               (Ascii.Ascii false false false false
                                                                                  false true false false)
                                                                               (String.String
                                                                                  (Ascii.Ascii false true false true
                                                                                     false true false false)
                                                                                  (String.String
                                                                                     (Ascii.Ascii false true false true
                                                                                        false true false false)
                                                                                     (String.String
                                                                                        (Ascii.Ascii true true false
                                                                                          true false true true false)
                                                                                        (String.String
                                                                                          (Ascii.Ascii true true true
                                                                                          false true true true false)
                                                                                          (String.String
                                                                                          (Ascii.Ascii true false false
                                                                                          false false true true false)
                                                                                          (String.String
                                                                                          (Ascii.Ascii false true false
                                                                                          false true true true false)
                                                                                          (String.String
                                                                                          (Ascii.Ascii true true true
                                                                                          false false true true false)
                                                                                          (String.String
                                                                                          (Ascii.Ascii true true false
                                                                                          false true true true false)
                                                                                          (String.String
                                                                                          (Ascii.Ascii true false false
                                                                                          true false true false false)
                                                                                          String.EmptyString))))))))))))))))))))))))))))))))).
Proof. exact @ApiGenEq.gen_gradient_3d. Qed.

Print Assumptions C13_single_solve2d_raises_iff_outside.
Print Assumptions C13_single_solve3d_raises_iff_outside.
Print Assumptions C13_list_solve2d_spec.
Print Assumptions C13_list_solve3d_spec.
Print Assumptions C13_list_solve2d_raises_if_some_source_outside.
Print Assumptions C13_list_solve2d_returns_map_of_singles.
Print Assumptions C13_single_ray2d_value_error_iff_outside.
Print Assumptions C13_list_ray2d_spec.
Print Assumptions C13_list_ray2d_raises_like_first_failing_single.
Print Assumptions C13_list_ray3d_raises_like_first_failing_single.
Print Assumptions C13_ray_budget_raises_iff_insufficient_2d.
Print Assumptions C13_ray_budget_raises_iff_insufficient_3d.
Print Assumptions C13_ray_outside_hull_independent_of_budget_2d.
Print Assumptions C13_ray_outside_hull_independent_of_budget_3d.
Print Assumptions C13_gradient_access_without_gradient_raises_ValueError.
Print Assumptions C13_gradient_access_without_gradient_raises_ValueError_3d.
