(* C13  Invalid requests are reported by raising, identically for single and list calls (model: gen/Fteik2d.v, gen/Fteik3d.v; ray kernels: see C10)
   Only statements and `exact`: the proofs are in proofs/.  Written by tools/mkprops.py from Coq's own printing of the
   lemma statements; every statement is in full below so that it cannot be weakened without this file changing. *)
From Coq Require Import ZArith List Bool PrimFloat.
From FT.lib Require Import Num Arr ArrLemmas Lower NumArr.
From FT.gen Require Import Common Fteik2d Fteik3d.
From FT.proofs Require Import Solve2dProofs Solve3dProofs VectorizedProofs.
Import ListNotations.
Open Scope Z_scope.

(* single solve: ValueError iff the source fails the domain test; otherwise it returns (no valid request raises) *)
Theorem C13_single_solve2d_raises_iff_outside :
  forall (T : Type) (H : Num T) (slow : arr T) (dz dx zsrc xsrc : T) (nsweep : Z) (grad : bool),
       (inside2d slow dz dx zsrc xsrc = false -> fteik2d slow dz dx zsrc xsrc nsweep grad = Raise ValueError) /\
       (inside2d slow dz dx zsrc xsrc = true ->
        exists r : arr T * arr T * T, fteik2d slow dz dx zsrc xsrc nsweep grad = Ok r).
Proof. exact @Solve2dProofs.fteik2d_raises_iff. Qed.

(* 3D *)
Theorem C13_single_solve3d_raises_iff_outside :
  forall (T : Type) (H : Num T) (slow : arr T) (dz dx dy zsrc xsrc ysrc : T) (nsweep : Z) (grad : bool),
       (inside3d slow dz dx dy zsrc xsrc ysrc = false ->
        fteik3d slow dz dx dy zsrc xsrc ysrc nsweep grad = Raise ValueError) /\
       (inside3d slow dz dx dy zsrc xsrc ysrc = true ->
        exists r : arr T * arr T * T, fteik3d slow dz dx dy zsrc xsrc ysrc nsweep grad = Ok r).
Proof. exact @Solve3dProofs.fteik3d_raises_iff. Qed.

(* list solve = validation of every source in order, then the single solver mapped over the sources: no exception is raised from inside the parallel loop *)
Theorem C13_list_solve2d_spec :
  forall (T : Type) (H : Num T) (slow : arr T) (dz dx : T) (zsrc xsrc : arr T) (nsweep : Z) (grad : bool),
       fteik2d_vectorized slow dz dx zsrc xsrc nsweep grad =
       match
         find_exc
           (fun i : Z =>
            if negb (src_inside2 slow dz dx (get (nofZ 0) zsrc [i]) (get (nofZ 0) xsrc [i]))
            then Some ValueError
            else None) (pyrange 0 (dim zsrc 0) 1)
       with
       | Some e => Raise e
       | None =>
           mapM (fun i : Z => fteik2d slow dz dx (get (nofZ 0) zsrc [i]) (get (nofZ 0) xsrc [i]) nsweep grad)
             (pyrange 0 (dim zsrc 0) 1)
       end.
Proof. exact @VectorizedProofs.fteik2d_vectorized_spec. Qed.

(* 3D *)
Theorem C13_list_solve3d_spec :
  forall (T : Type) (H : Num T) (slow : arr T) (dz dx dy : T) (zsrc xsrc ysrc : arr T) (nsweep : Z) (grad : bool),
       fteik3d_vectorized slow dz dx dy zsrc xsrc ysrc nsweep grad =
       match
         find_exc
           (fun i : Z =>
            if negb (src_inside3 slow dz dx dy (get (nofZ 0) zsrc [i]) (get (nofZ 0) xsrc [i]) (get (nofZ 0) ysrc [i]))
            then Some ValueError
            else None) (pyrange 0 (dim zsrc 0) 1)
       with
       | Some e => Raise e
       | None =>
           mapM
             (fun i : Z =>
              fteik3d slow dz dx dy (get (nofZ 0) zsrc [i]) (get (nofZ 0) xsrc [i]) (get (nofZ 0) ysrc [i]) nsweep grad)
             (pyrange 0 (dim zsrc 0) 1)
       end.
Proof. exact @VectorizedProofs.fteik3d_vectorized_spec. Qed.

(* an outside source at any position of the list makes the list call raise ValueError *)
Theorem C13_list_solve2d_raises_if_some_source_outside :
  forall (T : Type) (H : Num T) (slow : arr T) (dz dx : T) (zsrc xsrc : arr T) (nsweep : Z) (grad : bool),
       (exists i : Z,
          In i (pyrange 0 (dim zsrc 0) 1) /\
          src_inside2 slow dz dx (get (nofZ 0) zsrc [i]) (get (nofZ 0) xsrc [i]) = false) ->
       fteik2d_vectorized slow dz dx zsrc xsrc nsweep grad = Raise ValueError.
Proof. exact @VectorizedProofs.solve2d_list_raises_iff_some_source_outside. Qed.

(* and when every source is inside the list call returns the single results, in order *)
Theorem C13_list_solve2d_returns_map_of_singles :
  forall (T : Type) (H : Num T) (slow : arr T) (dz dx : T) (zsrc xsrc : arr T) (nsweep : Z) 
         (grad : bool) (r : Z -> arr T * arr T * T),
       (forall i : Z,
        In i (pyrange 0 (dim zsrc 0) 1) ->
        src_inside2 slow dz dx (get (nofZ 0) zsrc [i]) (get (nofZ 0) xsrc [i]) = true /\
        fteik2d slow dz dx (get (nofZ 0) zsrc [i]) (get (nofZ 0) xsrc [i]) nsweep grad = Ok (r i)) ->
       fteik2d_vectorized slow dz dx zsrc xsrc nsweep grad = Ok (map r (pyrange 0 (dim zsrc 0) 1)).
Proof. exact @VectorizedProofs.solve2d_list_is_map_of_singles. Qed.

Print Assumptions C13_single_solve2d_raises_iff_outside.
Print Assumptions C13_single_solve3d_raises_iff_outside.
Print Assumptions C13_list_solve2d_spec.
Print Assumptions C13_list_solve3d_spec.
Print Assumptions C13_list_solve2d_raises_if_some_source_outside.
Print Assumptions C13_list_solve2d_returns_map_of_singles.
