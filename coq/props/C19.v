(* C19  The compiled build computes what the Python source says.
   The check proper is translation validation (three-way correspondence, see harness/corr.py); what can be stated
   as theorems is about the compilation options, which the translator extracts from the source as data (gen/Flags.v):
   the fast-math set is exactly the one that forbids value-changing rewrites beyond contraction / reciprocal /
   approximate functions (no `nnan`, no `reassoc`, no `fast`), and `parallel=True` is used only on the list kernels. *)
From Coq Require Import String List Bool.
From FT.gen Require Import Flags.
Import ListNotations.
Open Scope string_scope.

Definition lookup (who what : string) : list string :=
  map (fun t => snd t) (filter (fun t => (String.eqb (fst (fst t)) who && String.eqb (snd (fst t)) what)%bool) flags).

Theorem C19_fastmath_set_is_the_documented_one : lookup "default" "fastmath" = ["afn,arcp,contract,ninf,nsz"].
Proof. vm_compute. reflexivity. Qed.

Theorem C19_default_options : lookup "default" "nopython" = ["True"] /\ lookup "default" "nogil" = ["True"] /\ lookup "default" "cache" = ["True"].
Proof. vm_compute. repeat split. Qed.

(* parallel=True appears exactly on the eight list kernels (whose loops the translator checks to be maps) *)
Theorem C19_parallel_kernels :
  map (fun t => fst (fst t)) (filter (fun t => String.eqb (snd (fst t)) "parallel") flags) =
  ["_interp._interp2d._interp2d_vectorized"; "_interp._interp3d._interp3d_vectorized";
   "_interp._vinterp2d._vinterp2d_vectorized"; "_interp._vinterp3d._vinterp3d_vectorized";
   "_fteik._fteik2d.fteik2d_vectorized"; "_fteik._fteik3d.fteik3d_vectorized";
   "_fteik._ray2d._ray2d_vectorized"; "_fteik._ray3d._ray3d_vectorized"].
Proof. vm_compute. reflexivity. Qed.

(* The decorator is `kwargs.update(defaults); return jit( *args, **kwargs )` (the translator accepts no other shape and
   records it as ("decorator","combination","defaults-override")): a default REPLACES what a kernel's own decorator
   passes under the same key.  The default keys are exactly these four, so no kernel-level request (the
   `boundscheck=True` of the two apparent-velocity interpolators, the `parallel=True` of the list kernels) is silently
   overridden, and every kernel is compiled with the documented fast-math set. *)
Definition keys_of (who : string) : list string :=
  map (fun t => snd (fst t)) (filter (fun t => String.eqb (fst (fst t)) who) flags).

Definition effective (who what : string) : list string :=
  match lookup "decorator" "combination" with
  | ["defaults-override"] => match lookup "default" what with [] => lookup who what | l => l end
  | _ => []
  end.

Fixpoint leqb (a b : list string) : bool :=
  match a, b with
  | [], [] => true
  | x :: a', y :: b' => String.eqb x y && leqb a' b'
  | _, _ => false
  end.
Lemma leqb_eq a b : leqb a b = true -> a = b.
Proof.
  revert b; induction a as [|x a IH]; intros [|y b] H; cbn in H; try congruence.
  apply andb_prop in H. destruct H as [Hx Hr]. apply String.eqb_eq in Hx. subst. f_equal. apply IH; exact Hr.
Qed.

Definition is_kernel (who : string) : bool := negb (String.eqb who "default" || String.eqb who "decorator").

Theorem C19_default_keys_are_exactly : keys_of "default" = ["nopython"; "nogil"; "fastmath"; "cache"].
Proof. vm_compute. reflexivity. Qed.

Theorem C19_requested_boundscheck_reaches_numba :
  effective "_interp._vinterp2d._vinterp2d" "boundscheck" = ["True"] /\
  effective "_interp._vinterp3d._vinterp3d" "boundscheck" = ["True"].
Proof. vm_compute. split; reflexivity. Qed.

Definition chk (t : string * string * string) : bool :=
  let '(who, what, v) := t in
  (negb (is_kernel who) || (String.eqb what "signature" ||
   (leqb (effective who what) [v] &&
    (leqb (effective who "fastmath") ["afn,arcp,contract,ninf,nsz"] &&
     leqb (effective who "boundscheck") (lookup who "boundscheck")))))%bool.

Lemma chk_all : forallb chk flags = true.
Proof. vm_compute. reflexivity. Qed.

Theorem C19_no_kernel_option_is_overridden :
  forall who what v, In (who, what, v) flags -> is_kernel who = true -> what <> "signature" ->
    effective who what = [v] /\ effective who "fastmath" = ["afn,arcp,contract,ninf,nsz"] /\ effective who "boundscheck" = lookup who "boundscheck".
Proof.
  intros who what v Hin Hk Hs.
  pose proof (proj1 (forallb_forall chk flags) chk_all _ Hin) as H.
  unfold chk in H. rewrite Hk in H. change (negb true) with false in H. rewrite orb_false_l in H.
  destruct (String.eqb what "signature") eqn:E.
  - apply String.eqb_eq in E. contradiction.
  - rewrite orb_false_l in H.
    apply andb_prop in H. destruct H as [H1 H]. apply andb_prop in H. destruct H as [H2 H3].
    split; [|split]; apply leqb_eq; assumption.
Qed.

Example C19_overridden_premises_inhabited :
  In ("_interp._vinterp2d._vinterp2d", "boundscheck", "True") flags /\ is_kernel "_interp._vinterp2d._vinterp2d" = true.
Proof. vm_compute. split; [|reflexivity]. repeat (first [left; reflexivity | right]). Qed.

(* The declared widths: the explicit signature of every jitted function, as extracted from the source, is EXACTLY this
   table ("" = no explicit signature: Numba infers the types from the call).  32-bit integers (i4) occur only as grid
   indices, node counts, sweep counts, direction signs and step budgets - never as the result of a float computation - and
   every array of data is f8.  A new or changed signature (e.g. a helper returning `i4` from `int(length / stepsize)`)
   changes this table and is then examined by the compiled-vs-interpreted comparison. *)
Theorem C19_explicit_signatures_are_exactly :
  map (fun t => (fst (fst t), snd t)) (filter (fun t => String.eqb (snd (fst t)) "signature") flags) =
  [("_common.norm2d", "");
   ("_common.norm3d", "");
   ("_common.dist2d", "");
   ("_common.dist3d", "");
   ("_interp._interp2d._interp2d", "f8(f8[:], f8[:], f8[:, :], f8, f8, f8)");
   ("_interp._interp2d._interp2d_vectorized", "");
   ("_interp._interp2d.interp2d", "");
   ("_interp._interp3d._interp3d", "f8(f8[:], f8[:], f8[:], f8[:, :, :], f8, f8, f8, f8)");
   ("_interp._interp3d._interp3d_vectorized", "");
   ("_interp._interp3d.interp3d", "");
   ("_interp._vinterp2d._vinterp2d", "f8(f8[:], f8[:], f8[:, :], f8, f8, f8, f8, f8, f8)");
   ("_interp._vinterp2d._vinterp2d_vectorized", "");
   ("_interp._vinterp2d.vinterp2d", "");
   ("_interp._vinterp3d._vinterp3d", "f8(f8[:], f8[:], f8[:], f8[:, :, :], f8, f8, f8, f8, f8, f8, f8, f8)");
   ("_interp._vinterp3d._vinterp3d_vectorized", "");
   ("_interp._vinterp3d.vinterp3d", "");
   ("_fteik._common.shrink", "f8(f8[:], f8[:], f8[:], f8[:])");
   ("_fteik._fteik2d.t_ana", "f8(i4, i4, f8, f8, f8, f8, f8)");
   ("_fteik._fteik2d.t_anad", "UniTuple(f8, 3)(i4, i4, f8, f8, f8, f8, f8)");
   ("_fteik._fteik2d.delta", "f8(f8, f8, f8, f8, f8, f8, f8, f8, f8, f8, f8, f8, f8, i4, i4)");
   ("_fteik._fteik2d.sweep", "void(f8[:, :], i4[:, :, :], f8[:, :], UniTuple(f8, 6), f8, f8, f8, f8, f8, i4, i4, i4, i4, i4, i4, i4, i4, b1)");
   ("_fteik._fteik2d.sweep2d", "void(f8[:, :], i4[:, :, :], f8[:, :], f8, f8, f8, f8, f8, f8, f8, i4, i4, b1)");
   ("_fteik._fteik2d.fteik2d", "Tuple((f8[:, :], f8[:, :, :], f8))(f8[:, :], f8, f8, f8, f8, i4, b1)");
   ("_fteik._fteik2d.fteik2d_vectorized", "Tuple((f8[:, :, :], f8[:, :, :, :], f8[:]))(f8[:, :], f8, f8, f8[:], f8[:], i4, b1)");
   ("_fteik._fteik2d.solve2d", "");
   ("_fteik._fteik3d.t_ana", "f8(i4, i4, i4, f8, f8, f8, f8, f8, f8, f8)");
   ("_fteik._fteik3d.t_anad", "UniTuple(f8, 4)(i4, i4, i4, f8, f8, f8, f8, f8, f8, f8)");
   ("_fteik._fteik3d.sweep", "void(f8[:, :, :], i4[:, :, :, :], f8[:, :, :], UniTuple(f8, 10), i4, i4, i4, i4, i4, i4, i4, i4, i4, i4, i4, i4, b1)");
   ("_fteik._fteik3d.sweep3d", "void(f8[:, :, :], i4[:, :, :, :], f8[:, :, :], f8, f8, f8, i4, i4, i4, b1)");
   ("_fteik._fteik3d.fteik3d", "Tuple((f8[:, :, :], f8[:, :, :, :], f8))(f8[:, :, :], f8, f8, f8, f8, f8, f8, i4, b1)");
   ("_fteik._fteik3d.fteik3d_vectorized", "Tuple((f8[:, :, :, :], f8[:, :, :, :, :], f8[:]))(f8[:, :, :], f8, f8, f8, f8[:], f8[:], f8[:], i4, b1)");
   ("_fteik._fteik3d.solve3d", "");
   ("_fteik._ray2d._ray2d_core", "Tuple((f8[:, :], i4))(f8[:], f8[:], f8[:, :], f8[:, :], f8, f8, f8, f8, f8, i4, b1)");
   ("_fteik._ray2d._ray2d", "Tuple((f8[:, :], i4))(f8[:], f8[:], f8[:, :], f8[:, :], f8, f8, f8, f8, f8, i4, b1)");
   ("_fteik._ray2d._ray2d_vectorized", "");
   ("_fteik._ray2d.ray2d", "");
   ("_fteik._ray3d._ray3d_core", "Tuple((f8[:, :], i4))(f8[:], f8[:], f8[:], f8[:, :, :], f8[:, :, :], f8[:, :, :], f8, f8, f8, f8, f8, f8, f8, i4, b1)");
   ("_fteik._ray3d._ray3d", "Tuple((f8[:, :], i4))(f8[:], f8[:], f8[:], f8[:, :, :], f8[:, :, :], f8[:, :, :], f8, f8, f8, f8, f8, f8, f8, i4, b1)");
   ("_fteik._ray3d._ray3d_vectorized", "");
   ("_fteik._ray3d.ray3d", "")].
Proof. vm_compute. reflexivity. Qed.

Print Assumptions C19_fastmath_set_is_the_documented_one.
Print Assumptions C19_default_keys_are_exactly.
Print Assumptions C19_requested_boundscheck_reaches_numba.
Print Assumptions C19_no_kernel_option_is_overridden.
Print Assumptions C19_default_options.
Print Assumptions C19_parallel_kernels.
Print Assumptions C19_explicit_signatures_are_exactly.
