(* C19  The compiled build computes what the Python source says.
   The check proper is translation validation (three-way correspondence, see harness/corr.py); what can be stated
   as theorems is about the compilation options, which the translator extracts from the source as data (gen/Flags.v):
   the fast-math set is exactly the one that forbids value-changing rewrites beyond contraction / reciprocal /
   approximate functions (no `nnan`, no `reassoc`, no `fast`), and `parallel=True` is used only on the list kernels. *)
From Coq Require Import String List Bool.
From FT.gen Require Import Flags.
Import ListNotations.
Open Scope string_scope.

Definition lookup (who what : string) : list string :=
  map (fun t => snd t) (filter (fun t => (String.eqb (fst (fst t)) who && String.eqb (snd (fst t)) what)%bool) flags).

Theorem C19_fastmath_set_is_the_documented_one : lookup "default" "fastmath" = ["afn,arcp,contract,ninf,nsz"].
Proof. vm_compute. reflexivity. Qed.

Theorem C19_default_options : lookup "default" "nopython" = ["True"] /\ lookup "default" "nogil" = ["True"] /\ lookup "default" "cache" = ["True"].
Proof. vm_compute. repeat split. Qed.

(* parallel=True appears exactly on the eight list kernels (whose loops the translator checks to be maps) *)
Theorem C19_parallel_kernels :
  map (fun t => fst (fst t)) (filter (fun t => String.eqb (snd (fst t)) "parallel") flags) =
  ["_interp._interp2d._interp2d_vectorized"; "_interp._interp3d._interp3d_vectorized";
   "_interp._vinterp2d._vinterp2d_vectorized"; "_interp._vinterp3d._vinterp3d_vectorized";
   "_fteik._fteik2d.fteik2d_vectorized"; "_fteik._fteik3d.fteik3d_vectorized";
   "_fteik._ray2d._ray2d_vectorized"; "_fteik._ray3d._ray3d_vectorized"].
Proof. vm_compute. reflexivity. Qed.

(* The decorator is `kwargs.update(defaults); return jit( *args, **kwargs )` (the translator accepts no other shape and
   records it as ("decorator","combination","defaults-override")): a default REPLACES what a kernel's own decorator
   passes under the same key.  The default keys are exactly these four, so no kernel-level request (the
   `boundscheck=True` of the two apparent-velocity interpolators, the `parallel=True` of the list kernels) is silently
   overridden, and every kernel is compiled with the documented fast-math set. *)
Definition keys_of (who : string) : list string :=
  map (fun t => snd (fst t)) (filter (fun t => String.eqb (fst (fst t)) who) flags).

Definition effective (who what : string) : list string :=
  match lookup "decorator" "combination" with
  | ["defaults-override"] => match lookup "default" what with [] => lookup who what | l => l end
  | _ => []
  end.

Fixpoint leqb (a b : list string) : bool :=
  match a, b with
  | [], [] => true
  | x :: a', y :: b' => String.eqb x y && leqb a' b'
  | _, _ => false
  end.
Lemma leqb_eq a b : leqb a b = true -> a = b.
Proof.
  revert b; induction a as [|x a IH]; intros [|y b] H; cbn in H; try congruence.
  apply andb_prop in H. destruct H as [Hx Hr]. apply String.eqb_eq in Hx. subst. f_equal. apply IH; exact Hr.
Qed.

Definition is_kernel (who : string) : bool := negb (String.eqb who "default" || String.eqb who "decorator").

Theorem C19_default_keys_are_exactly : keys_of "default" = ["nopython"; "nogil"; "fastmath"; "cache"].
Proof. vm_compute. reflexivity. Qed.

Theorem C19_requested_boundscheck_reaches_numba :
  effective "_interp._vinterp2d._vinterp2d" "boundscheck" = ["True"] /\
  effective "_interp._vinterp3d._vinterp3d" "boundscheck" = ["True"].
Proof. vm_compute. split; reflexivity. Qed.

Definition chk (t : string * string * string) : bool :=
  let '(who, what, v) := t in
  (negb (is_kernel who) || (String.eqb what "signature" ||
   (leqb (effective who what) [v] &&
    (leqb (effective who "fastmath") ["afn,arcp,contract,ninf,nsz"] &&
     leqb (effective who "boundscheck") (lookup who "boundscheck")))))%bool.

Lemma chk_all : forallb chk flags = true.
Proof. vm_compute. reflexivity. Qed.

Theorem C19_no_kernel_option_is_overridden :
  forall who what v, In (who, what, v) flags -> is_kernel who = true -> what <> "signature" ->
    effective who what = [v] /\ effective who "fastmath" = ["afn,arcp,contract,ninf,nsz"] /\ effective who "boundscheck" = lookup who "boundscheck".
Proof.
  intros who what v Hin Hk Hs.
  pose proof (proj1 (forallb_forall chk flags) chk_all _ Hin) as H.
  unfold chk in H. rewrite Hk in H. change (negb true) with false in H. rewrite orb_false_l in H.
  destruct (String.eqb what "signature") eqn:E.
  - apply String.eqb_eq in E. contradiction.
  - rewrite orb_false_l in H.
    apply andb_prop in H. destruct H as [H1 H]. apply andb_prop in H. destruct H as [H2 H3].
    split; [|split]; apply leqb_eq; assumption.
Qed.

Example C19_overridden_premises_inhabited :
  In ("_interp._vinterp2d._vinterp2d", "boundscheck", "True") flags /\ is_kernel "_interp._vinterp2d._vinterp2d" = true.
Proof. vm_compute. split; [|reflexivity]. repeat (first [left; reflexivity | right]). Qed.

Print Assumptions C19_fastmath_set_is_the_documented_one.
Print Assumptions C19_default_keys_are_exactly.
Print Assumptions C19_requested_boundscheck_reaches_numba.
Print Assumptions C19_no_kernel_option_is_overridden.
Print Assumptions C19_default_options.
Print Assumptions C19_parallel_kernels.
