(* C19  The compiled build computes what the Python source says.
   The check proper is translation validation (three-way correspondence, see harness/corr.py); what can be stated
   as theorems is about the compilation options, which the translator extracts from the source as data (gen/Flags.v):
   the fast-math set is exactly the one that forbids value-changing rewrites beyond contraction / reciprocal /
   approximate functions (no `nnan`, no `reassoc`, no `fast`), and `parallel=True` is used only on the list kernels. *)
From Coq Require Import String List Bool.
From FT.gen Require Import Flags.
Import ListNotations.
Open Scope string_scope.

Definition lookup (who what : string) : list string :=
  map (fun t => snd t) (filter (fun t => (String.eqb (fst (fst t)) who && String.eqb (snd (fst t)) what)%bool) flags).

Theorem C19_fastmath_set_is_the_documented_one : lookup "default" "fastmath" = ["afn,arcp,contract,ninf,nsz"].
Proof. vm_compute. reflexivity. Qed.

Theorem C19_default_options : lookup "default" "nopython" = ["True"] /\ lookup "default" "nogil" = ["True"] /\ lookup "default" "cache" = ["True"].
Proof. vm_compute. repeat split. Qed.

(* parallel=True appears exactly on the eight list kernels (whose loops the translator checks to be maps) *)
Theorem C19_parallel_kernels :
  map (fun t => fst (fst t)) (filter (fun t => String.eqb (snd (fst t)) "parallel") flags) =
  ["_interp._interp2d._interp2d_vectorized"; "_interp._interp3d._interp3d_vectorized";
   "_interp._vinterp2d._vinterp2d_vectorized"; "_interp._vinterp3d._vinterp3d_vectorized";
   "_fteik._fteik2d.fteik2d_vectorized"; "_fteik._fteik3d.fteik3d_vectorized";
   "_fteik._ray2d._ray2d_vectorized"; "_fteik._ray3d._ray3d_vectorized"].
Proof. vm_compute. reflexivity. Qed.

Print Assumptions C19_fastmath_set_is_the_documented_one.
Print Assumptions C19_default_options.
Print Assumptions C19_parallel_kernels.
