(* C07  More sweeps never increase a time and sweeping converges.
   Only statements and `exact`; the proofs are in proofs/.  Model: gen/Fteik2d.v, gen/Fteik3d.v (regenerated
   from /repo/fteikpy/_fteik/_fteik{2,3}d.py on every run). *)
From Coq Require Import ZArith List Bool PrimFloat.
From FT.lib Require Import Num Arr ArrLemmas Lower.
From FT.gen Require Import Fteik2d Fteik3d.
From FT.proofs Require Import NumFLaws Sweep2dProofs Sweep3dProofs.
Import ListNotations.
Open Scope Z_scope.

(* one full 2D sweep pass keeps the grid well formed and lowers every node or leaves it (le_or_same x y := x = y \/ x < y),
   for every shape and every numeric instance with the two order laws - binary64 with NaN and infinities included *)
Theorem C07_sweep2d_lowers :
  forall (T : Type) (H : Num T), NumLaws T ->
  forall (nz nx : Z) (tt : arr T) (ttsgn : arr Z) (slow : arr T) (dz dx zsi xsi zsa xsa vzero : T) (grad : bool),
  Sweep2dProofs.okT nz nx tt ->
  Sweep2dProofs.okT nz nx (fst (sweep2d tt ttsgn slow dz dx zsi xsi zsa xsa vzero nz nx grad)) /\
  Sweep2dProofs.leT nz nx (fst (sweep2d tt ttsgn slow dz dx zsi xsi zsa xsa vzero nz nx grad)) tt.
Proof. exact @Sweep2dProofs.sweep2d_lowers. Qed.

Theorem C07_sweep3d_lowers :
  forall (T : Type) (H : Num T), NumLaws T ->
  forall (nz nx ny : Z) (tt : arr T) (ttsgn : arr Z) (slow : arr T) (dz dx dy : T) (grad : bool),
  Sweep3dProofs.okT nz nx ny tt ->
  Sweep3dProofs.okT nz nx ny (fst (sweep3d tt ttsgn slow dz dx dy nz nx ny grad)) /\
  Sweep3dProofs.leT nz nx ny (fst (sweep3d tt ttsgn slow dz dx dy nz nx ny grad)) tt.
Proof. exact @Sweep3dProofs.sweep3d_lowers. Qed.

(* the binary64 instance satisfies the order laws, so the two theorems above hold bit for bit for the floats the code runs on *)
Theorem C07_binary64_order_laws : NumLaws float.
Proof. exact NumLawsF. Qed.

Theorem C07_sweep2d_lowers_binary64 :
  forall (nz nx : Z) (tt : arr float) (ttsgn : arr Z) (slow : arr float) (dz dx zsi xsi zsa xsa vzero : float) (grad : bool),
  Sweep2dProofs.okT nz nx tt ->
  Sweep2dProofs.leT nz nx (fst (sweep2d tt ttsgn slow dz dx zsi xsi zsa xsa vzero nz nx grad)) tt.
Proof. intros. apply (@Sweep2dProofs.sweep2d_lowers float NumF NumLawsF); assumption. Qed.

(* strict decrease is well founded on binary64 (no infinite strictly decreasing chain): with the lowering theorems this is
   why sweeping reaches a fixed point after finitely many passes *)
Theorem C07_float_lt_well_founded : well_founded (fun a b : float => PrimFloat.ltb a b = true).
Proof. exact ltb_wf. Qed.

(* non-vacuity: a concrete well-formed 2x2 grid *)
Example C07_okT_inhabited : Sweep2dProofs.okT 2 2 (full [2; 2] 1%float).
Proof. split; [apply wf_full; repeat constructor; discriminate | reflexivity]. Qed.

Print Assumptions C07_sweep2d_lowers.
Print Assumptions C07_sweep3d_lowers.
Print Assumptions C07_binary64_order_laws.
Print Assumptions C07_sweep2d_lowers_binary64.
Print Assumptions C07_float_lt_well_founded.
