(* C07  More sweeps never increase a time and sweeping converges (model: gen/Fteik2d.v, gen/Fteik3d.v)
   Only statements and `exact`: the proofs are in proofs/.  Written by tools/mkprops.py from Coq's own printing of the
   lemma statements; every statement is in full below so that it cannot be weakened without this file changing. *)
From Coq Require Import ZArith List Bool PrimFloat.
From FT.lib Require Import Num Arr ArrLemmas Lower NumArr.
From FT.gen Require Import Common Fteik2d Fteik3d.
From FT.proofs Require Import NumFLaws Sweep2dProofs Sweep3dProofs FloatInstances Solve2dProofs Solve3dProofs.
From FT.model Require Import Api.
From FT.proofs Require ApiGenEq.
Import ListNotations.
Open Scope Z_scope.

(* one full 2D pass keeps the grid well formed and lowers every node or leaves it (le_or_same x y := x = y or x < y): every shape, every numeric instance with the two order laws *)
Theorem C07_sweep2d_lowers :
  forall (T : Type) (H : Num T),
       NumLaws T ->
       forall (nz nx : Z) (tt : arr T) (ttsgn : arr Z) (slow : arr T) (dz dx zsi xsi zsa xsa vzero : T) (grad : bool),
       Sweep2dProofs.okT nz nx tt ->
       Sweep2dProofs.okT nz nx (fst (sweep2d tt ttsgn slow dz dx zsi xsi zsa xsa vzero nz nx grad)) /\
       Sweep2dProofs.leT nz nx (fst (sweep2d tt ttsgn slow dz dx zsi xsi zsa xsa vzero nz nx grad)) tt.
Proof. exact @Sweep2dProofs.sweep2d_lowers. Qed.

(* 3D *)
Theorem C07_sweep3d_lowers :
  forall (T : Type) (H : Num T),
       NumLaws T ->
       forall (nz nx ny : Z) (tt : arr T) (ttsgn : arr Z) (slow : arr T) (dz dx dy : T) (grad : bool),
       okT nz nx ny tt ->
       okT nz nx ny (fst (sweep3d tt ttsgn slow dz dx dy nz nx ny grad)) /\
       leT nz nx ny (fst (sweep3d tt ttsgn slow dz dx dy nz nx ny grad)) tt.
Proof. exact @Sweep3dProofs.sweep3d_lowers. Qed.

(* binary64 (all floats: NaN, infinities, signed zeros) satisfies the order laws, so the above hold bit for bit *)
Theorem C07_binary64_order_laws :
  NumLaws float.
Proof. exact @NumFLaws.NumLawsF. Qed.

(* the instance at binary64, spelled out *)
Theorem C07_sweep2d_lowers_binary64 :
  forall (nz nx : Z) (tt : arr float) (ttsgn : arr Z) (slow : arr float) (dz dx zsi xsi zsa xsa vzero : float)
         (grad : bool),
       Sweep2dProofs.okT nz nx tt ->
       Sweep2dProofs.leT nz nx (fst (sweep2d tt ttsgn slow dz dx zsi xsi zsa xsa vzero nz nx grad)) tt.
Proof. exact @FloatInstances.sweep2d_lowers_binary64. Qed.

(* 3D *)
Theorem C07_sweep3d_lowers_binary64 :
  forall (nz nx ny : Z) (tt : arr float) (ttsgn : arr Z) (slow : arr float) (dz dx dy : float) (grad : bool),
       okT nz nx ny tt -> leT nz nx ny (fst (sweep3d tt ttsgn slow dz dx dy nz nx ny grad)) tt.
Proof. exact @FloatInstances.sweep3d_lowers_binary64. Qed.

(* the solver returns the nsweep-th iterate of one pass function started from an initial state that does not depend on nsweep: nsweep influences the result only as an iteration count *)
Theorem C07_nsweep_is_an_iteration_count_2d :
  forall (T : Type) (H : Num T) (slow : arr T) (dz dx zsrc xsrc : T) (nsweep : Z) (grad : bool),
       inside2d slow dz dx zsrc xsrc = true ->
       exists G : arr T,
         fteik2d slow dz dx zsrc xsrc nsweep grad =
         Ok
           (fst
              (Nat.iter (Z.to_nat nsweep) (pass2d slow dz dx zsrc xsrc grad)
                 (st_tt (init2d slow dz dx zsrc xsrc grad), st_ttsgn (init2d slow dz dx zsrc xsrc grad))), G,
            st_vzero (init2d slow dz dx zsrc xsrc grad)).
Proof. exact @Solve2dProofs.fteik2d_nsweep_iter. Qed.

(* 3D *)
Theorem C07_nsweep_is_an_iteration_count_3d :
  forall (T : Type) (H : Num T) (slow : arr T) (dz dx dy zsrc xsrc ysrc : T) (nsweep : Z) (grad : bool),
       inside3d slow dz dx dy zsrc xsrc ysrc = true ->
       exists G : arr T,
         fteik3d slow dz dx dy zsrc xsrc ysrc nsweep grad =
         Ok
           (fst
              (Nat.iter (Z.to_nat nsweep) (pass3d slow dz dx dy grad)
                 (st3_tt (init3d slow dz dx dy zsrc xsrc ysrc grad),
                  st3_ttsgn (init3d slow dz dx dy zsrc xsrc ysrc grad))), G,
            st3_vzero (init3d slow dz dx dy zsrc xsrc ysrc grad)).
Proof. exact @Solve3dProofs.fteik3d_nsweep_iter. Qed.

(* the traveltime at every node is non-increasing in nsweep (n <= m), bit for bit, for every instance with the order laws *)
Theorem C07_monotone_in_nsweep_2d :
  forall (T : Type) (H : Num T) (slow : arr T) (dz dx zsrc xsrc : T),
       NumLaws T ->
       forall (grad : bool) (n m : Z) (ttn Gn : arr T) (vn : T) (ttm Gm : arr T) (vm : T),
       0 <= dim slow 0 ->
       0 <= dim slow 1 ->
       n <= m ->
       fteik2d slow dz dx zsrc xsrc n grad = Ok (ttn, Gn, vn) ->
       fteik2d slow dz dx zsrc xsrc m grad = Ok (ttm, Gm, vm) ->
       Sweep2dProofs.okT (dim slow 0 + 1) (dim slow 1 + 1) ttn /\
       Sweep2dProofs.okT (dim slow 0 + 1) (dim slow 1 + 1) ttm /\
       Sweep2dProofs.leT (dim slow 0 + 1) (dim slow 1 + 1) ttm ttn.
Proof. exact @Solve2dProofs.fteik2d_monotone_in_nsweep_le. Qed.

(* 3D *)
Theorem C07_monotone_in_nsweep_3d :
  forall (T : Type) (H : Num T) (slow : arr T) (dz dx dy zsrc xsrc ysrc : T),
       NumLaws T ->
       forall (grad : bool) (n m : Z) (ttn Gn : arr T) (vn : T) (ttm Gm : arr T) (vm : T),
       0 <= dim slow 0 ->
       0 <= dim slow 1 ->
       0 <= dim slow 2 ->
       n <= m ->
       fteik3d slow dz dx dy zsrc xsrc ysrc n grad = Ok (ttn, Gn, vn) ->
       fteik3d slow dz dx dy zsrc xsrc ysrc m grad = Ok (ttm, Gm, vm) ->
       okT (dim slow 0 + 1) (dim slow 1 + 1) (dim slow 2 + 1) ttn /\
       okT (dim slow 0 + 1) (dim slow 1 + 1) (dim slow 2 + 1) ttm /\
       leT (dim slow 0 + 1) (dim slow 1 + 1) (dim slow 2 + 1) ttm ttn.
Proof. exact @Solve3dProofs.fteik3d_monotone_in_nsweep_le. Qed.

(* once an extra sweep changes nothing, every larger nsweep returns the same grid *)
Theorem C07_fixed_point_stays_2d :
  forall (T : Type) (H : Num T) (slow : arr T) (dz dx zsrc xsrc : T) (grad : bool) (n m : Z) 
         (ttn Gn : arr T) (vn : T) (ttn' Gn' : arr T) (vn' : T) (ttm Gm : arr T) (vm : T),
       0 <= n <= m ->
       fteik2d slow dz dx zsrc xsrc n grad = Ok (ttn, Gn, vn) ->
       fteik2d slow dz dx zsrc xsrc (n + 1) grad = Ok (ttn', Gn', vn') ->
       ttn' = ttn -> fteik2d slow dz dx zsrc xsrc m grad = Ok (ttm, Gm, vm) -> ttm = ttn.
Proof. exact @Solve2dProofs.fteik2d_fixed_stays. Qed.

(* 3D *)
Theorem C07_fixed_point_stays_3d :
  forall (T : Type) (H : Num T) (slow : arr T) (dz dx dy zsrc xsrc ysrc : T) (grad : bool) 
         (n m : Z) (ttn Gn : arr T) (vn : T) (ttn' Gn' : arr T) (vn' : T) (ttm Gm : arr T) 
         (vm : T),
       0 <= n <= m ->
       fteik3d slow dz dx dy zsrc xsrc ysrc n grad = Ok (ttn, Gn, vn) ->
       fteik3d slow dz dx dy zsrc xsrc ysrc (n + 1) grad = Ok (ttn', Gn', vn') ->
       ttn' = ttn -> fteik3d slow dz dx dy zsrc xsrc ysrc m grad = Ok (ttm, Gm, vm) -> ttm = ttn.
Proof. exact @Solve3dProofs.fteik3d_fixed_stays. Qed.

(* binary64: after finitely many sweeps further sweeps leave the whole grid bit-identical - for every input, no NaN-freeness or domain hypothesis (rank-sum argument on the floats) *)
Theorem C07_converges_binary64_2d :
  forall (slow : arr float) (dz dx zsrc xsrc : float) (grad : bool),
       exists K : nat,
         forall k : nat, (K <= k)%nat -> grid2d slow dz dx zsrc xsrc grad k = grid2d slow dz dx zsrc xsrc grad K.
Proof. exact @Solve2dProofs.fteik2d_converges. Qed.

(* 3D *)
Theorem C07_converges_binary64_3d :
  forall (slow : arr float) (dz dx dy zsrc xsrc ysrc : float) (grad : bool),
       exists K : nat,
         forall k : nat,
         (K <= k)%nat -> grid3d slow dz dx dy zsrc xsrc ysrc grad k = grid3d slow dz dx dy zsrc xsrc ysrc grad K.
Proof. exact @Solve3dProofs.fteik3d_converges. Qed.

(* API layer, extracted from _solver.py on every run (gen/ApiGen.v): the kernel receives (1/grid, spacing, sources - origin as a NEW value, nsweep, flag) - nsweep as given, whatever the other options *)
Theorem C07_solve_hands_nsweep_to_the_kernel_unchanged_2d :
  forall (T : Type) (N : Num T) (grid gridsize origin src : list T) (nsweep : Z) (rg : bool),
       ApiGen.solve_args_2d grid gridsize origin src nsweep rg = (solve_args grid gridsize origin src, nsweep, rg).
Proof. exact @ApiGenEq.gen_solve_args_2d_eq. Qed.

(* 3D *)
Theorem C07_solve_hands_nsweep_to_the_kernel_unchanged_3d :
  forall (T : Type) (N : Num T) (grid gridsize origin src : list T) (nsweep : Z) (rg : bool),
       ApiGen.solve_args_3d grid gridsize origin src nsweep rg = (solve_args grid gridsize origin src, nsweep, rg).
Proof. exact @ApiGenEq.gen_solve_args_3d_eq. Qed.

Example C07_okT_inhabited : Sweep2dProofs.okT 2 2 (full [2; 2] 1%float).
Proof. exact FloatInstances.okT_inhabited. Qed.

Print Assumptions C07_sweep2d_lowers.
Print Assumptions C07_sweep3d_lowers.
Print Assumptions C07_binary64_order_laws.
Print Assumptions C07_sweep2d_lowers_binary64.
Print Assumptions C07_sweep3d_lowers_binary64.
Print Assumptions C07_nsweep_is_an_iteration_count_2d.
Print Assumptions C07_nsweep_is_an_iteration_count_3d.
Print Assumptions C07_monotone_in_nsweep_2d.
Print Assumptions C07_monotone_in_nsweep_3d.
Print Assumptions C07_fixed_point_stays_2d.
Print Assumptions C07_fixed_point_stays_3d.
Print Assumptions C07_converges_binary64_2d.
Print Assumptions C07_converges_binary64_3d.
Print Assumptions C07_solve_hands_nsweep_to_the_kernel_unchanged_2d.
Print Assumptions C07_solve_hands_nsweep_to_the_kernel_unchanged_3d.
