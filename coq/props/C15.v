(* C15  Grid-honouring rays terminate (model: gen/Ray2d.v, gen/Ray3d.v): explicit fuel bound, contract of returned rays
   Only statements and `exact`: the proofs are in proofs/.  Written by tools/mkprops.py from Coq's own printing of the
   lemma statements; every statement is in full below so that it cannot be weakened without this file changing. *)
From Coq Require Import ZArith List Bool Reals PrimFloat.
From FT.lib Require Import Num Arr ArrLemmas NumArr.
From FT.gen Require Import Common Interp2d Interp3d FteikCommon Ray2d Ray3d.
From FT.proofs Require Import NumFLaws Ray2dProofs.
From FT.proofs Require Ray3dProofs RaySafety2d RaySafety3d RaySafetyExtra RayStep RayBudget ApiGenEq.
Import ListNotations.
Open Scope Z_scope.

(* grid-honouring mode: with fuel (max_step+1)*(nfree_max+2)+1 the tracer never runs out of fuel - every iteration either stores a vertex or counts one more step without a grid crossing, and either counter stops the loop (this is what fix 55db45e established; every numeric instance) *)
Theorem C15_terminates_2d :
  forall (T : Type) (H : Num T) (z x zgrad xgrad : arr T) (zend xend zsrc xsrc stepsize : T) 
         (max_step : Z) (hg : bool) (fuel : nat),
       hg = true ->
       ((Z.to_nat max_step + 1) * (Z.to_nat (nfree_max2 z x stepsize) + 2) + 1 <= fuel)%nat ->
       u_ray2d_core_v fuel z x zgrad xgrad zend xend zsrc xsrc stepsize max_step hg <> OutOfFuel.
Proof. exact @Ray2dProofs.ray2d_honor_terminates. Qed.

(* 3D *)
Theorem C15_terminates_3d :
  forall (T : Type) (H : Num T) (z x y zgrad xgrad ygrad : arr T) (zend xend yend zsrc xsrc ysrc stepsize : T)
         (max_step : Z) (hg : bool) (fuel : nat),
       hg = true ->
       ((Z.to_nat max_step + 1) * (Z.to_nat (Ray3dProofs.nfree_max3 z x y stepsize) + 2) + 1 <= fuel)%nat ->
       u_ray3d_core_v fuel z x y zgrad xgrad ygrad zend xend yend zsrc xsrc ysrc stepsize max_step hg <> OutOfFuel.
Proof. exact @Ray3dProofs.ray3d_honor_terminates. Qed.

(* the same bound holds for either mode *)
Theorem C15_terminates_either_mode_2d :
  forall (T : Type) (H : Num T) (z x zgrad xgrad : arr T) (zend xend zsrc xsrc stepsize : T) 
         (max_step : Z) (hg : bool) (fuel : nat),
       ((Z.to_nat max_step + 1) * (Z.to_nat (nfree_max2 z x stepsize) + 2) + 1 <= fuel)%nat ->
       u_ray2d_core_v fuel z x zgrad xgrad zend xend zsrc xsrc stepsize max_step hg <> OutOfFuel.
Proof. exact @Ray2dProofs.ray2d_terminates. Qed.

(* returned count is -1, -2 or within the budget; RuntimeError is reported exactly through -2 *)
Theorem C15_count_range_2d :
  forall (T : Type) (H : Num T) (z x zgrad xgrad : arr T) (zend xend zsrc xsrc stepsize : T) 
         (max_step : Z) (hg : bool) (fuel : nat) (ray : arr T) (count : Z),
       u_ray2d_core_v fuel z x zgrad xgrad zend xend zsrc xsrc stepsize max_step hg = Ok (ray, count) ->
       (count = -1 \/ count = -2 \/ 1 <= count < max_step) /\ shape ray = [max_step; 2].
Proof. exact @Ray2dProofs.ray2d_core_count_range. Qed.

(* a returned ray: row 0 is the end point, row count is the source, buffer well formed *)
Theorem C15_endpoints_2d :
  forall (T : Type) (H : Num T) (z x zgrad xgrad : arr T) (zend xend zsrc xsrc stepsize : T) 
         (max_step : Z) (hg : bool) (fuel : nat) (ray : arr T) (count : Z),
       u_ray2d_core_v fuel z x zgrad xgrad zend xend zsrc xsrc stepsize max_step hg = Ok (ray, count) ->
       1 <= count ->
       shape ray = [max_step; 2] /\
       wf ray /\
       count < max_step /\
       get (nofZ 0) ray [0; 0] = zend /\
       get (nofZ 0) ray [0; 1] = xend /\ get (nofZ 0) ray [count; 0] = zsrc /\ get (nofZ 0) ray [count; 1] = xsrc.
Proof. exact @Ray2dProofs.ray2d_core_endpoints. Qed.

(* 3D *)
Theorem C15_endpoints_3d :
  forall (T : Type) (H : Num T) (z x y zgrad xgrad ygrad : arr T) (zend xend yend zsrc xsrc ysrc stepsize : T)
         (max_step : Z) (hg : bool) (fuel : nat) (ray : arr T) (count : Z),
       u_ray3d_core_v fuel z x y zgrad xgrad ygrad zend xend yend zsrc xsrc ysrc stepsize max_step hg = Ok (ray, count) ->
       1 <= count ->
       shape ray = [max_step; 3] /\
       wf ray /\
       count < max_step /\
       (get (nofZ 0) ray [0; 0] = zend /\ get (nofZ 0) ray [0; 1] = xend /\ get (nofZ 0) ray [0; 2] = yend) /\
       get (nofZ 0) ray [count; 0] = zsrc /\ get (nofZ 0) ray [count; 1] = xsrc /\ get (nofZ 0) ray [count; 2] = ysrc.
Proof. exact @Ray3dProofs.ray3d_core_endpoints. Qed.

(* exact arithmetic: every stored vertex lies inside the hull (clamping, grid magnetism and recomputed cell bounds included) *)
Theorem C15_vertices_in_hull_2d :
  forall (z x zgrad xgrad : arr R) (zend xend zsrc xsrc stepsize : R) (max_step : Z) (hg : bool) 
         (fuel : nat) (ray : arr R) (count : Z),
       (hg = true -> axis_ok z /\ axis_ok x) ->
       u_ray2d_core_v fuel z x zgrad xgrad zend xend zsrc xsrc stepsize max_step hg = Ok (ray, count) ->
       forall k : Z, 0 <= k < count -> row_in z x ray k.
Proof. exact @Ray2dProofs.ray2d_vertices_in_hull. Qed.

(* 3D *)
Theorem C15_vertices_in_hull_3d :
  forall (z x y zgrad xgrad ygrad : arr R) (zend xend yend zsrc xsrc ysrc stepsize : R) 
         (max_step : Z) (hg : bool) (fuel : nat) (ray : arr R) (count : Z),
       (hg = true -> axis_ok z /\ axis_ok x /\ axis_ok y) ->
       u_ray3d_core_v fuel z x y zgrad xgrad ygrad zend xend yend zsrc xsrc ysrc stepsize max_step hg = Ok (ray, count) ->
       forall k : Z, 0 <= k < count -> Ray3dProofs.row_in3 z x y ray k.
Proof. exact @Ray3dProofs.ray3d_vertices_in_hull. Qed.

(* exact arithmetic: the step-shortening factor of a point inside its cell box lies in [0, 1] *)
Theorem C15_shrink_factor_range :
  forall pcur delta lower upper : arr R,
       Forall2 Rle (dat lower) (dat pcur) ->
       Forall2 Rle (dat pcur) (dat upper) -> (0 <= shrink pcur delta lower upper <= 1)%R.
Proof. exact @RaySafety2d.shrink_range. Qed.

(* and is either 1 (the full step stays inside the box) or exactly the fraction that brings one coordinate onto a face of the box *)
Theorem C15_shrink_factor_attained :
  forall pcur delta lower upper : arr R,
       Forall2 Rle (dat lower) (dat pcur) ->
       Forall2 Rle (dat pcur) (dat upper) ->
       let fac := shrink pcur delta lower upper in
       fac = 1%R /\
       aany (amap2 nltb (amap2 nsub pcur delta) lower) = false /\
       aany (amap2 ngtb (amap2 nsub pcur delta) upper) = false \/
       RaySafety2d.at_low (dat pcur) (dat delta) (dat lower) fac \/
       RaySafety2d.at_up (dat pcur) (dat delta) (dat upper) fac.
Proof. exact @RaySafety2d.shrink_attained. Qed.

(* a factor >= 1 is 1 and the full step stays inside the box *)
Theorem C15_shrink_full_step_inside :
  forall pcur delta lower upper : arr R,
       Forall2 Rle (dat lower) (dat pcur) ->
       Forall2 Rle (dat pcur) (dat upper) ->
       (1 <= shrink pcur delta lower upper)%R ->
       shrink pcur delta lower upper = 1%R /\
       (forall k : nat,
        (k < length (dat pcur))%nat ->
        (k < length (dat delta))%nat ->
        (nth k (dat lower) 0 <= nth k (dat pcur) 0 - nth k (dat delta) 0 <= nth k (dat upper) 0)%R).
Proof. exact @RaySafety2d.shrink_ge1_inside. Qed.

(* a shortened step (factor < 1) ends, after both clamps, exactly on a face of the current cell *)
Theorem C15_shortened_step_ends_on_a_face :
  forall (z x : arr R) (nz nx : Z),
       SafetyInterp.axisn z nz ->
       SafetyInterp.axisn x nx ->
       forall (p d l u : arr R) (fac : R) (p0 p1 p2 : arr R),
       vec2 p ->
       vec2 d ->
       vec2 l ->
       vec2 u ->
       (get 0 l [0%Z] <= get 0 p [0%Z] <= get 0 u [0%Z])%R ->
       (get 0 l [1%Z] <= get 0 p [1%Z] <= get 0 u [1%Z])%R ->
       RaySafety2d.in_hull z nz (get 0%R l [0]) ->
       RaySafety2d.in_hull z nz (get 0%R u [0]) ->
       RaySafety2d.in_hull x nx (get 0%R l [1]) ->
       RaySafety2d.in_hull x nx (get 0%R u [1]) ->
       fac = shrink p d l u ->
       (fac < 1)%R ->
       p0 = amap2 nsub p (amap (fun e : R => nmul fac e) d) ->
       p1 = set p0 [0] (pymin2 (pymax2 (get (nofZ 0) p0 [0]) (get (nofZ 0) z [0])) (get (nofZ 0) z [dim z 0 - 1])) ->
       p2 = set p1 [1] (pymin2 (pymax2 (get (nofZ 0) p1 [1]) (get (nofZ 0) x [0])) (get (nofZ 0) x [dim x 0 - 1])) ->
       (0 <= fac)%R /\
       ((get 0%R p2 [0] = get 0%R l [0] \/ get 0%R p2 [0] = get 0%R u [0]) \/
        get 0%R p2 [1] = get 0%R l [1] \/ get 0%R p2 [1] = get 0%R u [1]).
Proof. exact @RaySafety2d.vertex_on_grid_line_2d. Qed.

(* whole ray, grid magnetism included: every interior vertex of a grid-honouring 2D ray has a coordinate that is exactly an axis node *)
Theorem C15_vertices_on_grid_lines_2d :
  forall (z x zgrad xgrad : arr R) (nz nx : Z),
       SafetyInterp.axisn z nz ->
       SafetyInterp.axisn x nx ->
       1 <= nz ->
       1 <= nx ->
       RaySafety2d.axis_hull z nz ->
       RaySafety2d.axis_hull x nx ->
       forall (fuel : nat) (zend xend zsrc xsrc stepsize : R) (max_step : Z) (ray : arr R) (count : Z),
       1 <= max_step ->
       u_ray2d_core_v fuel z x zgrad xgrad zend xend zsrc xsrc stepsize max_step true = Ok (ray, count) ->
       forall k : Z, 1 <= k < count -> RaySafety2d.on_line z x nz nx ray k.
Proof. exact @RaySafety2d.ray2d_vertices_on_grid_lines. Qed.

(* 3D: a shortened step ends, after the three clamps, exactly on a face of the current cell *)
Theorem C15_shortened_step_ends_on_a_face_3d :
  forall (z x y : arr R) (nz nx ny : Z),
       SafetyInterp.axisn z nz ->
       SafetyInterp.axisn x nx ->
       SafetyInterp.axisn y ny ->
       forall (p d l u : arr R) (fac : R) (p0 p1 p2 p3 : arr R),
       Ray3dProofs.vec3 p ->
       Ray3dProofs.vec3 d ->
       Ray3dProofs.vec3 l ->
       Ray3dProofs.vec3 u ->
       (get 0 l [0%Z] <= get 0 p [0%Z] <= get 0 u [0%Z])%R ->
       (get 0 l [1%Z] <= get 0 p [1%Z] <= get 0 u [1%Z])%R ->
       (get 0 l [2%Z] <= get 0 p [2%Z] <= get 0 u [2%Z])%R ->
       RaySafety2d.in_hull z nz (get 0%R l [0]) ->
       RaySafety2d.in_hull z nz (get 0%R u [0]) ->
       RaySafety2d.in_hull x nx (get 0%R l [1]) ->
       RaySafety2d.in_hull x nx (get 0%R u [1]) ->
       RaySafety2d.in_hull y ny (get 0%R l [2]) ->
       RaySafety2d.in_hull y ny (get 0%R u [2]) ->
       fac = shrink p d l u ->
       (fac < 1)%R ->
       p0 = amap2 nsub p (amap (fun e : R => nmul fac e) d) ->
       p1 = set p0 [0] (pymin2 (pymax2 (get (nofZ 0) p0 [0]) (get (nofZ 0) z [0])) (get (nofZ 0) z [dim z 0 - 1])) ->
       p2 = set p1 [1] (pymin2 (pymax2 (get (nofZ 0) p1 [1]) (get (nofZ 0) x [0])) (get (nofZ 0) x [dim x 0 - 1])) ->
       p3 = set p2 [2] (pymin2 (pymax2 (get (nofZ 0) p2 [2]) (get (nofZ 0) y [0])) (get (nofZ 0) y [dim y 0 - 1])) ->
       (0 <= fac)%R /\
       ((get 0%R p3 [0] = get 0%R l [0] \/ get 0%R p3 [0] = get 0%R u [0]) \/
        (get 0%R p3 [1] = get 0%R l [1] \/ get 0%R p3 [1] = get 0%R u [1]) \/
        get 0%R p3 [2] = get 0%R l [2] \/ get 0%R p3 [2] = get 0%R u [2]).
Proof. exact @RaySafetyExtra.vertex_on_grid_plane_3d. Qed.

(* 3D whole ray, magnetism included: every interior vertex has a coordinate that is exactly an axis node (lies on a grid plane) *)
Theorem C15_vertices_on_grid_planes_3d :
  forall (z x y zgrad xgrad ygrad : arr R) (nz nx ny : Z),
       SafetyInterp.axisn z nz ->
       SafetyInterp.axisn x nx ->
       SafetyInterp.axisn y ny ->
       1 <= nz ->
       1 <= nx ->
       1 <= ny ->
       RaySafety2d.axis_hull z nz ->
       RaySafety2d.axis_hull x nx ->
       RaySafety2d.axis_hull y ny ->
       forall (fuel : nat) (zend xend yend zsrc xsrc ysrc stepsize : R) (max_step : Z) (ray : arr R) (count : Z),
       1 <= max_step ->
       u_ray3d_core_v fuel z x y zgrad xgrad ygrad zend xend yend zsrc xsrc ysrc stepsize max_step true =
       Ok (ray, count) -> forall k : Z, 1 <= k < count -> RaySafetyExtra.on_plane z x y nz nx ny ray k.
Proof. exact @RaySafetyExtra.ray3d_vertices_on_grid_planes. Qed.

(* every numeric instance, both modes: if the core run with budget M returns count c >= 1 then every budget M' > c returns the SAME count and the same stored rows - the budget only decides between reporting exhaustion and returning the ray *)
Theorem C15_budget_does_not_change_the_ray_2d :
  forall (T : Type) (H : Num T) (z x zgrad xgrad : arr T) (zend xend zsrc xsrc stepsize : T) 
         (hg : bool) (M M' : Z) (fuel fuel' : nat) (ray : arr T) (c : Z),
       u_ray2d_core_v fuel z x zgrad xgrad zend xend zsrc xsrc stepsize M hg = Ok (ray, c) ->
       1 <= c ->
       c < M' ->
       (fuel <= fuel')%nat \/ RayBudget.enough2 z x stepsize M' fuel' ->
       exists ray' : arr T,
         u_ray2d_core_v fuel' z x zgrad xgrad zend xend zsrc xsrc stepsize M' hg = Ok (ray', c) /\
         shape ray' = [M'; 2] /\
         (forall k j : Z, 0 <= k < Z.min M M' -> 0 <= j < 2 -> get (nofZ 0) ray' [k; j] = get (nofZ 0) ray [k; j]).
Proof. exact @RayBudget.ray2d_budget_independent. Qed.

(* and every budget M'' <= c returns the sentinel -2 (RuntimeError in the wrapper): never a ray cut short and closed with a jump to the source *)
Theorem C15_budget_at_most_count_reports_exhaustion_2d :
  forall (T : Type) (H : Num T) (z x zgrad xgrad : arr T) (zend xend zsrc xsrc stepsize : T) 
         (hg : bool) (M M'' : Z) (fuel fuel'' : nat) (ray : arr T) (c : Z),
       u_ray2d_core_v fuel z x zgrad xgrad zend xend zsrc xsrc stepsize M hg = Ok (ray, c) ->
       1 <= c ->
       M'' <= c ->
       (fuel <= fuel'')%nat \/ RayBudget.enough2 z x stepsize M'' fuel'' ->
       exists ray'' : arr T, u_ray2d_core_v fuel'' z x zgrad xgrad zend xend zsrc xsrc stepsize M'' hg = Ok (ray'', -2).
Proof. exact @RayBudget.ray2d_budget_exhausted. Qed.

(* entry point `ray2d` (single end point): a returned polyline of c+1 rows is returned unchanged for every budget > c, and every budget <= c raises RuntimeError *)
Theorem C15_public_ray_budget_characterisation_2d :
  forall (T : Type) (H : Num T) (z x zgrad xgrad p src : arr T) (stepsize : T) (hg : bool) 
         (M : Z) (fuel : nat) (r : arr T),
       ray2d_1 fuel z x zgrad xgrad p src stepsize M hg = Ok r ->
       exists c : Z,
         1 <= c < M /\
         shape r = [c + 1; 2] /\
         (forall (M' : Z) (fuel' : nat),
          c < M' ->
          (fuel <= fuel')%nat \/ RayBudget.enough2 z x stepsize M' fuel' ->
          ray2d_1 fuel' z x zgrad xgrad p src stepsize M' hg = Ok r) /\
         (forall (M'' : Z) (fuel'' : nat),
          M'' <= c ->
          (fuel <= fuel'')%nat \/ RayBudget.enough2 z x stepsize M'' fuel'' ->
          ray2d_1 fuel'' z x zgrad xgrad p src stepsize M'' hg = Raise RuntimeError).
Proof. exact @RayBudget.ray2d_1_budget. Qed.

(* 3D *)
Theorem C15_budget_does_not_change_the_ray_3d :
  forall (T : Type) (H : Num T) (z x y zgrad xgrad ygrad : arr T) (zend xend yend zsrc xsrc ysrc stepsize : T)
         (hg : bool) (M M' : Z) (fuel fuel' : nat) (ray : arr T) (c : Z),
       u_ray3d_core_v fuel z x y zgrad xgrad ygrad zend xend yend zsrc xsrc ysrc stepsize M hg = Ok (ray, c) ->
       1 <= c ->
       c < M' ->
       (fuel <= fuel')%nat \/ RayBudget.enough3 z x y stepsize M' fuel' ->
       exists ray' : arr T,
         u_ray3d_core_v fuel' z x y zgrad xgrad ygrad zend xend yend zsrc xsrc ysrc stepsize M' hg = Ok (ray', c) /\
         shape ray' = [M'; 3] /\
         (forall k j : Z, 0 <= k < Z.min M M' -> 0 <= j < 3 -> get (nofZ 0) ray' [k; j] = get (nofZ 0) ray [k; j]).
Proof. exact @RayBudget.ray3d_budget_independent. Qed.

(* 3D *)
Theorem C15_budget_at_most_count_reports_exhaustion_3d :
  forall (T : Type) (H : Num T) (z x y zgrad xgrad ygrad : arr T) (zend xend yend zsrc xsrc ysrc stepsize : T)
         (hg : bool) (M M'' : Z) (fuel fuel'' : nat) (ray : arr T) (c : Z),
       u_ray3d_core_v fuel z x y zgrad xgrad ygrad zend xend yend zsrc xsrc ysrc stepsize M hg = Ok (ray, c) ->
       1 <= c ->
       M'' <= c ->
       (fuel <= fuel'')%nat \/ RayBudget.enough3 z x y stepsize M'' fuel'' ->
       exists ray'' : arr T,
         u_ray3d_core_v fuel'' z x y zgrad xgrad ygrad zend xend yend zsrc xsrc ysrc stepsize M'' hg = Ok (ray'', -2).
Proof. exact @RayBudget.ray3d_budget_exhausted. Qed.

(* 3D *)
Theorem C15_public_ray_budget_characterisation_3d :
  forall (T : Type) (H : Num T) (z x y zgrad xgrad ygrad p src : arr T) (stepsize : T) 
         (hg : bool) (M : Z) (fuel : nat) (r : arr T),
       ray3d_1 fuel z x y zgrad xgrad ygrad p src stepsize M hg = Ok r ->
       exists c : Z,
         1 <= c < M /\
         shape r = [c + 1; 3] /\
         (forall (M' : Z) (fuel' : nat),
          c < M' ->
          (fuel <= fuel')%nat \/ RayBudget.enough3 z x y stepsize M' fuel' ->
          ray3d_1 fuel' z x y zgrad xgrad ygrad p src stepsize M' hg = Ok r) /\
         (forall (M'' : Z) (fuel'' : nat),
          M'' <= c ->
          (fuel <= fuel'')%nat \/ RayBudget.enough3 z x y stepsize M'' fuel'' ->
          ray3d_1 fuel'' z x y zgrad xgrad ygrad p src stepsize M'' hg = Raise RuntimeError).
Proof. exact @RayBudget.ray3d_1_budget. Qed.

(* API layer (gen/ApiGen.v from _grid.py): in grid-honouring mode the step is the smallest spacing whatever the caller passes, and the default budget is int(2 * diagonal / step) *)
Theorem C15_raytrace_defaults_2d :
  forall (T : Type) (N : Num T) (nz nx : Z) (dz dx : T) (stepsize : option T) (max_step : option Z) (honor : bool),
       ApiGen.raytrace_defaults_2d nz nx dz dx stepsize max_step honor =
       (Api.ray_stepsize [dz; dx] stepsize honor,
        Api.ray_max_step [nz; nx] [dz; dx] (Api.ray_stepsize [dz; dx] stepsize honor) max_step).
Proof. exact @ApiGenEq.gen_raytrace_defaults_2d_eq. Qed.

(* 3D *)
Theorem C15_raytrace_defaults_3d :
  forall (T : Type) (N : Num T) (nz nx ny : Z) (dz dx dy : T) (stepsize : option T) (max_step : option Z)
         (honor : bool),
       ApiGen.raytrace_defaults_3d nz nx ny dz dx dy stepsize max_step honor =
       (Api.ray_stepsize [dz; dx; dy] stepsize honor,
        Api.ray_max_step [nz; nx; ny] [dz; dx; dy] (Api.ray_stepsize [dz; dx; dy] stepsize honor) max_step).
Proof. exact @ApiGenEq.gen_raytrace_defaults_3d_eq. Qed.

Print Assumptions C15_terminates_2d.
Print Assumptions C15_terminates_3d.
Print Assumptions C15_terminates_either_mode_2d.
Print Assumptions C15_count_range_2d.
Print Assumptions C15_endpoints_2d.
Print Assumptions C15_endpoints_3d.
Print Assumptions C15_vertices_in_hull_2d.
Print Assumptions C15_vertices_in_hull_3d.
Print Assumptions C15_shrink_factor_range.
Print Assumptions C15_shrink_factor_attained.
Print Assumptions C15_shrink_full_step_inside.
Print Assumptions C15_shortened_step_ends_on_a_face.
Print Assumptions C15_vertices_on_grid_lines_2d.
Print Assumptions C15_shortened_step_ends_on_a_face_3d.
Print Assumptions C15_vertices_on_grid_planes_3d.
Print Assumptions C15_budget_does_not_change_the_ray_2d.
Print Assumptions C15_budget_at_most_count_reports_exhaustion_2d.
Print Assumptions C15_public_ray_budget_characterisation_2d.
Print Assumptions C15_budget_does_not_change_the_ray_3d.
Print Assumptions C15_budget_at_most_count_reports_exhaustion_3d.
Print Assumptions C15_public_ray_budget_characterisation_3d.
Print Assumptions C15_raytrace_defaults_2d.
Print Assumptions C15_raytrace_defaults_3d.
