(* C15  Grid-honouring rays terminate (model: gen/Ray2d.v, gen/Ray3d.v): explicit fuel bound, contract of returned rays
   Only statements and `exact`: the proofs are in proofs/.  Written by tools/mkprops.py from Coq's own printing of the
   lemma statements; every statement is in full below so that it cannot be weakened without this file changing. *)
From Coq Require Import ZArith List Bool Reals PrimFloat.
From FT.lib Require Import Num Arr ArrLemmas NumArr.
From FT.gen Require Import Common Interp2d Interp3d FteikCommon Ray2d Ray3d.
From FT.proofs Require Import NumFLaws Ray2dProofs.
From FT.proofs Require Ray3dProofs.
Import ListNotations.
Open Scope Z_scope.

(* grid-honouring mode: with fuel (max_step+1)*(nfree_max+2)+1 the tracer never runs out of fuel - every iteration either stores a vertex or counts one more step without a grid crossing, and either counter stops the loop (this is what fix 55db45e established; every numeric instance) *)
Theorem C15_terminates_2d :
  forall (T : Type) (H : Num T) (z x zgrad xgrad : arr T) (zend xend zsrc xsrc stepsize : T) 
         (max_step : Z) (hg : bool) (fuel : nat),
       hg = true ->
       ((Z.to_nat max_step + 1) * (Z.to_nat (nfree_max2 z x stepsize) + 2) + 1 <= fuel)%nat ->
       u_ray2d_core_v fuel z x zgrad xgrad zend xend zsrc xsrc stepsize max_step hg <> OutOfFuel.
Proof. exact @Ray2dProofs.ray2d_honor_terminates. Qed.

(* 3D *)
Theorem C15_terminates_3d :
  forall (T : Type) (H : Num T) (z x y zgrad xgrad ygrad : arr T) (zend xend yend zsrc xsrc ysrc stepsize : T)
         (max_step : Z) (hg : bool) (fuel : nat),
       hg = true ->
       ((Z.to_nat max_step + 1) * (Z.to_nat (Ray3dProofs.nfree_max3 z x y stepsize) + 2) + 1 <= fuel)%nat ->
       u_ray3d_core_v fuel z x y zgrad xgrad ygrad zend xend yend zsrc xsrc ysrc stepsize max_step hg <> OutOfFuel.
Proof. exact @Ray3dProofs.ray3d_honor_terminates. Qed.

(* the same bound holds for either mode *)
Theorem C15_terminates_either_mode_2d :
  forall (T : Type) (H : Num T) (z x zgrad xgrad : arr T) (zend xend zsrc xsrc stepsize : T) 
         (max_step : Z) (hg : bool) (fuel : nat),
       ((Z.to_nat max_step + 1) * (Z.to_nat (nfree_max2 z x stepsize) + 2) + 1 <= fuel)%nat ->
       u_ray2d_core_v fuel z x zgrad xgrad zend xend zsrc xsrc stepsize max_step hg <> OutOfFuel.
Proof. exact @Ray2dProofs.ray2d_terminates. Qed.

(* returned count is -1, -2 or within the budget; RuntimeError is reported exactly through -2 *)
Theorem C15_count_range_2d :
  forall (T : Type) (H : Num T) (z x zgrad xgrad : arr T) (zend xend zsrc xsrc stepsize : T) 
         (max_step : Z) (hg : bool) (fuel : nat) (ray : arr T) (count : Z),
       u_ray2d_core_v fuel z x zgrad xgrad zend xend zsrc xsrc stepsize max_step hg = Ok (ray, count) ->
       (count = -1 \/ count = -2 \/ 1 <= count < max_step) /\ shape ray = [max_step; 2].
Proof. exact @Ray2dProofs.ray2d_core_count_range. Qed.

(* a returned ray: row 0 is the end point, row count is the source, buffer well formed *)
Theorem C15_endpoints_2d :
  forall (T : Type) (H : Num T) (z x zgrad xgrad : arr T) (zend xend zsrc xsrc stepsize : T) 
         (max_step : Z) (hg : bool) (fuel : nat) (ray : arr T) (count : Z),
       u_ray2d_core_v fuel z x zgrad xgrad zend xend zsrc xsrc stepsize max_step hg = Ok (ray, count) ->
       1 <= count ->
       shape ray = [max_step; 2] /\
       wf ray /\
       count < max_step /\
       get (nofZ 0) ray [0; 0] = zend /\
       get (nofZ 0) ray [0; 1] = xend /\ get (nofZ 0) ray [count; 0] = zsrc /\ get (nofZ 0) ray [count; 1] = xsrc.
Proof. exact @Ray2dProofs.ray2d_core_endpoints. Qed.

(* 3D *)
Theorem C15_endpoints_3d :
  forall (T : Type) (H : Num T) (z x y zgrad xgrad ygrad : arr T) (zend xend yend zsrc xsrc ysrc stepsize : T)
         (max_step : Z) (hg : bool) (fuel : nat) (ray : arr T) (count : Z),
       u_ray3d_core_v fuel z x y zgrad xgrad ygrad zend xend yend zsrc xsrc ysrc stepsize max_step hg = Ok (ray, count) ->
       1 <= count ->
       shape ray = [max_step; 3] /\
       wf ray /\
       count < max_step /\
       (get (nofZ 0) ray [0; 0] = zend /\ get (nofZ 0) ray [0; 1] = xend /\ get (nofZ 0) ray [0; 2] = yend) /\
       get (nofZ 0) ray [count; 0] = zsrc /\ get (nofZ 0) ray [count; 1] = xsrc /\ get (nofZ 0) ray [count; 2] = ysrc.
Proof. exact @Ray3dProofs.ray3d_core_endpoints. Qed.

(* exact arithmetic: every stored vertex lies inside the hull (clamping, grid magnetism and recomputed cell bounds included) *)
Theorem C15_vertices_in_hull_2d :
  forall (z x zgrad xgrad : arr R) (zend xend zsrc xsrc stepsize : R) (max_step : Z) (hg : bool) 
         (fuel : nat) (ray : arr R) (count : Z),
       (hg = true -> axis_ok z /\ axis_ok x) ->
       u_ray2d_core_v fuel z x zgrad xgrad zend xend zsrc xsrc stepsize max_step hg = Ok (ray, count) ->
       forall k : Z, 0 <= k < count -> row_in z x ray k.
Proof. exact @Ray2dProofs.ray2d_vertices_in_hull. Qed.

(* 3D *)
Theorem C15_vertices_in_hull_3d :
  forall (z x y zgrad xgrad ygrad : arr R) (zend xend yend zsrc xsrc ysrc stepsize : R) 
         (max_step : Z) (hg : bool) (fuel : nat) (ray : arr R) (count : Z),
       (hg = true -> axis_ok z /\ axis_ok x /\ axis_ok y) ->
       u_ray3d_core_v fuel z x y zgrad xgrad ygrad zend xend yend zsrc xsrc ysrc stepsize max_step hg = Ok (ray, count) ->
       forall k : Z, 0 <= k < count -> Ray3dProofs.row_in3 z x y ray k.
Proof. exact @Ray3dProofs.ray3d_vertices_in_hull. Qed.

Print Assumptions C15_terminates_2d.
Print Assumptions C15_terminates_3d.
Print Assumptions C15_terminates_either_mode_2d.
Print Assumptions C15_count_range_2d.
Print Assumptions C15_endpoints_2d.
Print Assumptions C15_endpoints_3d.
Print Assumptions C15_vertices_in_hull_2d.
Print Assumptions C15_vertices_in_hull_3d.
