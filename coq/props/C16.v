(* C16  resample and smooth change the sampling, not the physical model (hand model coq/model/GridMeta.v, tied by harness/corr_api.py)
   Only statements and `exact`: the proofs are in proofs/.  Written by tools/mkprops.py from Coq's own printing of the
   lemma statements; every statement is in full below so that it cannot be weakened without this file changing. *)
From Coq Require Import ZArith List Bool Reals Lia Lra.
From FT.lib Require Import Num Arr ArrLemmas Lower NumArr.
From FT.gen Require Import Common Interp2d Interp3d Vinterp2d Vinterp3d FteikCommon Fteik2d Fteik3d Ray2d Ray3d.
From FT.model Require Import GridMeta.
From FT.proofs Require Import GridMetaProofs.
From FT.proofs Require ApiGenEq.
Import ListNotations.
Open Scope R_scope.

(* exact arithmetic: on every axis new_shape * new_spacing = old_shape * old_spacing, i.e. the spacing is rescaled by old/new and the physical extent is unchanged *)
Theorem C16_resample_extent_preserved :
  forall (gs : list R) (old new : list Z),
       Forall (fun c : Z => c <> 0%Z) new ->
       length gs = length old ->
       length old = length new ->
       forall k : nat,
       (k < length new)%nat ->
       IZR (nth k new 0%Z) * nth k (resample_gridsize gs old new) 0 = IZR (nth k old 0%Z) * nth k gs 0.
Proof. exact @GridMetaProofs.resample_gridsize_extent. Qed.

(* the shape becomes the requested one and the origin is unchanged *)
Theorem C16_resample_shape_origin :
  forall (T : Type) (H : Num T) (m : meta T) (new : list Z),
       m_shape (resample_meta m new) = new /\ m_origin (resample_meta m new) = m_origin m.
Proof. exact @GridMetaProofs.resample_meta_shape_origin. Qed.

(* the filter receives sigma / spacing per axis, so rescaling all lengths (sigma and spacing) by c leaves it unchanged *)
Theorem C16_smooth_sigma_in_length_units :
  forall (c : R) (sigma gs : list R),
       c <> 0 ->
       Forall (fun g : R => g <> 0) gs -> smooth_arg (map (Rmult c) sigma) (map (Rmult c) gs) = smooth_arg sigma gs.
Proof. exact @GridMetaProofs.smooth_arg_unit_invariant. Qed.

(* smooth changes neither shape, spacing nor origin *)
Theorem C16_smooth_metadata_unchanged :
  forall (T : Type) (m : meta T), smooth_meta m = m.
Proof. exact @GridMetaProofs.smooth_meta_unchanged. Qed.

(* extracted from _base.py on every run (gen/ApiGen.v): the new spacing computed by BaseGrid2D.resample is the hand model's a * b / c zipped over (spacing, old shape, new shape), with the old shape read BEFORE the grid is replaced (the extractor rejects the pre-fix order), every numeric instance *)
Theorem C16_resample_spacing_from_source_2d :
  forall (T : Type) (N : Num T) (gs : list T) (old new : list Z),
       ApiGen.resample_gridsize_2d gs old new = resample_gridsize gs old new.
Proof. exact @ApiGenEq.gen_resample_gridsize_2d_eq. Qed.

(* 3D *)
Theorem C16_resample_spacing_from_source_3d :
  forall (T : Type) (N : Num T) (gs : list T) (old new : list Z),
       ApiGen.resample_gridsize_3d gs old new = resample_gridsize gs old new.
Proof. exact @ApiGenEq.gen_resample_gridsize_3d_eq. Qed.

(* the argument handed to the Gaussian filter by BaseGrid2D.smooth is sigma / spacing per axis *)
Theorem C16_smooth_filter_argument_from_source_2d :
  forall (T : Type) (N : Num T) (sigma gs : list T), ApiGen.smooth_arg_2d sigma gs = smooth_arg sigma gs.
Proof. exact @ApiGenEq.gen_smooth_arg_2d_eq. Qed.

(* 3D *)
Theorem C16_smooth_filter_argument_from_source_3d :
  forall (T : Type) (N : Num T) (sigma gs : list T), ApiGen.smooth_arg_3d sigma gs = smooth_arg sigma gs.
Proof. exact @ApiGenEq.gen_smooth_arg_3d_eq. Qed.

(* a scalar sigma is broadcast to one value per axis (2) *)
Theorem C16_smooth_scalar_sigma_broadcast_2d :
  forall (T : Type) (N : Num T) (s : T) (gs : list T), ApiGen.smooth_arg_scalar_2d s gs = smooth_arg [s; s] gs.
Proof. exact @ApiGenEq.gen_smooth_arg_scalar_2d_eq. Qed.

(* (3) *)
Theorem C16_smooth_scalar_sigma_broadcast_3d :
  forall (T : Type) (N : Num T) (s : T) (gs : list T), ApiGen.smooth_arg_scalar_3d s gs = smooth_arg [s; s; s] gs.
Proof. exact @ApiGenEq.gen_smooth_arg_scalar_3d_eq. Qed.

(* the statements around them: what resample and smooth assign, in which order *)
Theorem C16_resample_smooth_statement_context :
  ApiGen.resample_2d_zip =
       [(String.String (Ascii.Ascii true false false false false true true false) String.EmptyString,
         String.String (Ascii.Ascii true true false false true true true false)
           (String.String (Ascii.Ascii true false true false false true true false)
              (String.String (Ascii.Ascii false false true true false true true false)
                 (String.String (Ascii.Ascii false true true false false true true false)
                    (String.String (Ascii.Ascii false true true true false true false false)
                       (String.String (Ascii.Ascii true true true false false true true false)
                          (String.String (Ascii.Ascii false true false false true true true false)
                             (String.String (Ascii.Ascii true false false true false true true false)
                                (String.String (Ascii.Ascii false false true false false true true false)
                                   (String.String (Ascii.Ascii true true false false true true true false)
                                      (String.String (Ascii.Ascii true false false true false true true false)
                                         (String.String (Ascii.Ascii false true false true true true true false)
                                            (String.String (Ascii.Ascii true false true false false true true false)
                                               String.EmptyString)))))))))))));
        (String.String (Ascii.Ascii false true false false false true true false) String.EmptyString,
         String.String (Ascii.Ascii true true true true false true true false)
           (String.String (Ascii.Ascii false false true true false true true false)
              (String.String (Ascii.Ascii false false true false false true true false)
                 (String.String (Ascii.Ascii true true true true true false true false)
                    (String.String (Ascii.Ascii true true false false true true true false)
                       (String.String (Ascii.Ascii false false false true false true true false)
                          (String.String (Ascii.Ascii true false false false false true true false)
                             (String.String (Ascii.Ascii false false false false true true true false)
                                (String.String (Ascii.Ascii true false true false false true true false)
                                   String.EmptyString)))))))));
        (String.String (Ascii.Ascii true true false false false true true false) String.EmptyString,
         String.String (Ascii.Ascii false true true true false true true false)
           (String.String (Ascii.Ascii true false true false false true true false)
              (String.String (Ascii.Ascii true true true false true true true false)
                 (String.String (Ascii.Ascii true true true true true false true false)
                    (String.String (Ascii.Ascii true true false false true true true false)
                       (String.String (Ascii.Ascii false false false true false true true false)
                          (String.String (Ascii.Ascii true false false false false true true false)
                             (String.String (Ascii.Ascii false false false false true true true false)
                                (String.String (Ascii.Ascii true false true false false true true false)
                                   String.EmptyString)))))))))] /\
       ApiGen.resample_3d_zip =
       [(String.String (Ascii.Ascii true false false false false true true false) String.EmptyString,
         String.String (Ascii.Ascii true true false false true true true false)
           (String.String (Ascii.Ascii true false true false false true true false)
              (String.String (Ascii.Ascii false false true true false true true false)
                 (String.String (Ascii.Ascii false true true false false true true false)
                    (String.String (Ascii.Ascii false true true true false true false false)
                       (String.String (Ascii.Ascii true true true false false true true false)
                          (String.String (Ascii.Ascii false true false false true true true false)
                             (String.String (Ascii.Ascii true false false true false true true false)
                                (String.String (Ascii.Ascii false false true false false true true false)
                                   (String.String (Ascii.Ascii true true false false true true true false)
                                      (String.String (Ascii.Ascii true false false true false true true false)
                                         (String.String (Ascii.Ascii false true false true true true true false)
                                            (String.String (Ascii.Ascii true false true false false true true false)
                                               String.EmptyString)))))))))))));
        (String.String (Ascii.Ascii false true false false false true true false) String.EmptyString,
         String.String (Ascii.Ascii true true true true false true true false)
           (String.String (Ascii.Ascii false false true true false true true false)
              (String.String (Ascii.Ascii false false true false false true true false)
                 (String.String (Ascii.Ascii true true true true true false true false)
                    (String.String (Ascii.Ascii true true false false true true true false)
                       (String.String (Ascii.Ascii false false false true false true true false)
                          (String.String (Ascii.Ascii true false false false false true true false)
                             (String.String (Ascii.Ascii false false false false true true true false)
                                (String.String (Ascii.Ascii true false true false false true true false)
                                   String.EmptyString)))))))));
        (String.String (Ascii.Ascii true true false false false true true false) String.EmptyString,
         String.String (Ascii.Ascii false true true true false true true false)
           (String.String (Ascii.Ascii true false true false false true true false)
              (String.String (Ascii.Ascii true true true false true true true false)
                 (String.String (Ascii.Ascii true true true true true false true false)
                    (String.String (Ascii.Ascii true true false false true true true false)
                       (String.String (Ascii.Ascii false false false true false true true false)
                          (String.String (Ascii.Ascii true false false false false true true false)
                             (String.String (Ascii.Ascii false false false false true true true false)
                                (String.String (Ascii.Ascii true false true false false true true false)
                                   String.EmptyString)))))))))] /\
       ApiGen.smooth_2d_call =
       (String.String (Ascii.Ascii true true true false false true true false)
          (String.String (Ascii.Ascii true false false false false true true false)
             (String.String (Ascii.Ascii true false true false true true true false)
                (String.String (Ascii.Ascii true true false false true true true false)
                   (String.String (Ascii.Ascii true true false false true true true false)
                      (String.String (Ascii.Ascii true false false true false true true false)
                         (String.String (Ascii.Ascii true false false false false true true false)
                            (String.String (Ascii.Ascii false true true true false true true false)
                               (String.String (Ascii.Ascii true true true true true false true false)
                                  (String.String (Ascii.Ascii false true true false false true true false)
                                     (String.String (Ascii.Ascii true false false true false true true false)
                                        (String.String (Ascii.Ascii false false true true false true true false)
                                           (String.String (Ascii.Ascii false false true false true true true false)
                                              (String.String (Ascii.Ascii true false true false false true true false)
                                                 (String.String
                                                    (Ascii.Ascii false true false false true true true false)
                                                    String.EmptyString)))))))))))))),
        [String.String (Ascii.Ascii true true false false true true true false)
           (String.String (Ascii.Ascii true false true false false true true false)
              (String.String (Ascii.Ascii false false true true false true true false)
                 (String.String (Ascii.Ascii false true true false false true true false)
                    (String.String (Ascii.Ascii false true true true false true false false)
                       (String.String (Ascii.Ascii true true true true true false true false)
                          (String.String (Ascii.Ascii true true true false false true true false)
                             (String.String (Ascii.Ascii false true false false true true true false)
                                (String.String (Ascii.Ascii true false false true false true true false)
                                   (String.String (Ascii.Ascii false false true false false true true false)
                                      String.EmptyString)))))))));
         String.String (Ascii.Ascii true true false false true true true false)
           (String.String (Ascii.Ascii true false false true false true true false)
              (String.String (Ascii.Ascii true true true false false true true false)
                 (String.String (Ascii.Ascii true false true true false true true false)
                    (String.String (Ascii.Ascii true false false false false true true false)
                       (String.String (Ascii.Ascii false false false false false true false false)
                          (String.String (Ascii.Ascii true true true true false true false false)
                             (String.String (Ascii.Ascii false false false false false true false false)
                                (String.String (Ascii.Ascii true true false false true true true false)
                                   (String.String (Ascii.Ascii true false true false false true true false)
                                      (String.String (Ascii.Ascii false false true true false true true false)
                                         (String.String (Ascii.Ascii false true true false false true true false)
                                            (String.String (Ascii.Ascii false true true true false true false false)
                                               (String.String (Ascii.Ascii true true true true true false true false)
                                                  (String.String
                                                     (Ascii.Ascii true true true false false true true false)
                                                     (String.String
                                                        (Ascii.Ascii false true false false true true true false)
                                                        (String.String
                                                           (Ascii.Ascii true false false true false true true false)
                                                           (String.String
                                                              (Ascii.Ascii false false true false false true true false)
                                                              (String.String
                                                                 (Ascii.Ascii true true false false true true true
                                                                    false)
                                                                 (String.String
                                                                    (Ascii.Ascii true false false true false true true
                                                                       false)
                                                                    (String.String
                                                                       (Ascii.Ascii false true false true true true
                                                                          true false)
                                                                       (String.String
                                                                          (Ascii.Ascii true false true false false true
                                                                             true false) String.EmptyString)))))))))))))))))))))]) /\
       ApiGen.smooth_3d_call =
       (String.String (Ascii.Ascii true true true false false true true false)
          (String.String (Ascii.Ascii true false false false false true true false)
             (String.String (Ascii.Ascii true false true false true true true false)
                (String.String (Ascii.Ascii true true false false true true true false)
                   (String.String (Ascii.Ascii true true false false true true true false)
                      (String.String (Ascii.Ascii true false false true false true true false)
                         (String.String (Ascii.Ascii true false false false false true true false)
                            (String.String (Ascii.Ascii false true true true false true true false)
                               (String.String (Ascii.Ascii true true true true true false true false)
                                  (String.String (Ascii.Ascii false true true false false true true false)
                                     (String.String (Ascii.Ascii true false false true false true true false)
                                        (String.String (Ascii.Ascii false false true true false true true false)
                                           (String.String (Ascii.Ascii false false true false true true true false)
                                              (String.String (Ascii.Ascii true false true false false true true false)
                                                 (String.String
                                                    (Ascii.Ascii false true false false true true true false)
                                                    String.EmptyString)))))))))))))),
        [String.String (Ascii.Ascii true true false false true true true false)
           (String.String (Ascii.Ascii true false true false false true true false)
              (String.String (Ascii.Ascii false false true true false true true false)
                 (String.String (Ascii.Ascii false true true false false true true false)
                    (String.String (Ascii.Ascii false true true true false true false false)
                       (String.String (Ascii.Ascii true true true true true false true false)
                          (String.String (Ascii.Ascii true true true false false true true false)
                             (String.String (Ascii.Ascii false true false false true true true false)
                                (String.String (Ascii.Ascii true false false true false true true false)
                                   (String.String (Ascii.Ascii false false true false false true true false)
                                      String.EmptyString)))))))));
         String.String (Ascii.Ascii true true false false true true true false)
           (String.String (Ascii.Ascii true false false true false true true false)
              (String.String (Ascii.Ascii true true true false false true true false)
                 (String.String (Ascii.Ascii true false true true false true true false)
                    (String.String (Ascii.Ascii true false false false false true true false)
                       (String.String (Ascii.Ascii false false false false false true false false)
                          (String.String (Ascii.Ascii true true true true false true false false)
                             (String.String (Ascii.Ascii false false false false false true false false)
                                (String.String (Ascii.Ascii true true false false true true true false)
                                   (String.String (Ascii.Ascii true false true false false true true false)
                                      (String.String (Ascii.Ascii false false true true false true true false)
                                         (String.String (Ascii.Ascii false true true false false true true false)
                                            (String.String (Ascii.Ascii false true true true false true false false)
                                               (String.String (Ascii.Ascii true true true true true false true false)
                                                  (String.String
                                                     (Ascii.Ascii true true true false false true true false)
                                                     (String.String
                                                        (Ascii.Ascii false true false false true true true false)
                                                        (String.String
                                                           (Ascii.Ascii true false false true false true true false)
                                                           (String.String
                                                              (Ascii.Ascii false false true false false true true false)
                                                              (String.String
                                                                 (Ascii.Ascii true true false false true true true
                                                                    false)
                                                                 (String.String
                                                                    (Ascii.Ascii true false false true false true true
                                                                       false)
                                                                    (String.String
                                                                       (Ascii.Ascii false true false true true true
                                                                          true false)
                                                                       (String.String
                                                                          (Ascii.Ascii true false true false false true
                                                                             true false) String.EmptyString)))))))))))))))))))))]).
Proof. exact @ApiGenEq.gen_resample_smooth_context. Qed.

(* non-vacuity and a concrete instance: 3x4 cells with spacing (2,3) resampled to 6x8 gives spacing (1, 3/2) *)
Example C16_resample_example : resample_gridsize (T:=R) [2; 3] [3%Z; 4%Z] [6%Z; 8%Z] = [2 * 3 / 6; 3 * 4 / 8].
Proof. reflexivity. Qed.

Print Assumptions C16_resample_extent_preserved.
Print Assumptions C16_resample_shape_origin.
Print Assumptions C16_smooth_sigma_in_length_units.
Print Assumptions C16_smooth_metadata_unchanged.
Print Assumptions C16_resample_spacing_from_source_2d.
Print Assumptions C16_resample_spacing_from_source_3d.
Print Assumptions C16_smooth_filter_argument_from_source_2d.
Print Assumptions C16_smooth_filter_argument_from_source_3d.
Print Assumptions C16_smooth_scalar_sigma_broadcast_2d.
Print Assumptions C16_smooth_scalar_sigma_broadcast_3d.
Print Assumptions C16_resample_smooth_statement_context.
