(* C08  List (parallel) calls equal single calls: in the generated model every parallel loop is the map of the per-item kernel over the items, in input order (every numeric instance). The runtime (threads, chunks, backend, concurrent callers) is observed by the oracle.
   Only statements and `exact`: the proofs are in proofs/.  Written by tools/mkprops.py from Coq's own printing of the
   lemma statements; every statement is in full below so that it cannot be weakened without this file changing. *)
From Coq Require Import ZArith List Bool.
From FT.lib Require Import Num Arr ArrLemmas NumArr.
From FT.gen Require Import Common Interp2d Interp3d Vinterp2d Vinterp3d Fteik2d Fteik3d.
From FT.proofs Require Import VectorizedProofs.
From FT.proofs Require ApiGenEq.
Import ListNotations.
Open Scope Z_scope.

(* model evaluation at a list of points = map of the single evaluations *)
Theorem C08_interp2d_list_is_map :
  forall (T : Type) (H : Num T) (x y v xq yq : arr T) (fval : T),
       u_interp2d_vectorized_v x y v xq yq fval =
       map (fun i : Z => u_interp2d_v x y v (get (nofZ 0) xq [i]) (get (nofZ 0) yq [i]) fval) (pyrange 0 (dim xq 0) 1).
Proof. exact @VectorizedProofs.interp2d_vectorized_is_map. Qed.

(* 3D *)
Theorem C08_interp3d_list_is_map :
  forall (T : Type) (H : Num T) (x y z v xq yq zq : arr T) (fval : T),
       u_interp3d_vectorized_v x y z v xq yq zq fval =
       map (fun i : Z => u_interp3d_v x y z v (get (nofZ 0) xq [i]) (get (nofZ 0) yq [i]) (get (nofZ 0) zq [i]) fval)
         (pyrange 0 (dim xq 0) 1).
Proof. exact @VectorizedProofs.interp3d_vectorized_is_map. Qed.

(* traveltime evaluation at a list of points *)
Theorem C08_vinterp2d_list_is_map :
  forall (T : Type) (H : Num T) (x y v xq yq : arr T) (xsrc ysrc vzero fval : T),
       u_vinterp2d_vectorized_v x y v xq yq xsrc ysrc vzero fval =
       map (fun i : Z => u_vinterp2d_v x y v (get (nofZ 0) xq [i]) (get (nofZ 0) yq [i]) xsrc ysrc vzero fval)
         (pyrange 0 (dim xq 0) 1).
Proof. exact @VectorizedProofs.vinterp2d_vectorized_is_map. Qed.

(* 3D *)
Theorem C08_vinterp3d_list_is_map :
  forall (T : Type) (H : Num T) (x y z v xq yq zq : arr T) (xsrc ysrc zsrc vzero fval : T),
       u_vinterp3d_vectorized_v x y z v xq yq zq xsrc ysrc zsrc vzero fval =
       map
         (fun i : Z =>
          u_vinterp3d_v x y z v (get (nofZ 0) xq [i]) (get (nofZ 0) yq [i]) (get (nofZ 0) zq [i]) xsrc ysrc zsrc vzero
            fval) (pyrange 0 (dim xq 0) 1).
Proof. exact @VectorizedProofs.vinterp3d_vectorized_is_map. Qed.

(* a 1-D argument takes the scalar path *)
Theorem C08_dispatch_single :
  forall (T : Type) (H : Num T) (x y v q : arr T) (fval : T),
       interp2d_1 x y v q fval = u_interp2d_v x y v (get (nofZ 0) q [0]) (get (nofZ 0) q [1]) fval.
Proof. exact @VectorizedProofs.interp2d_dispatch_single. Qed.

(* a 2-D argument takes the list path on its columns *)
Theorem C08_dispatch_list :
  forall (T : Type) (H : Num T) (x y v q : arr T) (fval : T),
       interp2d_n x y v q fval = u_interp2d_vectorized_v x y v (col (nofZ 0) q 0) (col (nofZ 0) q 1) fval.
Proof. exact @VectorizedProofs.interp2d_dispatch_list. Qed.

(* list solve = validation of every source, then the single solver mapped over the sources in order *)
Theorem C08_solve2d_list_spec :
  forall (T : Type) (H : Num T) (slow : arr T) (dz dx : T) (zsrc xsrc : arr T) (nsweep : Z) (grad : bool),
       fteik2d_vectorized slow dz dx zsrc xsrc nsweep grad =
       match
         find_exc
           (fun i : Z =>
            if negb (src_inside2 slow dz dx (get (nofZ 0) zsrc [i]) (get (nofZ 0) xsrc [i]))
            then Some ValueError
            else None) (pyrange 0 (dim zsrc 0) 1)
       with
       | Some e => Raise e
       | None =>
           mapM (fun i : Z => fteik2d slow dz dx (get (nofZ 0) zsrc [i]) (get (nofZ 0) xsrc [i]) nsweep grad)
             (pyrange 0 (dim zsrc 0) 1)
       end.
Proof. exact @VectorizedProofs.fteik2d_vectorized_spec. Qed.

(* if every single solve returns, the list solve returns exactly their results (traveltimes, gradients, source-cell slowness), in input order *)
Theorem C08_solve2d_list_is_map_of_singles :
  forall (T : Type) (H : Num T) (slow : arr T) (dz dx : T) (zsrc xsrc : arr T) (nsweep : Z) 
         (grad : bool) (r : Z -> arr T * arr T * T),
       (forall i : Z,
        In i (pyrange 0 (dim zsrc 0) 1) ->
        src_inside2 slow dz dx (get (nofZ 0) zsrc [i]) (get (nofZ 0) xsrc [i]) = true /\
        fteik2d slow dz dx (get (nofZ 0) zsrc [i]) (get (nofZ 0) xsrc [i]) nsweep grad = Ok (r i)) ->
       fteik2d_vectorized slow dz dx zsrc xsrc nsweep grad = Ok (map r (pyrange 0 (dim zsrc 0) 1)).
Proof. exact @VectorizedProofs.solve2d_list_is_map_of_singles. Qed.

(* 3D *)
Theorem C08_solve3d_list_is_map_of_singles :
  forall (T : Type) (H : Num T) (slow : arr T) (dz dx dy : T) (zsrc xsrc ysrc : arr T) 
         (nsweep : Z) (grad : bool) (r : Z -> arr T * arr T * T),
       (forall i : Z,
        In i (pyrange 0 (dim zsrc 0) 1) ->
        src_inside3 slow dz dx dy (get (nofZ 0) zsrc [i]) (get (nofZ 0) xsrc [i]) (get (nofZ 0) ysrc [i]) = true /\
        fteik3d slow dz dx dy (get (nofZ 0) zsrc [i]) (get (nofZ 0) xsrc [i]) (get (nofZ 0) ysrc [i]) nsweep grad =
        Ok (r i)) ->
       fteik3d_vectorized slow dz dx dy zsrc xsrc ysrc nsweep grad = Ok (map r (pyrange 0 (dim zsrc 0) 1)).
Proof. exact @VectorizedProofs.solve3d_list_is_map_of_singles. Qed.

(* API layer, extracted from _grid.py on every run: raytrace hands np.asarray(points) to the list kernel as given (no reordering) and returns the kernel's result *)
Theorem C08_raytrace_hands_the_points_to_the_kernel_as_given_2d :
  ApiGen.raytrace_2d_call =
       (String.String (Ascii.Ascii false true false false true true true false)
          (String.String (Ascii.Ascii true false false false false true true false)
             (String.String (Ascii.Ascii true false false true true true true false)
                (String.String (Ascii.Ascii false true false false true true false false)
                   (String.String (Ascii.Ascii false false true false false true true false) String.EmptyString)))),
        [String.String (Ascii.Ascii true true false false true true true false)
           (String.String (Ascii.Ascii true false true false false true true false)
              (String.String (Ascii.Ascii false false true true false true true false)
                 (String.String (Ascii.Ascii false true true false false true true false)
                    (String.String (Ascii.Ascii false true true true false true false false)
                       (String.String (Ascii.Ascii false true false true true true true false)
                          (String.String (Ascii.Ascii true false false false false true true false)
                             (String.String (Ascii.Ascii false false false true true true true false)
                                (String.String (Ascii.Ascii true false false true false true true false)
                                   (String.String (Ascii.Ascii true true false false true true true false)
                                      String.EmptyString)))))))));
         String.String (Ascii.Ascii true true false false true true true false)
           (String.String (Ascii.Ascii true false true false false true true false)
              (String.String (Ascii.Ascii false false true true false true true false)
                 (String.String (Ascii.Ascii false true true false false true true false)
                    (String.String (Ascii.Ascii false true true true false true false false)
                       (String.String (Ascii.Ascii false false false true true true true false)
                          (String.String (Ascii.Ascii true false false false false true true false)
                             (String.String (Ascii.Ascii false false false true true true true false)
                                (String.String (Ascii.Ascii true false false true false true true false)
                                   (String.String (Ascii.Ascii true true false false true true true false)
                                      String.EmptyString)))))))));
         String.String (Ascii.Ascii true true true false false true true false)
           (String.String (Ascii.Ascii false true false false true true true false)
              (String.String (Ascii.Ascii true false false false false true true false)
                 (String.String (Ascii.Ascii false false true false false true true false)
                    (String.String (Ascii.Ascii true false false true false true true false)
                       (String.String (Ascii.Ascii true false true false false true true false)
                          (String.String (Ascii.Ascii false true true true false true true false)
                             (String.String (Ascii.Ascii false false true false true true true false)
                                (String.String (Ascii.Ascii true true false true true false true false)
                                   (String.String (Ascii.Ascii false false false false true true false false)
                                      (String.String (Ascii.Ascii true false true true true false true false)
                                         (String.String (Ascii.Ascii false true true true false true false false)
                                            (String.String (Ascii.Ascii true true true false false true true false)
                                               (String.String (Ascii.Ascii false true false false true true true false)
                                                  (String.String
                                                     (Ascii.Ascii true false false true false true true false)
                                                     (String.String
                                                        (Ascii.Ascii false false true false false true true false)
                                                        String.EmptyString)))))))))))))));
         String.String (Ascii.Ascii true true true false false true true false)
           (String.String (Ascii.Ascii false true false false true true true false)
              (String.String (Ascii.Ascii true false false false false true true false)
                 (String.String (Ascii.Ascii false false true false false true true false)
                    (String.String (Ascii.Ascii true false false true false true true false)
                       (String.String (Ascii.Ascii true false true false false true true false)
                          (String.String (Ascii.Ascii false true true true false true true false)
                             (String.String (Ascii.Ascii false false true false true true true false)
                                (String.String (Ascii.Ascii true true false true true false true false)
                                   (String.String (Ascii.Ascii true false false false true true false false)
                                      (String.String (Ascii.Ascii true false true true true false true false)
                                         (String.String (Ascii.Ascii false true true true false true false false)
                                            (String.String (Ascii.Ascii true true true false false true true false)
                                               (String.String (Ascii.Ascii false true false false true true true false)
                                                  (String.String
                                                     (Ascii.Ascii true false false true false true true false)
                                                     (String.String
                                                        (Ascii.Ascii false false true false false true true false)
                                                        String.EmptyString)))))))))))))));
         String.String (Ascii.Ascii false true true true false true true false)
           (String.String (Ascii.Ascii false false false false true true true false)
              (String.String (Ascii.Ascii false true true true false true false false)
                 (String.String (Ascii.Ascii true false false false false true true false)
                    (String.String (Ascii.Ascii true true false false true true true false)
                       (String.String (Ascii.Ascii true false false false false true true false)
                          (String.String (Ascii.Ascii false true false false true true true false)
                             (String.String (Ascii.Ascii false true false false true true true false)
                                (String.String (Ascii.Ascii true false false false false true true false)
                                   (String.String (Ascii.Ascii true false false true true true true false)
                                      (String.String (Ascii.Ascii false false false true false true false false)
                                         (String.String (Ascii.Ascii false false false false true true true false)
                                            (String.String (Ascii.Ascii true true true true false true true false)
                                               (String.String (Ascii.Ascii true false false true false true true false)
                                                  (String.String
                                                     (Ascii.Ascii false true true true false true true false)
                                                     (String.String
                                                        (Ascii.Ascii false false true false true true true false)
                                                        (String.String
                                                           (Ascii.Ascii true true false false true true true false)
                                                           (String.String
                                                              (Ascii.Ascii false false true true false true false false)
                                                              (String.String
                                                                 (Ascii.Ascii false false false false false true false
                                                                    false)
                                                                 (String.String
                                                                    (Ascii.Ascii false false true false false true true
                                                                       false)
                                                                    (String.String
                                                                       (Ascii.Ascii false false true false true true
                                                                          true false)
                                                                       (String.String
                                                                          (Ascii.Ascii true false false true true true
                                                                             true false)
                                                                          (String.String
                                                                             (Ascii.Ascii false false false false true
                                                                                true true false)
                                                                             (String.String
                                                                                (Ascii.Ascii true false true false
                                                                                   false true true false)
                                                                                (String.String
                                                                                   (Ascii.Ascii true false true true
                                                                                      true true false false)
                                                                                   (String.String
                                                                                      (Ascii.Ascii false true true true
                                                                                         false true true false)
                                                                                      (String.String
                                                                                         (Ascii.Ascii false false false
                                                                                          false true true true false)
                                                                                         (String.String
                                                                                          (Ascii.Ascii false true true
                                                                                          true false true false false)
                                                                                          (String.String
                                                                                          (Ascii.Ascii false true true
                                                                                          false false true true false)
                                                                                          (String.String
                                                                                          (Ascii.Ascii false false true
                                                                                          true false true true false)
                                                                                          (String.String
                                                                                          (Ascii.Ascii true true true
                                                                                          true false true true false)
                                                                                          (String.String
                                                                                          (Ascii.Ascii true false false
                                                                                          false false true true false)
                                                                                          (String.String
                                                                                          (Ascii.Ascii false false true
                                                                                          false true true true false)
                                                                                          (String.String
                                                                                          (Ascii.Ascii false true true
                                                                                          false true true false false)
                                                                                          (String.String
                                                                                          (Ascii.Ascii false false true
                                                                                          false true true false false)
                                                                                          (String.String
                                                                                          (Ascii.Ascii true false false
                                                                                          true false true false false)
                                                                                          String.EmptyString)))))))))))))))))))))))))))))))))));
         String.String (Ascii.Ascii true true false false true true true false)
           (String.String (Ascii.Ascii true false true false false true true false)
              (String.String (Ascii.Ascii false false true true false true true false)
                 (String.String (Ascii.Ascii false true true false false true true false)
                    (String.String (Ascii.Ascii false true true true false true false false)
                       (String.String (Ascii.Ascii true true true true true false true false)
                          (String.String (Ascii.Ascii true true false false true true true false)
                             (String.String (Ascii.Ascii true true true true false true true false)
                                (String.String (Ascii.Ascii true false true false true true true false)
                                   (String.String (Ascii.Ascii false true false false true true true false)
                                      (String.String (Ascii.Ascii true true false false false true true false)
                                         (String.String (Ascii.Ascii true false true false false true true false)
                                            String.EmptyString)))))))))));
         String.String (Ascii.Ascii true true false false true true true false)
           (String.String (Ascii.Ascii false false true false true true true false)
              (String.String (Ascii.Ascii true false true false false true true false)
                 (String.String (Ascii.Ascii false false false false true true true false)
                    (String.String (Ascii.Ascii true true false false true true true false)
                       (String.String (Ascii.Ascii true false false true false true true false)
                          (String.String (Ascii.Ascii false true false true true true true false)
                             (String.String (Ascii.Ascii true false true false false true true false)
                                String.EmptyString)))))));
         String.String (Ascii.Ascii true false true true false true true false)
           (String.String (Ascii.Ascii true false false false false true true false)
              (String.String (Ascii.Ascii false false false true true true true false)
                 (String.String (Ascii.Ascii true true true true true false true false)
                    (String.String (Ascii.Ascii true true false false true true true false)
                       (String.String (Ascii.Ascii false false true false true true true false)
                          (String.String (Ascii.Ascii true false true false false true true false)
                             (String.String (Ascii.Ascii false false false false true true true false)
                                String.EmptyString)))))));
         String.String (Ascii.Ascii false false false true false true true false)
           (String.String (Ascii.Ascii true true true true false true true false)
              (String.String (Ascii.Ascii false true true true false true true false)
                 (String.String (Ascii.Ascii true true true true false true true false)
                    (String.String (Ascii.Ascii false true false false true true true false)
                       (String.String (Ascii.Ascii true true true true true false true false)
                          (String.String (Ascii.Ascii true true true false false true true false)
                             (String.String (Ascii.Ascii false true false false true true true false)
                                (String.String (Ascii.Ascii true false false true false true true false)
                                   (String.String (Ascii.Ascii false false true false false true true false)
                                      String.EmptyString)))))))))]) /\
       ApiGen.raytrace_2d_binding =
       [(String.String (Ascii.Ascii false true false true true true true false) String.EmptyString,
         String.String (Ascii.Ascii true true false false true true true false)
           (String.String (Ascii.Ascii true false true false false true true false)
              (String.String (Ascii.Ascii false false true true false true true false)
                 (String.String (Ascii.Ascii false true true false false true true false)
                    (String.String (Ascii.Ascii false true true true false true false false)
                       (String.String (Ascii.Ascii false true false true true true true false)
                          (String.String (Ascii.Ascii true false false false false true true false)
                             (String.String (Ascii.Ascii false false false true true true true false)
                                (String.String (Ascii.Ascii true false false true false true true false)
                                   (String.String (Ascii.Ascii true true false false true true true false)
                                      String.EmptyString))))))))));
        (String.String (Ascii.Ascii false false false true true true true false) String.EmptyString,
         String.String (Ascii.Ascii true true false false true true true false)
           (String.String (Ascii.Ascii true false true false false true true false)
              (String.String (Ascii.Ascii false false true true false true true false)
                 (String.String (Ascii.Ascii false true true false false true true false)
                    (String.String (Ascii.Ascii false true true true false true false false)
                       (String.String (Ascii.Ascii false false false true true true true false)
                          (String.String (Ascii.Ascii true false false false false true true false)
                             (String.String (Ascii.Ascii false false false true true true true false)
                                (String.String (Ascii.Ascii true false false true false true true false)
                                   (String.String (Ascii.Ascii true true false false true true true false)
                                      String.EmptyString))))))))));
        (String.String (Ascii.Ascii false true false true true true true false)
           (String.String (Ascii.Ascii true true true false false true true false)
              (String.String (Ascii.Ascii false true false false true true true false)
                 (String.String (Ascii.Ascii true false false false false true true false)
                    (String.String (Ascii.Ascii false false true false false true true false) String.EmptyString)))),
         String.String (Ascii.Ascii true true true false false true true false)
           (String.String (Ascii.Ascii false true false false true true true false)
              (String.String (Ascii.Ascii true false false false false true true false)
                 (String.String (Ascii.Ascii false false true false false true true false)
                    (String.String (Ascii.Ascii true false false true false true true false)
                       (String.String (Ascii.Ascii true false true false false true true false)
                          (String.String (Ascii.Ascii false true true true false true true false)
                             (String.String (Ascii.Ascii false false true false true true true false)
                                (String.String (Ascii.Ascii true true false true true false true false)
                                   (String.String (Ascii.Ascii false false false false true true false false)
                                      (String.String (Ascii.Ascii true false true true true false true false)
                                         (String.String (Ascii.Ascii false true true true false true false false)
                                            (String.String (Ascii.Ascii true true true false false true true false)
                                               (String.String (Ascii.Ascii false true false false true true true false)
                                                  (String.String
                                                     (Ascii.Ascii true false false true false true true false)
                                                     (String.String
                                                        (Ascii.Ascii false false true false false true true false)
                                                        String.EmptyString))))))))))))))));
        (String.String (Ascii.Ascii false false false true true true true false)
           (String.String (Ascii.Ascii true true true false false true true false)
              (String.String (Ascii.Ascii false true false false true true true false)
                 (String.String (Ascii.Ascii true false false false false true true false)
                    (String.String (Ascii.Ascii false false true false false true true false) String.EmptyString)))),
         String.String (Ascii.Ascii true true true false false true true false)
           (String.String (Ascii.Ascii false true false false true true true false)
              (String.String (Ascii.Ascii true false false false false true true false)
                 (String.String (Ascii.Ascii false false true false false true true false)
                    (String.String (Ascii.Ascii true false false true false true true false)
                       (String.String (Ascii.Ascii true false true false false true true false)
                          (String.String (Ascii.Ascii false true true true false true true false)
                             (String.String (Ascii.Ascii false false true false true true true false)
                                (String.String (Ascii.Ascii true true false true true false true false)
                                   (String.String (Ascii.Ascii true false false false true true false false)
                                      (String.String (Ascii.Ascii true false true true true false true false)
                                         (String.String (Ascii.Ascii false true true true false true false false)
                                            (String.String (Ascii.Ascii true true true false false true true false)
                                               (String.String (Ascii.Ascii false true false false true true true false)
                                                  (String.String
                                                     (Ascii.Ascii true false false true false true true false)
                                                     (String.String
                                                        (Ascii.Ascii false false true false false true true false)
                                                        String.EmptyString))))))))))))))));
        (String.String (Ascii.Ascii false false false false true true true false) String.EmptyString,
         String.String (Ascii.Ascii false true true true false true true false)
           (String.String (Ascii.Ascii false false false false true true true false)
              (String.String (Ascii.Ascii false true true true false true false false)
                 (String.String (Ascii.Ascii true false false false false true true false)
                    (String.String (Ascii.Ascii true true false false true true true false)
                       (String.String (Ascii.Ascii true false false false false true true false)
                          (String.String (Ascii.Ascii false true false false true true true false)
                             (String.String (Ascii.Ascii false true false false true true true false)
                                (String.String (Ascii.Ascii true false false false false true true false)
                                   (String.String (Ascii.Ascii true false false true true true true false)
                                      (String.String (Ascii.Ascii false false false true false true false false)
                                         (String.String (Ascii.Ascii false false false false true true true false)
                                            (String.String (Ascii.Ascii true true true true false true true false)
                                               (String.String (Ascii.Ascii true false false true false true true false)
                                                  (String.String
                                                     (Ascii.Ascii false true true true false true true false)
                                                     (String.String
                                                        (Ascii.Ascii false false true false true true true false)
                                                        (String.String
                                                           (Ascii.Ascii true true false false true true true false)
                                                           (String.String
                                                              (Ascii.Ascii false false true true false true false false)
                                                              (String.String
                                                                 (Ascii.Ascii false false false false false true false
                                                                    false)
                                                                 (String.String
                                                                    (Ascii.Ascii false false true false false true true
                                                                       false)
                                                                    (String.String
                                                                       (Ascii.Ascii false false true false true true
                                                                          true false)
                                                                       (String.String
                                                                          (Ascii.Ascii true false false true true true
                                                                             true false)
                                                                          (String.String
                                                                             (Ascii.Ascii false false false false true
                                                                                true true false)
                                                                             (String.String
                                                                                (Ascii.Ascii true false true false
                                                                                   false true true false)
                                                                                (String.String
                                                                                   (Ascii.Ascii true false true true
                                                                                      true true false false)
                                                                                   (String.String
                                                                                      (Ascii.Ascii false true true true
                                                                                         false true true false)
                                                                                      (String.String
                                                                                         (Ascii.Ascii false false false
                                                                                          false true true true false)
                                                                                         (String.String
                                                                                          (Ascii.Ascii false true true
                                                                                          true false true false false)
                                                                                          (String.String
                                                                                          (Ascii.Ascii false true true
                                                                                          false false true true false)
                                                                                          (String.String
                                                                                          (Ascii.Ascii false false true
                                                                                          true false true true false)
                                                                                          (String.String
                                                                                          (Ascii.Ascii true true true
                                                                                          true false true true false)
                                                                                          (String.String
                                                                                          (Ascii.Ascii true false false
                                                                                          false false true true false)
                                                                                          (String.String
                                                                                          (Ascii.Ascii false false true
                                                                                          false true true true false)
                                                                                          (String.String
                                                                                          (Ascii.Ascii false true true
                                                                                          false true true false false)
                                                                                          (String.String
                                                                                          (Ascii.Ascii false false true
                                                                                          false true true false false)
                                                                                          (String.String
                                                                                          (Ascii.Ascii true false false
                                                                                          true false true false false)
                                                                                          String.EmptyString))))))))))))))))))))))))))))))))))));
        (String.String (Ascii.Ascii true true false false true true true false)
           (String.String (Ascii.Ascii false true false false true true true false)
              (String.String (Ascii.Ascii true true false false false true true false) String.EmptyString)),
         String.String (Ascii.Ascii true true false false true true true false)
           (String.String (Ascii.Ascii true false true false false true true false)
              (String.String (Ascii.Ascii false false true true false true true false)
                 (String.String (Ascii.Ascii false true true false false true true false)
                    (String.String (Ascii.Ascii false true true true false true false false)
                       (String.String (Ascii.Ascii true true true true true false true false)
                          (String.String (Ascii.Ascii true true false false true true true false)
                             (String.String (Ascii.Ascii true true true true false true true false)
                                (String.String (Ascii.Ascii true false true false true true true false)
                                   (String.String (Ascii.Ascii false true false false true true true false)
                                      (String.String (Ascii.Ascii true true false false false true true false)
                                         (String.String (Ascii.Ascii true false true false false true true false)
                                            String.EmptyString))))))))))));
        (String.String (Ascii.Ascii true true false false true true true false)
           (String.String (Ascii.Ascii false false true false true true true false)
              (String.String (Ascii.Ascii true false true false false true true false)
                 (String.String (Ascii.Ascii false false false false true true true false)
                    (String.String (Ascii.Ascii true true false false true true true false)
                       (String.String (Ascii.Ascii true false false true false true true false)
                          (String.String (Ascii.Ascii false true false true true true true false)
                             (String.String (Ascii.Ascii true false true false false true true false)
                                String.EmptyString))))))),
         String.String (Ascii.Ascii true true false false true true true false)
           (String.String (Ascii.Ascii false false true false true true true false)
              (String.String (Ascii.Ascii true false true false false true true false)
                 (String.String (Ascii.Ascii false false false false true true true false)
                    (String.String (Ascii.Ascii true true false false true true true false)
                       (String.String (Ascii.Ascii true false false true false true true false)
                          (String.String (Ascii.Ascii false true false true true true true false)
                             (String.String (Ascii.Ascii true false true false false true true false)
                                String.EmptyString))))))));
        (String.String (Ascii.Ascii true false true true false true true false)
           (String.String (Ascii.Ascii true false false false false true true false)
              (String.String (Ascii.Ascii false false false true true true true false)
                 (String.String (Ascii.Ascii true true true true true false true false)
                    (String.String (Ascii.Ascii true true false false true true true false)
                       (String.String (Ascii.Ascii false false true false true true true false)
                          (String.String (Ascii.Ascii true false true false false true true false)
                             (String.String (Ascii.Ascii false false false false true true true false)
                                String.EmptyString))))))),
         String.String (Ascii.Ascii true false true true false true true false)
           (String.String (Ascii.Ascii true false false false false true true false)
              (String.String (Ascii.Ascii false false false true true true true false)
                 (String.String (Ascii.Ascii true true true true true false true false)
                    (String.String (Ascii.Ascii true true false false true true true false)
                       (String.String (Ascii.Ascii false false true false true true true false)
                          (String.String (Ascii.Ascii true false true false false true true false)
                             (String.String (Ascii.Ascii false false false false true true true false)
                                String.EmptyString))))))));
        (String.String (Ascii.Ascii false false false true false true true false)
           (String.String (Ascii.Ascii true true true true false true true false)
              (String.String (Ascii.Ascii false true true true false true true false)
                 (String.String (Ascii.Ascii true true true true false true true false)
                    (String.String (Ascii.Ascii false true false false true true true false)
                       (String.String (Ascii.Ascii true true true true true false true false)
                          (String.String (Ascii.Ascii true true true false false true true false)
                             (String.String (Ascii.Ascii false true false false true true true false)
                                (String.String (Ascii.Ascii true false false true false true true false)
                                   (String.String (Ascii.Ascii false false true false false true true false)
                                      String.EmptyString))))))))),
         String.String (Ascii.Ascii false false false true false true true false)
           (String.String (Ascii.Ascii true true true true false true true false)
              (String.String (Ascii.Ascii false true true true false true true false)
                 (String.String (Ascii.Ascii true true true true false true true false)
                    (String.String (Ascii.Ascii false true false false true true true false)
                       (String.String (Ascii.Ascii true true true true true false true false)
                          (String.String (Ascii.Ascii true true true false false true true false)
                             (String.String (Ascii.Ascii false true false false true true true false)
                                (String.String (Ascii.Ascii true false false true false true true false)
                                   (String.String (Ascii.Ascii false false true false false true true false)
                                      String.EmptyString))))))))))] /\
       map fst ApiGen.raytrace_2d_binding = ApiGen.ray2d_params /\
       map snd ApiGen.raytrace_2d_binding = snd ApiGen.raytrace_2d_call.
Proof. exact @ApiGenEq.gen_raytrace_2d_call. Qed.

(* 3D *)
Theorem C08_raytrace_hands_the_points_to_the_kernel_as_given_3d :
  ApiGen.raytrace_3d_call =
       (String.String (Ascii.Ascii false true false false true true true false)
          (String.String (Ascii.Ascii true false false false false true true false)
             (String.String (Ascii.Ascii true false false true true true true false)
                (String.String (Ascii.Ascii true true false false true true false false)
                   (String.String (Ascii.Ascii false false true false false true true false) String.EmptyString)))),
        [String.String (Ascii.Ascii true true false false true true true false)
           (String.String (Ascii.Ascii true false true false false true true false)
              (String.String (Ascii.Ascii false false true true false true true false)
                 (String.String (Ascii.Ascii false true true false false true true false)
                    (String.String (Ascii.Ascii false true true true false true false false)
                       (String.String (Ascii.Ascii false true false true true true true false)
                          (String.String (Ascii.Ascii true false false false false true true false)
                             (String.String (Ascii.Ascii false false false true true true true false)
                                (String.String (Ascii.Ascii true false false true false true true false)
                                   (String.String (Ascii.Ascii true true false false true true true false)
                                      String.EmptyString)))))))));
         String.String (Ascii.Ascii true true false false true true true false)
           (String.String (Ascii.Ascii true false true false false true true false)
              (String.String (Ascii.Ascii false false true true false true true false)
                 (String.String (Ascii.Ascii false true true false false true true false)
                    (String.String (Ascii.Ascii false true true true false true false false)
                       (String.String (Ascii.Ascii false false false true true true true false)
                          (String.String (Ascii.Ascii true false false false false true true false)
                             (String.String (Ascii.Ascii false false false true true true true false)
                                (String.String (Ascii.Ascii true false false true false true true false)
                                   (String.String (Ascii.Ascii true true false false true true true false)
                                      String.EmptyString)))))))));
         String.String (Ascii.Ascii true true false false true true true false)
           (String.String (Ascii.Ascii true false true false false true true false)
              (String.String (Ascii.Ascii false false true true false true true false)
                 (String.String (Ascii.Ascii false true true false false true true false)
                    (String.String (Ascii.Ascii false true true true false true false false)
                       (String.String (Ascii.Ascii true false false true true true true false)
                          (String.String (Ascii.Ascii true false false false false true true false)
                             (String.String (Ascii.Ascii false false false true true true true false)
                                (String.String (Ascii.Ascii true false false true false true true false)
                                   (String.String (Ascii.Ascii true true false false true true true false)
                                      String.EmptyString)))))))));
         String.String (Ascii.Ascii true true true false false true true false)
           (String.String (Ascii.Ascii false true false false true true true false)
              (String.String (Ascii.Ascii true false false false false true true false)
                 (String.String (Ascii.Ascii false false true false false true true false)
                    (String.String (Ascii.Ascii true false false true false true true false)
                       (String.String (Ascii.Ascii true false true false false true true false)
                          (String.String (Ascii.Ascii false true true true false true true false)
                             (String.String (Ascii.Ascii false false true false true true true false)
                                (String.String (Ascii.Ascii true true false true true false true false)
                                   (String.String (Ascii.Ascii false false false false true true false false)
                                      (String.String (Ascii.Ascii true false true true true false true false)
                                         (String.String (Ascii.Ascii false true true true false true false false)
                                            (String.String (Ascii.Ascii true true true false false true true false)
                                               (String.String (Ascii.Ascii false true false false true true true false)
                                                  (String.String
                                                     (Ascii.Ascii true false false true false true true false)
                                                     (String.String
                                                        (Ascii.Ascii false false true false false true true false)
                                                        String.EmptyString)))))))))))))));
         String.String (Ascii.Ascii true true true false false true true false)
           (String.String (Ascii.Ascii false true false false true true true false)
              (String.String (Ascii.Ascii true false false false false true true false)
                 (String.String (Ascii.Ascii false false true false false true true false)
                    (String.String (Ascii.Ascii true false false true false true true false)
                       (String.String (Ascii.Ascii true false true false false true true false)
                          (String.String (Ascii.Ascii false true true true false true true false)
                             (String.String (Ascii.Ascii false false true false true true true false)
                                (String.String (Ascii.Ascii true true false true true false true false)
                                   (String.String (Ascii.Ascii true false false false true true false false)
                                      (String.String (Ascii.Ascii true false true true true false true false)
                                         (String.String (Ascii.Ascii false true true true false true false false)
                                            (String.String (Ascii.Ascii true true true false false true true false)
                                               (String.String (Ascii.Ascii false true false false true true true false)
                                                  (String.String
                                                     (Ascii.Ascii true false false true false true true false)
                                                     (String.String
                                                        (Ascii.Ascii false false true false false true true false)
                                                        String.EmptyString)))))))))))))));
         String.String (Ascii.Ascii true true true false false true true false)
           (String.String (Ascii.Ascii false true false false true true true false)
              (String.String (Ascii.Ascii true false false false false true true false)
                 (String.String (Ascii.Ascii false false true false false true true false)
                    (String.String (Ascii.Ascii true false false true false true true false)
                       (String.String (Ascii.Ascii true false true false false true true false)
                          (String.String (Ascii.Ascii false true true true false true true false)
                             (String.String (Ascii.Ascii false false true false true true true false)
                                (String.String (Ascii.Ascii true true false true true false true false)
                                   (String.String (Ascii.Ascii false true false false true true false false)
                                      (String.String (Ascii.Ascii true false true true true false true false)
                                         (String.String (Ascii.Ascii false true true true false true false false)
                                            (String.String (Ascii.Ascii true true true false false true true false)
                                               (String.String (Ascii.Ascii false true false false true true true false)
                                                  (String.String
                                                     (Ascii.Ascii true false false true false true true false)
                                                     (String.String
                                                        (Ascii.Ascii false false true false false true true false)
                                                        String.EmptyString)))))))))))))));
         String.String (Ascii.Ascii false true true true false true true false)
           (String.String (Ascii.Ascii false false false false true true true false)
              (String.String (Ascii.Ascii false true true true false true false false)
                 (String.String (Ascii.Ascii true false false false false true true false)
                    (String.String (Ascii.Ascii true true false false true true true false)
                       (String.String (Ascii.Ascii true false false false false true true false)
                          (String.String (Ascii.Ascii false true false false true true true false)
                             (String.String (Ascii.Ascii false true false false true true true false)
                                (String.String (Ascii.Ascii true false false false false true true false)
                                   (String.String (Ascii.Ascii true false false true true true true false)
                                      (String.String (Ascii.Ascii false false false true false true false false)
                                         (String.String (Ascii.Ascii false false false false true true true false)
                                            (String.String (Ascii.Ascii true true true true false true true false)
                                               (String.String (Ascii.Ascii true false false true false true true false)
                                                  (String.String
                                                     (Ascii.Ascii false true true true false true true false)
                                                     (String.String
                                                        (Ascii.Ascii false false true false true true true false)
                                                        (String.String
                                                           (Ascii.Ascii true true false false true true true false)
                                                           (String.String
                                                              (Ascii.Ascii false false true true false true false false)
                                                              (String.String
                                                                 (Ascii.Ascii false false false false false true false
                                                                    false)
                                                                 (String.String
                                                                    (Ascii.Ascii false false true false false true true
                                                                       false)
                                                                    (String.String
                                                                       (Ascii.Ascii false false true false true true
                                                                          true false)
                                                                       (String.String
                                                                          (Ascii.Ascii true false false true true true
                                                                             true false)
                                                                          (String.String
                                                                             (Ascii.Ascii false false false false true
                                                                                true true false)
                                                                             (String.String
                                                                                (Ascii.Ascii true false true false
                                                                                   false true true false)
                                                                                (String.String
                                                                                   (Ascii.Ascii true false true true
                                                                                      true true false false)
                                                                                   (String.String
                                                                                      (Ascii.Ascii false true true true
                                                                                         false true true false)
                                                                                      (String.String
                                                                                         (Ascii.Ascii false false false
                                                                                          false true true true false)
                                                                                         (String.String
                                                                                          (Ascii.Ascii false true true
                                                                                          true false true false false)
                                                                                          (String.String
                                                                                          (Ascii.Ascii false true true
                                                                                          false false true true false)
                                                                                          (String.String
                                                                                          (Ascii.Ascii false false true
                                                                                          true false true true false)
                                                                                          (String.String
                                                                                          (Ascii.Ascii true true true
                                                                                          true false true true false)
                                                                                          (String.String
                                                                                          (Ascii.Ascii true false false
                                                                                          false false true true false)
                                                                                          (String.String
                                                                                          (Ascii.Ascii false false true
                                                                                          false true true true false)
                                                                                          (String.String
                                                                                          (Ascii.Ascii false true true
                                                                                          false true true false false)
                                                                                          (String.String
                                                                                          (Ascii.Ascii false false true
                                                                                          false true true false false)
                                                                                          (String.String
                                                                                          (Ascii.Ascii true false false
                                                                                          true false true false false)
                                                                                          String.EmptyString)))))))))))))))))))))))))))))))))));
         String.String (Ascii.Ascii true true false false true true true false)
           (String.String (Ascii.Ascii true false true false false true true false)
              (String.String (Ascii.Ascii false false true true false true true false)
                 (String.String (Ascii.Ascii false true true false false true true false)
                    (String.String (Ascii.Ascii false true true true false true false false)
                       (String.String (Ascii.Ascii true true true true true false true false)
                          (String.String (Ascii.Ascii true true false false true true true false)
                             (String.String (Ascii.Ascii true true true true false true true false)
                                (String.String (Ascii.Ascii true false true false true true true false)
                                   (String.String (Ascii.Ascii false true false false true true true false)
                                      (String.String (Ascii.Ascii true true false false false true true false)
                                         (String.String (Ascii.Ascii true false true false false true true false)
                                            String.EmptyString)))))))))));
         String.String (Ascii.Ascii true true false false true true true false)
           (String.String (Ascii.Ascii false false true false true true true false)
              (String.String (Ascii.Ascii true false true false false true true false)
                 (String.String (Ascii.Ascii false false false false true true true false)
                    (String.String (Ascii.Ascii true true false false true true true false)
                       (String.String (Ascii.Ascii true false false true false true true false)
                          (String.String (Ascii.Ascii false true false true true true true false)
                             (String.String (Ascii.Ascii true false true false false true true false)
                                String.EmptyString)))))));
         String.String (Ascii.Ascii true false true true false true true false)
           (String.String (Ascii.Ascii true false false false false true true false)
              (String.String (Ascii.Ascii false false false true true true true false)
                 (String.String (Ascii.Ascii true true true true true false true false)
                    (String.String (Ascii.Ascii true true false false true true true false)
                       (String.String (Ascii.Ascii false false true false true true true false)
                          (String.String (Ascii.Ascii true false true false false true true false)
                             (String.String (Ascii.Ascii false false false false true true true false)
                                String.EmptyString)))))));
         String.String (Ascii.Ascii false false false true false true true false)
           (String.String (Ascii.Ascii true true true true false true true false)
              (String.String (Ascii.Ascii false true true true false true true false)
                 (String.String (Ascii.Ascii true true true true false true true false)
                    (String.String (Ascii.Ascii false true false false true true true false)
                       (String.String (Ascii.Ascii true true true true true false true false)
                          (String.String (Ascii.Ascii true true true false false true true false)
                             (String.String (Ascii.Ascii false true false false true true true false)
                                (String.String (Ascii.Ascii true false false true false true true false)
                                   (String.String (Ascii.Ascii false false true false false true true false)
                                      String.EmptyString)))))))))]) /\
       ApiGen.raytrace_3d_binding =
       [(String.String (Ascii.Ascii false true false true true true true false) String.EmptyString,
         String.String (Ascii.Ascii true true false false true true true false)
           (String.String (Ascii.Ascii true false true false false true true false)
              (String.String (Ascii.Ascii false false true true false true true false)
                 (String.String (Ascii.Ascii false true true false false true true false)
                    (String.String (Ascii.Ascii false true true true false true false false)
                       (String.String (Ascii.Ascii false true false true true true true false)
                          (String.String (Ascii.Ascii true false false false false true true false)
                             (String.String (Ascii.Ascii false false false true true true true false)
                                (String.String (Ascii.Ascii true false false true false true true false)
                                   (String.String (Ascii.Ascii true true false false true true true false)
                                      String.EmptyString))))))))));
        (String.String (Ascii.Ascii false false false true true true true false) String.EmptyString,
         String.String (Ascii.Ascii true true false false true true true false)
           (String.String (Ascii.Ascii true false true false false true true false)
              (String.String (Ascii.Ascii false false true true false true true false)
                 (String.String (Ascii.Ascii false true true false false true true false)
                    (String.String (Ascii.Ascii false true true true false true false false)
                       (String.String (Ascii.Ascii false false false true true true true false)
                          (String.String (Ascii.Ascii true false false false false true true false)
                             (String.String (Ascii.Ascii false false false true true true true false)
                                (String.String (Ascii.Ascii true false false true false true true false)
                                   (String.String (Ascii.Ascii true true false false true true true false)
                                      String.EmptyString))))))))));
        (String.String (Ascii.Ascii true false false true true true true false) String.EmptyString,
         String.String (Ascii.Ascii true true false false true true true false)
           (String.String (Ascii.Ascii true false true false false true true false)
              (String.String (Ascii.Ascii false false true true false true true false)
                 (String.String (Ascii.Ascii false true true false false true true false)
                    (String.String (Ascii.Ascii false true true true false true false false)
                       (String.String (Ascii.Ascii true false false true true true true false)
                          (String.String (Ascii.Ascii true false false false false true true false)
                             (String.String (Ascii.Ascii false false false true true true true false)
                                (String.String (Ascii.Ascii true false false true false true true false)
                                   (String.String (Ascii.Ascii true true false false true true true false)
                                      String.EmptyString))))))))));
        (String.String (Ascii.Ascii false true false true true true true false)
           (String.String (Ascii.Ascii true true true false false true true false)
              (String.String (Ascii.Ascii false true false false true true true false)
                 (String.String (Ascii.Ascii true false false false false true true false)
                    (String.String (Ascii.Ascii false false true false false true true false) String.EmptyString)))),
         String.String (Ascii.Ascii true true true false false true true false)
           (String.String (Ascii.Ascii false true false false true true true false)
              (String.String (Ascii.Ascii true false false false false true true false)
                 (String.String (Ascii.Ascii false false true false false true true false)
                    (String.String (Ascii.Ascii true false false true false true true false)
                       (String.String (Ascii.Ascii true false true false false true true false)
                          (String.String (Ascii.Ascii false true true true false true true false)
                             (String.String (Ascii.Ascii false false true false true true true false)
                                (String.String (Ascii.Ascii true true false true true false true false)
                                   (String.String (Ascii.Ascii false false false false true true false false)
                                      (String.String (Ascii.Ascii true false true true true false true false)
                                         (String.String (Ascii.Ascii false true true true false true false false)
                                            (String.String (Ascii.Ascii true true true false false true true false)
                                               (String.String (Ascii.Ascii false true false false true true true false)
                                                  (String.String
                                                     (Ascii.Ascii true false false true false true true false)
                                                     (String.String
                                                        (Ascii.Ascii false false true false false true true false)
                                                        String.EmptyString))))))))))))))));
        (String.String (Ascii.Ascii false false false true true true true false)
           (String.String (Ascii.Ascii true true true false false true true false)
              (String.String (Ascii.Ascii false true false false true true true false)
                 (String.String (Ascii.Ascii true false false false false true true false)
                    (String.String (Ascii.Ascii false false true false false true true false) String.EmptyString)))),
         String.String (Ascii.Ascii true true true false false true true false)
           (String.String (Ascii.Ascii false true false false true true true false)
              (String.String (Ascii.Ascii true false false false false true true false)
                 (String.String (Ascii.Ascii false false true false false true true false)
                    (String.String (Ascii.Ascii true false false true false true true false)
                       (String.String (Ascii.Ascii true false true false false true true false)
                          (String.String (Ascii.Ascii false true true true false true true false)
                             (String.String (Ascii.Ascii false false true false true true true false)
                                (String.String (Ascii.Ascii true true false true true false true false)
                                   (String.String (Ascii.Ascii true false false false true true false false)
                                      (String.String (Ascii.Ascii true false true true true false true false)
                                         (String.String (Ascii.Ascii false true true true false true false false)
                                            (String.String (Ascii.Ascii true true true false false true true false)
                                               (String.String (Ascii.Ascii false true false false true true true false)
                                                  (String.String
                                                     (Ascii.Ascii true false false true false true true false)
                                                     (String.String
                                                        (Ascii.Ascii false false true false false true true false)
                                                        String.EmptyString))))))))))))))));
        (String.String (Ascii.Ascii true false false true true true true false)
           (String.String (Ascii.Ascii true true true false false true true false)
              (String.String (Ascii.Ascii false true false false true true true false)
                 (String.String (Ascii.Ascii true false false false false true true false)
                    (String.String (Ascii.Ascii false false true false false true true false) String.EmptyString)))),
         String.String (Ascii.Ascii true true true false false true true false)
           (String.String (Ascii.Ascii false true false false true true true false)
              (String.String (Ascii.Ascii true false false false false true true false)
                 (String.String (Ascii.Ascii false false true false false true true false)
                    (String.String (Ascii.Ascii true false false true false true true false)
                       (String.String (Ascii.Ascii true false true false false true true false)
                          (String.String (Ascii.Ascii false true true true false true true false)
                             (String.String (Ascii.Ascii false false true false true true true false)
                                (String.String (Ascii.Ascii true true false true true false true false)
                                   (String.String (Ascii.Ascii false true false false true true false false)
                                      (String.String (Ascii.Ascii true false true true true false true false)
                                         (String.String (Ascii.Ascii false true true true false true false false)
                                            (String.String (Ascii.Ascii true true true false false true true false)
                                               (String.String (Ascii.Ascii false true false false true true true false)
                                                  (String.String
                                                     (Ascii.Ascii true false false true false true true false)
                                                     (String.String
                                                        (Ascii.Ascii false false true false false true true false)
                                                        String.EmptyString))))))))))))))));
        (String.String (Ascii.Ascii false false false false true true true false) String.EmptyString,
         String.String (Ascii.Ascii false true true true false true true false)
           (String.String (Ascii.Ascii false false false false true true true false)
              (String.String (Ascii.Ascii false true true true false true false false)
                 (String.String (Ascii.Ascii true false false false false true true false)
                    (String.String (Ascii.Ascii true true false false true true true false)
                       (String.String (Ascii.Ascii true false false false false true true false)
                          (String.String (Ascii.Ascii false true false false true true true false)
                             (String.String (Ascii.Ascii false true false false true true true false)
                                (String.String (Ascii.Ascii true false false false false true true false)
                                   (String.String (Ascii.Ascii true false false true true true true false)
                                      (String.String (Ascii.Ascii false false false true false true false false)
                                         (String.String (Ascii.Ascii false false false false true true true false)
                                            (String.String (Ascii.Ascii true true true true false true true false)
                                               (String.String (Ascii.Ascii true false false true false true true false)
                                                  (String.String
                                                     (Ascii.Ascii false true true true false true true false)
                                                     (String.String
                                                        (Ascii.Ascii false false true false true true true false)
                                                        (String.String
                                                           (Ascii.Ascii true true false false true true true false)
                                                           (String.String
                                                              (Ascii.Ascii false false true true false true false false)
                                                              (String.String
                                                                 (Ascii.Ascii false false false false false true false
                                                                    false)
                                                                 (String.String
                                                                    (Ascii.Ascii false false true false false true true
                                                                       false)
                                                                    (String.String
                                                                       (Ascii.Ascii false false true false true true
                                                                          true false)
                                                                       (String.String
                                                                          (Ascii.Ascii true false false true true true
                                                                             true false)
                                                                          (String.String
                                                                             (Ascii.Ascii false false false false true
                                                                                true true false)
                                                                             (String.String
                                                                                (Ascii.Ascii true false true false
                                                                                   false true true false)
                                                                                (String.String
                                                                                   (Ascii.Ascii true false true true
                                                                                      true true false false)
                                                                                   (String.String
                                                                                      (Ascii.Ascii false true true true
                                                                                         false true true false)
                                                                                      (String.String
                                                                                         (Ascii.Ascii false false false
                                                                                          false true true true false)
                                                                                         (String.String
                                                                                          (Ascii.Ascii false true true
                                                                                          true false true false false)
                                                                                          (String.String
                                                                                          (Ascii.Ascii false true true
                                                                                          false false true true false)
                                                                                          (String.String
                                                                                          (Ascii.Ascii false false true
                                                                                          true false true true false)
                                                                                          (String.String
                                                                                          (Ascii.Ascii true true true
                                                                                          true false true true false)
                                                                                          (String.String
                                                                                          (Ascii.Ascii true false false
                                                                                          false false true true false)
                                                                                          (String.String
                                                                                          (Ascii.Ascii false false true
                                                                                          false true true true false)
                                                                                          (String.String
                                                                                          (Ascii.Ascii false true true
                                                                                          false true true false false)
                                                                                          (String.String
                                                                                          (Ascii.Ascii false false true
                                                                                          false true true false false)
                                                                                          (String.String
                                                                                          (Ascii.Ascii true false false
                                                                                          true false true false false)
                                                                                          String.EmptyString))))))))))))))))))))))))))))))))))));
        (String.String (Ascii.Ascii true true false false true true true false)
           (String.String (Ascii.Ascii false true false false true true true false)
              (String.String (Ascii.Ascii true true false false false true true false) String.EmptyString)),
         String.String (Ascii.Ascii true true false false true true true false)
           (String.String (Ascii.Ascii true false true false false true true false)
              (String.String (Ascii.Ascii false false true true false true true false)
                 (String.String (Ascii.Ascii false true true false false true true false)
                    (String.String (Ascii.Ascii false true true true false true false false)
                       (String.String (Ascii.Ascii true true true true true false true false)
                          (String.String (Ascii.Ascii true true false false true true true false)
                             (String.String (Ascii.Ascii true true true true false true true false)
                                (String.String (Ascii.Ascii true false true false true true true false)
                                   (String.String (Ascii.Ascii false true false false true true true false)
                                      (String.String (Ascii.Ascii true true false false false true true false)
                                         (String.String (Ascii.Ascii true false true false false true true false)
                                            String.EmptyString))))))))))));
        (String.String (Ascii.Ascii true true false false true true true false)
           (String.String (Ascii.Ascii false false true false true true true false)
              (String.String (Ascii.Ascii true false true false false true true false)
                 (String.String (Ascii.Ascii false false false false true true true false)
                    (String.String (Ascii.Ascii true true false false true true true false)
                       (String.String (Ascii.Ascii true false false true false true true false)
                          (String.String (Ascii.Ascii false true false true true true true false)
                             (String.String (Ascii.Ascii true false true false false true true false)
                                String.EmptyString))))))),
         String.String (Ascii.Ascii true true false false true true true false)
           (String.String (Ascii.Ascii false false true false true true true false)
              (String.String (Ascii.Ascii true false true false false true true false)
                 (String.String (Ascii.Ascii false false false false true true true false)
                    (String.String (Ascii.Ascii true true false false true true true false)
                       (String.String (Ascii.Ascii true false false true false true true false)
                          (String.String (Ascii.Ascii false true false true true true true false)
                             (String.String (Ascii.Ascii true false true false false true true false)
                                String.EmptyString))))))));
        (String.String (Ascii.Ascii true false true true false true true false)
           (String.String (Ascii.Ascii true false false false false true true false)
              (String.String (Ascii.Ascii false false false true true true true false)
                 (String.String (Ascii.Ascii true true true true true false true false)
                    (String.String (Ascii.Ascii true true false false true true true false)
                       (String.String (Ascii.Ascii false false true false true true true false)
                          (String.String (Ascii.Ascii true false true false false true true false)
                             (String.String (Ascii.Ascii false false false false true true true false)
                                String.EmptyString))))))),
         String.String (Ascii.Ascii true false true true false true true false)
           (String.String (Ascii.Ascii true false false false false true true false)
              (String.String (Ascii.Ascii false false false true true true true false)
                 (String.String (Ascii.Ascii true true true true true false true false)
                    (String.String (Ascii.Ascii true true false false true true true false)
                       (String.String (Ascii.Ascii false false true false true true true false)
                          (String.String (Ascii.Ascii true false true false false true true false)
                             (String.String (Ascii.Ascii false false false false true true true false)
                                String.EmptyString))))))));
        (String.String (Ascii.Ascii false false false true false true true false)
           (String.String (Ascii.Ascii true true true true false true true false)
              (String.String (Ascii.Ascii false true true true false true true false)
                 (String.String (Ascii.Ascii true true true true false true true false)
                    (String.String (Ascii.Ascii false true false false true true true false)
                       (String.String (Ascii.Ascii true true true true true false true false)
                          (String.String (Ascii.Ascii true true true false false true true false)
                             (String.String (Ascii.Ascii false true false false true true true false)
                                (String.String (Ascii.Ascii true false false true false true true false)
                                   (String.String (Ascii.Ascii false false true false false true true false)
                                      String.EmptyString))))))))),
         String.String (Ascii.Ascii false false false true false true true false)
           (String.String (Ascii.Ascii true true true true false true true false)
              (String.String (Ascii.Ascii false true true true false true true false)
                 (String.String (Ascii.Ascii true true true true false true true false)
                    (String.String (Ascii.Ascii false true false false true true true false)
                       (String.String (Ascii.Ascii true true true true true false true false)
                          (String.String (Ascii.Ascii true true true false false true true false)
                             (String.String (Ascii.Ascii false true false false true true true false)
                                (String.String (Ascii.Ascii true false false true false true true false)
                                   (String.String (Ascii.Ascii false false true false false true true false)
                                      String.EmptyString))))))))))] /\
       map fst ApiGen.raytrace_3d_binding = ApiGen.ray3d_params /\
       map snd ApiGen.raytrace_3d_binding = snd ApiGen.raytrace_3d_call.
Proof. exact @ApiGenEq.gen_raytrace_3d_call. Qed.

(* traveltime evaluation *)
Theorem C08_point_evaluation_hands_the_points_as_given_2d :
  ApiGen.ttcall_2d_binding =
       [(String.String (Ascii.Ascii false false false true true true true false) String.EmptyString,
         String.String (Ascii.Ascii true true false false true true true false)
           (String.String (Ascii.Ascii true false true false false true true false)
              (String.String (Ascii.Ascii false false true true false true true false)
                 (String.String (Ascii.Ascii false true true false false true true false)
                    (String.String (Ascii.Ascii false true true true false true false false)
                       (String.String (Ascii.Ascii false true false true true true true false)
                          (String.String (Ascii.Ascii true false false false false true true false)
                             (String.String (Ascii.Ascii false false false true true true true false)
                                (String.String (Ascii.Ascii true false false true false true true false)
                                   (String.String (Ascii.Ascii true true false false true true true false)
                                      String.EmptyString))))))))));
        (String.String (Ascii.Ascii true false false true true true true false) String.EmptyString,
         String.String (Ascii.Ascii true true false false true true true false)
           (String.String (Ascii.Ascii true false true false false true true false)
              (String.String (Ascii.Ascii false false true true false true true false)
                 (String.String (Ascii.Ascii false true true false false true true false)
                    (String.String (Ascii.Ascii false true true true false true false false)
                       (String.String (Ascii.Ascii false false false true true true true false)
                          (String.String (Ascii.Ascii true false false false false true true false)
                             (String.String (Ascii.Ascii false false false true true true true false)
                                (String.String (Ascii.Ascii true false false true false true true false)
                                   (String.String (Ascii.Ascii true true false false true true true false)
                                      String.EmptyString))))))))));
        (String.String (Ascii.Ascii false true true false true true true false) String.EmptyString,
         String.String (Ascii.Ascii true true false false true true true false)
           (String.String (Ascii.Ascii true false true false false true true false)
              (String.String (Ascii.Ascii false false true true false true true false)
                 (String.String (Ascii.Ascii false true true false false true true false)
                    (String.String (Ascii.Ascii false true true true false true false false)
                       (String.String (Ascii.Ascii true true true true true false true false)
                          (String.String (Ascii.Ascii true true true false false true true false)
                             (String.String (Ascii.Ascii false true false false true true true false)
                                (String.String (Ascii.Ascii true false false true false true true false)
                                   (String.String (Ascii.Ascii false false true false false true true false)
                                      String.EmptyString))))))))));
        (String.String (Ascii.Ascii true false false false true true true false) String.EmptyString,
         String.String (Ascii.Ascii false true true true false true true false)
           (String.String (Ascii.Ascii false false false false true true true false)
              (String.String (Ascii.Ascii false true true true false true false false)
                 (String.String (Ascii.Ascii true false false false false true true false)
                    (String.String (Ascii.Ascii true true false false true true true false)
                       (String.String (Ascii.Ascii true false false false false true true false)
                          (String.String (Ascii.Ascii false true false false true true true false)
                             (String.String (Ascii.Ascii false true false false true true true false)
                                (String.String (Ascii.Ascii true false false false false true true false)
                                   (String.String (Ascii.Ascii true false false true true true true false)
                                      (String.String (Ascii.Ascii false false false true false true false false)
                                         (String.String (Ascii.Ascii false false false false true true true false)
                                            (String.String (Ascii.Ascii true true true true false true true false)
                                               (String.String (Ascii.Ascii true false false true false true true false)
                                                  (String.String
                                                     (Ascii.Ascii false true true true false true true false)
                                                     (String.String
                                                        (Ascii.Ascii false false true false true true true false)
                                                        (String.String
                                                           (Ascii.Ascii true true false false true true true false)
                                                           (String.String
                                                              (Ascii.Ascii false false true true false true false false)
                                                              (String.String
                                                                 (Ascii.Ascii false false false false false true false
                                                                    false)
                                                                 (String.String
                                                                    (Ascii.Ascii false false true false false true true
                                                                       false)
                                                                    (String.String
                                                                       (Ascii.Ascii false false true false true true
                                                                          true false)
                                                                       (String.String
                                                                          (Ascii.Ascii true false false true true true
                                                                             true false)
                                                                          (String.String
                                                                             (Ascii.Ascii false false false false true
                                                                                true true false)
                                                                             (String.String
                                                                                (Ascii.Ascii true false true false
                                                                                   false true true false)
                                                                                (String.String
                                                                                   (Ascii.Ascii true false true true
                                                                                      true true false false)
                                                                                   (String.String
                                                                                      (Ascii.Ascii false true true true
                                                                                         false true true false)
                                                                                      (String.String
                                                                                         (Ascii.Ascii false false false
                                                                                          false true true true false)
                                                                                         (String.String
                                                                                          (Ascii.Ascii false true true
                                                                                          true false true false false)
                                                                                          (String.String
                                                                                          (Ascii.Ascii false true true
                                                                                          false false true true false)
                                                                                          (String.String
                                                                                          (Ascii.Ascii false false true
                                                                                          true false true true false)
                                                                                          (String.String
                                                                                          (Ascii.Ascii true true true
                                                                                          true false true true false)
                                                                                          (String.String
                                                                                          (Ascii.Ascii true false false
                                                                                          false false true true false)
                                                                                          (String.String
                                                                                          (Ascii.Ascii false false true
                                                                                          false true true true false)
                                                                                          (String.String
                                                                                          (Ascii.Ascii false true true
                                                                                          false true true false false)
                                                                                          (String.String
                                                                                          (Ascii.Ascii false false true
                                                                                          false true true false false)
                                                                                          (String.String
                                                                                          (Ascii.Ascii true false false
                                                                                          true false true false false)
                                                                                          String.EmptyString))))))))))))))))))))))))))))))))))));
        (String.String (Ascii.Ascii true true false false true true true false)
           (String.String (Ascii.Ascii false true false false true true true false)
              (String.String (Ascii.Ascii true true false false false true true false) String.EmptyString)),
         String.String (Ascii.Ascii true true false false true true true false)
           (String.String (Ascii.Ascii true false true false false true true false)
              (String.String (Ascii.Ascii false false true true false true true false)
                 (String.String (Ascii.Ascii false true true false false true true false)
                    (String.String (Ascii.Ascii false true true true false true false false)
                       (String.String (Ascii.Ascii true true true true true false true false)
                          (String.String (Ascii.Ascii true true false false true true true false)
                             (String.String (Ascii.Ascii true true true true false true true false)
                                (String.String (Ascii.Ascii true false true false true true true false)
                                   (String.String (Ascii.Ascii false true false false true true true false)
                                      (String.String (Ascii.Ascii true true false false false true true false)
                                         (String.String (Ascii.Ascii true false true false false true true false)
                                            String.EmptyString))))))))))));
        (String.String (Ascii.Ascii false true true false true true true false)
           (String.String (Ascii.Ascii false true false true true true true false)
              (String.String (Ascii.Ascii true false true false false true true false)
                 (String.String (Ascii.Ascii false true false false true true true false)
                    (String.String (Ascii.Ascii true true true true false true true false) String.EmptyString)))),
         String.String (Ascii.Ascii true true false false true true true false)
           (String.String (Ascii.Ascii true false true false false true true false)
              (String.String (Ascii.Ascii false false true true false true true false)
                 (String.String (Ascii.Ascii false true true false false true true false)
                    (String.String (Ascii.Ascii false true true true false true false false)
                       (String.String (Ascii.Ascii true true true true true false true false)
                          (String.String (Ascii.Ascii false true true false true true true false)
                             (String.String (Ascii.Ascii false true false true true true true false)
                                (String.String (Ascii.Ascii true false true false false true true false)
                                   (String.String (Ascii.Ascii false true false false true true true false)
                                      (String.String (Ascii.Ascii true true true true false true true false)
                                         String.EmptyString)))))))))));
        (String.String (Ascii.Ascii false true true false false true true false)
           (String.String (Ascii.Ascii false true true false true true true false)
              (String.String (Ascii.Ascii true false false false false true true false)
                 (String.String (Ascii.Ascii false false true true false true true false) String.EmptyString))),
         String.String (Ascii.Ascii false true true false false true true false)
           (String.String (Ascii.Ascii true false false true false true true false)
              (String.String (Ascii.Ascii false false true true false true true false)
                 (String.String (Ascii.Ascii false false true true false true true false)
                    (String.String (Ascii.Ascii true true true true true false true false)
                       (String.String (Ascii.Ascii false true true false true true true false)
                          (String.String (Ascii.Ascii true false false false false true true false)
                             (String.String (Ascii.Ascii false false true true false true true false)
                                (String.String (Ascii.Ascii true false true false true true true false)
                                   (String.String (Ascii.Ascii true false true false false true true false)
                                      String.EmptyString))))))))))] /\
       fst ApiGen.ttcall_2d_call =
       String.String (Ascii.Ascii false true true false true true true false)
         (String.String (Ascii.Ascii true false false true false true true false)
            (String.String (Ascii.Ascii false true true true false true true false)
               (String.String (Ascii.Ascii false false true false true true true false)
                  (String.String (Ascii.Ascii true false true false false true true false)
                     (String.String (Ascii.Ascii false true false false true true true false)
                        (String.String (Ascii.Ascii false false false false true true true false)
                           (String.String (Ascii.Ascii false true false false true true false false)
                              (String.String (Ascii.Ascii false false true false false true true false)
                                 String.EmptyString)))))))) /\
       map fst ApiGen.ttcall_2d_binding = ApiGen.vinterp2d_params /\
       map snd ApiGen.ttcall_2d_binding = snd ApiGen.ttcall_2d_call /\
       ApiGen.ttcall_2d_params =
       [String.String (Ascii.Ascii false false false false true true true false)
          (String.String (Ascii.Ascii true true true true false true true false)
             (String.String (Ascii.Ascii true false false true false true true false)
                (String.String (Ascii.Ascii false true true true false true true false)
                   (String.String (Ascii.Ascii false false true false true true true false)
                      (String.String (Ascii.Ascii true true false false true true true false) String.EmptyString)))));
        String.String (Ascii.Ascii false true true false false true true false)
          (String.String (Ascii.Ascii true false false true false true true false)
             (String.String (Ascii.Ascii false false true true false true true false)
                (String.String (Ascii.Ascii false false true true false true true false)
                   (String.String (Ascii.Ascii true true true true true false true false)
                      (String.String (Ascii.Ascii false true true false true true true false)
                         (String.String (Ascii.Ascii true false false false false true true false)
                            (String.String (Ascii.Ascii false false true true false true true false)
                               (String.String (Ascii.Ascii true false true false true true true false)
                                  (String.String (Ascii.Ascii true false true false false true true false)
                                     (String.String (Ascii.Ascii true false true true true true false false)
                                        (String.String (Ascii.Ascii false true true true false true true false)
                                           (String.String (Ascii.Ascii false false false false true true true false)
                                              (String.String (Ascii.Ascii false true true true false true false false)
                                                 (String.String
                                                    (Ascii.Ascii false true true true false true true false)
                                                    (String.String
                                                       (Ascii.Ascii true false false false false true true false)
                                                       (String.String
                                                          (Ascii.Ascii false true true true false true true false)
                                                          String.EmptyString))))))))))))))))] /\
       ApiGen.vinterp2d_defaults =
       [(String.String (Ascii.Ascii false true true false false true true false)
           (String.String (Ascii.Ascii false true true false true true true false)
              (String.String (Ascii.Ascii true false false false false true true false)
                 (String.String (Ascii.Ascii false false true true false true true false) String.EmptyString))),
         String.String (Ascii.Ascii false true true true false true true false)
           (String.String (Ascii.Ascii false false false false true true true false)
              (String.String (Ascii.Ascii false true true true false true false false)
                 (String.String (Ascii.Ascii false true true true false true true false)
                    (String.String (Ascii.Ascii true false false false false true true false)
                       (String.String (Ascii.Ascii false true true true false true true false) String.EmptyString))))))].
Proof. exact @ApiGenEq.gen_ttcall_2d_wiring. Qed.

(* the two thread helpers only forward to Numba *)
Theorem C08_thread_helpers_only_forward_to_numba :
  ApiGen.helpers_imports =
       [(String.String (Ascii.Ascii true false false true false true true false)
           (String.String (Ascii.Ascii true false true true false true true false)
              (String.String (Ascii.Ascii false false false false true true true false)
                 (String.String (Ascii.Ascii true true true true false true true false)
                    (String.String (Ascii.Ascii false true false false true true true false)
                       (String.String (Ascii.Ascii false false true false true true true false) String.EmptyString))))),
         [String.String (Ascii.Ascii false true true true false true true false)
            (String.String (Ascii.Ascii true false true false true true true false)
               (String.String (Ascii.Ascii true false true true false true true false)
                  (String.String (Ascii.Ascii false true false false false true true false)
                     (String.String (Ascii.Ascii true false false false false true true false) String.EmptyString))))])] /\
       ApiGen.helpers_funcs =
       [(String.String (Ascii.Ascii true true true false false true true false)
           (String.String (Ascii.Ascii true false true false false true true false)
              (String.String (Ascii.Ascii false false true false true true true false)
                 (String.String (Ascii.Ascii true true true true true false true false)
                    (String.String (Ascii.Ascii false true true true false true true false)
                       (String.String (Ascii.Ascii true false true false true true true false)
                          (String.String (Ascii.Ascii true false true true false true true false)
                             (String.String (Ascii.Ascii true true true true true false true false)
                                (String.String (Ascii.Ascii false false true false true true true false)
                                   (String.String (Ascii.Ascii false false false true false true true false)
                                      (String.String (Ascii.Ascii false true false false true true true false)
                                         (String.String (Ascii.Ascii true false true false false true true false)
                                            (String.String (Ascii.Ascii true false false false false true true false)
                                               (String.String
                                                  (Ascii.Ascii false false true false false true true false)
                                                  (String.String
                                                     (Ascii.Ascii true true false false true true true false)
                                                     String.EmptyString)))))))))))))),
         ([],
          String.String (Ascii.Ascii false true false false true true true false)
            (String.String (Ascii.Ascii true false true false false true true false)
               (String.String (Ascii.Ascii false false true false true true true false)
                  (String.String (Ascii.Ascii true false true false true true true false)
                     (String.String (Ascii.Ascii false true false false true true true false)
                        (String.String (Ascii.Ascii false true true true false true true false)
                           (String.String (Ascii.Ascii false false false false false true false false)
                              (String.String (Ascii.Ascii false true true true false true true false)
                                 (String.String (Ascii.Ascii true false true false true true true false)
                                    (String.String (Ascii.Ascii true false true true false true true false)
                                       (String.String (Ascii.Ascii false true false false false true true false)
                                          (String.String (Ascii.Ascii true false false false false true true false)
                                             (String.String (Ascii.Ascii false true true true false true false false)
                                                (String.String (Ascii.Ascii true true true false false true true false)
                                                   (String.String
                                                      (Ascii.Ascii true false true false false true true false)
                                                      (String.String
                                                         (Ascii.Ascii false false true false true true true false)
                                                         (String.String
                                                            (Ascii.Ascii true true true true true false true false)
                                                            (String.String
                                                               (Ascii.Ascii false true true true false true true false)
                                                               (String.String
                                                                  (Ascii.Ascii true false true false true true true
                                                                     false)
                                                                  (String.String
                                                                     (Ascii.Ascii true false true true false true true
                                                                        false)
                                                                     (String.String
                                                                        (Ascii.Ascii true true true true true false
                                                                           true false)
                                                                        (String.String
                                                                           (Ascii.Ascii false false true false true
                                                                              true true false)
                                                                           (String.String
                                                                              (Ascii.Ascii false false false true false
                                                                                 true true false)
                                                                              (String.String
                                                                                 (Ascii.Ascii false true false false
                                                                                    true true true false)
                                                                                 (String.String
                                                                                    (Ascii.Ascii true false true false
                                                                                       false true true false)
                                                                                    (String.String
                                                                                       (Ascii.Ascii true false false
                                                                                          false false true true false)
                                                                                       (String.String
                                                                                          (Ascii.Ascii false false true
                                                                                          false false true true false)
                                                                                          (String.String
                                                                                          (Ascii.Ascii true true false
                                                                                          false true true true false)
                                                                                          (String.String
                                                                                          (Ascii.Ascii false false
                                                                                          false true false true false
                                                                                          false)
                                                                                          (String.String
                                                                                          (Ascii.Ascii true false false
                                                                                          true false true false false)
                                                                                          String.EmptyString)))))))))))))))))))))))))))))));
        (String.String (Ascii.Ascii true true false false true true true false)
           (String.String (Ascii.Ascii true false true false false true true false)
              (String.String (Ascii.Ascii false false true false true true true false)
                 (String.String (Ascii.Ascii true true true true true false true false)
                    (String.String (Ascii.Ascii false true true true false true true false)
                       (String.String (Ascii.Ascii true false true false true true true false)
                          (String.String (Ascii.Ascii true false true true false true true false)
                             (String.String (Ascii.Ascii true true true true true false true false)
                                (String.String (Ascii.Ascii false false true false true true true false)
                                   (String.String (Ascii.Ascii false false false true false true true false)
                                      (String.String (Ascii.Ascii false true false false true true true false)
                                         (String.String (Ascii.Ascii true false true false false true true false)
                                            (String.String (Ascii.Ascii true false false false false true true false)
                                               (String.String
                                                  (Ascii.Ascii false false true false false true true false)
                                                  (String.String
                                                     (Ascii.Ascii true true false false true true true false)
                                                     String.EmptyString)))))))))))))),
         ([String.String (Ascii.Ascii false true true true false true true false) String.EmptyString],
          String.String (Ascii.Ascii false true true true false true true false)
            (String.String (Ascii.Ascii true false true false true true true false)
               (String.String (Ascii.Ascii true false true true false true true false)
                  (String.String (Ascii.Ascii false true false false false true true false)
                     (String.String (Ascii.Ascii true false false false false true true false)
                        (String.String (Ascii.Ascii false true true true false true false false)
                           (String.String (Ascii.Ascii true true false false true true true false)
                              (String.String (Ascii.Ascii true false true false false true true false)
                                 (String.String (Ascii.Ascii false false true false true true true false)
                                    (String.String (Ascii.Ascii true true true true true false true false)
                                       (String.String (Ascii.Ascii false true true true false true true false)
                                          (String.String (Ascii.Ascii true false true false true true true false)
                                             (String.String (Ascii.Ascii true false true true false true true false)
                                                (String.String (Ascii.Ascii true true true true true false true false)
                                                   (String.String
                                                      (Ascii.Ascii false false true false true true true false)
                                                      (String.String
                                                         (Ascii.Ascii false false false true false true true false)
                                                         (String.String
                                                            (Ascii.Ascii false true false false true true true false)
                                                            (String.String
                                                               (Ascii.Ascii true false true false false true true false)
                                                               (String.String
                                                                  (Ascii.Ascii true false false false false true true
                                                                     false)
                                                                  (String.String
                                                                     (Ascii.Ascii false false true false false true
                                                                        true false)
                                                                     (String.String
                                                                        (Ascii.Ascii true true false false true true
                                                                           true false)
                                                                        (String.String
                                                                           (Ascii.Ascii false false false true false
                                                                              true false false)
                                                                           (String.String
                                                                              (Ascii.Ascii false true true true false
                                                                                 true true false)
                                                                              (String.String
                                                                                 (Ascii.Ascii true false false true
                                                                                    false true false false)
                                                                                 String.EmptyString)))))))))))))))))))))))))].
Proof. exact @ApiGenEq.gen_helpers. Qed.

Print Assumptions C08_interp2d_list_is_map.
Print Assumptions C08_interp3d_list_is_map.
Print Assumptions C08_vinterp2d_list_is_map.
Print Assumptions C08_vinterp3d_list_is_map.
Print Assumptions C08_dispatch_single.
Print Assumptions C08_dispatch_list.
Print Assumptions C08_solve2d_list_spec.
Print Assumptions C08_solve2d_list_is_map_of_singles.
Print Assumptions C08_solve3d_list_is_map_of_singles.
Print Assumptions C08_raytrace_hands_the_points_to_the_kernel_as_given_2d.
Print Assumptions C08_raytrace_hands_the_points_to_the_kernel_as_given_3d.
Print Assumptions C08_point_evaluation_hands_the_points_as_given_2d.
Print Assumptions C08_thread_helpers_only_forward_to_numba.
