(* C20  Mesh export is geometrically faithful (hand model coq/model/MeshIO.v of the index arithmetic of fteikpy/_io.py, tied by harness/corr_api.py)
   Only statements and `exact`: the proofs are in proofs/.  Written by tools/mkprops.py from Coq's own printing of the
   lemma statements; every statement is in full below so that it cannot be weakened without this file changing. *)
From Coq Require Import ZArith List Bool Lia.
From FT.model Require Import MeshIO.
From FT.proofs Require Import MeshIOProofs.
From FT.proofs Require IoGenEq.
Import ListNotations.
Open Scope Z_scope.

(* 2D: the point numbered pidx2 nx ix iz (Fortran-order ravel of the (x, z) mesh grid) is the entry [iz, ix] of the C-order raveled node data: every point carries the traveltime/gradient of the node at its location *)
Theorem C20_point_carries_its_node_2d :
  forall nx ix iz : Z, pidx2 nx ix iz = ravel2 (nx + 1) iz ix.
Proof. exact @MeshIOProofs.pidx2_is_ravel. Qed.

(* 2D: cell number cidx2 nx ix iz carries entry [iz, ix] of the raveled velocity model *)
Theorem C20_cell_carries_its_velocity_2d :
  forall nx ix iz : Z, cidx2 nx ix iz = ravel2 nx iz ix.
Proof. exact @MeshIOProofs.cidx2_is_ravel. Qed.

(* 3D: point pidx3 is entry [iz, ix, iy] of the node data after transpose(1,2,0).ravel() *)
Theorem C20_point_carries_its_node_3d :
  forall ny nz ix iy iz : Z, pidx3 ny nz ix iy iz = ravel3_t (ny + 1) (nz + 1) iz ix iy.
Proof. exact @MeshIOProofs.pidx3_is_ravel. Qed.

(* 3D: cell cidx3 carries velocity [iz, ix, iy] *)
Theorem C20_cell_carries_its_velocity_3d :
  forall ny nz ix iy iz : Z, cidx3 ny nz ix iy iz = ravel3_t ny nz iz ix iy.
Proof. exact @MeshIOProofs.cidx3_is_ravel. Qed.

(* 2D: node -> point number lands in 0..N-1 *)
Theorem C20_point_numbers_in_range_2d :
  forall nx nz ix iz : Z, 0 <= nx -> 0 <= ix <= nx -> 0 <= iz <= nz -> 0 <= pidx2 nx ix iz < (nx + 1) * (nz + 1).
Proof. exact @MeshIOProofs.pidx2_range. Qed.

(* 2D: distinct nodes get distinct points *)
Theorem C20_point_numbering_injective_2d :
  forall nx ix iz ix' iz' : Z,
       0 <= ix <= nx -> 0 <= ix' <= nx -> pidx2 nx ix iz = pidx2 nx ix' iz' -> ix = ix' /\ iz = iz'.
Proof. exact @MeshIOProofs.pidx2_inj. Qed.

(* 2D: every point number is a node *)
Theorem C20_point_numbering_surjective_2d :
  forall nx nz p : Z,
       0 <= nx ->
       0 <= p < (nx + 1) * (nz + 1) -> exists ix iz : Z, 0 <= ix <= nx /\ 0 <= iz <= nz /\ pidx2 nx ix iz = p.
Proof. exact @MeshIOProofs.pidx2_surj. Qed.

(* 3D: in range *)
Theorem C20_point_numbers_in_range_3d :
  forall nx ny nz ix iy iz : Z,
       0 <= ny ->
       0 <= nz ->
       0 <= ix <= nx -> 0 <= iy <= ny -> 0 <= iz <= nz -> 0 <= pidx3 ny nz ix iy iz < (nx + 1) * (ny + 1) * (nz + 1).
Proof. exact @MeshIOProofs.pidx3_range. Qed.

(* 3D: injective *)
Theorem C20_point_numbering_injective_3d :
  forall ny nz ix iy iz ix' iy' iz' : Z,
       0 <= iy <= ny ->
       0 <= iy' <= ny ->
       0 <= iz <= nz ->
       0 <= iz' <= nz -> pidx3 ny nz ix iy iz = pidx3 ny nz ix' iy' iz' -> ix = ix' /\ iy = iy' /\ iz = iz'.
Proof. exact @MeshIOProofs.pidx3_inj. Qed.

(* 2D: a cell connects four distinct points, the nodes (ix..ix+1, iz..iz+1) *)
Theorem C20_cell_corners_distinct_2d :
  forall nx ix iz : Z, 0 <= ix < nx -> NoDup (corners2 nx ix iz).
Proof. exact @MeshIOProofs.corners2_distinct. Qed.

(* 3D: a cell connects eight distinct points *)
Theorem C20_cell_corners_distinct_3d :
  forall ny nz ix iy iz : Z, 0 <= iy < ny -> 0 <= iz < nz -> NoDup (corners3 ny nz ix iy iz).
Proof. exact @MeshIOProofs.corners3_distinct. Qed.

(* ray polylines: every segment joins consecutive vertices, numbered from the ray's offset *)
Theorem C20_ray_segments_consecutive :
  forall off n a b : Z, In (a, b) (ray_segments off n) -> b = a + 1 /\ off <= a < off + n - 1.
Proof. exact @MeshIOProofs.ray_segments_consecutive. Qed.

(* as many polylines as rays, in order *)
Theorem C20_one_polyline_per_ray :
  forall (off : Z) (lens : list Z), length (rays_segments off lens) = length lens.
Proof. exact @MeshIOProofs.rays_segments_length. Qed.

(* extracted from fteikpy/_io.py on every run (gen/IoGen.v): the k-th node coordinate along x is k * dx + x0 (every numeric instance) - not a float arange *)
Theorem C20_node_coordinates_from_source_2d_x :
  forall (T : Type) (N : Num.Num T) (nx ny : Z) (dx dy x0 y0 : T) (k : Z),
       IoGen.mesh2d_dx_node nx ny dx dy x0 y0 k = Num.nadd (Num.nmul (Num.nofZ k) dx) x0.
Proof. exact @IoGenEq.gen_mesh2d_dx_node_eq. Qed.

(* 3D, z *)
Theorem C20_node_coordinates_from_source_3d_z :
  forall (T : Type) (N : Num.Num T) (nx ny nz : Z) (dx dy dz x0 y0 z0 : T) (k : Z),
       IoGen.mesh3d_dz_node nx ny nz dx dy dz x0 y0 z0 k = Num.nadd (Num.nmul (Num.nofZ k) dz) z0.
Proof. exact @IoGenEq.gen_mesh3d_dz_node_eq. Qed.

(* one more node than cells along every axis *)
Theorem C20_node_counts_from_source :
  forall (T : Type) (nx ny nz : Z) (dx dy dz x0 y0 z0 : T),
       IoGen.mesh2d_dx_len nx ny dx dy x0 y0 = nx + 1 /\
       IoGen.mesh2d_dy_len nx ny dx dy x0 y0 = ny + 1 /\
       IoGen.mesh3d_dx_len nx ny nz dx dy dz x0 y0 z0 = nx + 1 /\
       IoGen.mesh3d_dy_len nx ny nz dx dy dz x0 y0 z0 = ny + 1 /\
       IoGen.mesh3d_dz_len nx ny nz dx dy dz x0 y0 z0 = nz + 1.
Proof. exact @IoGenEq.gen_mesh_node_counts. Qed.

(* the point numbered pidx2 of the GENERATED point list is the node (ix, iz) with its coordinates *)
Theorem C20_point_numbering_from_source_2d :
  forall (T : Type) (N : Num.Num T) (nx ny : Z) (dx dy x0 y0 : T) (ix iz : Z),
       0 <= ix <= nx ->
       0 <= iz <= ny ->
       nth_error (IoGen.mesh2d_points nx ny dx dy x0 y0) (Z.to_nat (pidx2 nx ix iz)) =
       Some [Num.nadd (Num.nmul (Num.nofZ ix) dx) x0; Num.nadd (Num.nmul (Num.nofZ iz) dy) y0].
Proof. exact @IoGenEq.gen_mesh2d_point_number. Qed.

(* the cell numbered cidx2 of the generated cell list has the hand model's corner list *)
Theorem C20_cell_numbering_from_source_2d :
  forall (T : Type) (nx ny : Z) (dx dy x0 y0 : T) (ix iz : Z),
       0 <= ix < nx ->
       0 <= iz < ny ->
       nth_error (IoGen.mesh2d_cells nx ny dx dy x0 y0) (Z.to_nat (cidx2 nx ix iz)) = Some (corners2 nx ix iz).
Proof. exact @IoGenEq.gen_mesh2d_cell_number. Qed.

(* 3D *)
Theorem C20_point_numbering_from_source_3d :
  forall (T : Type) (N : Num.Num T) (nx ny nz : Z) (dx dy dz x0 y0 z0 : T) (ix iy iz : Z),
       0 <= ix <= nx ->
       0 <= iy <= ny ->
       0 <= iz <= nz ->
       nth_error (IoGen.mesh3d_points nx ny nz dx dy dz x0 y0 z0) (Z.to_nat (pidx3 ny nz ix iy iz)) =
       Some
         [Num.nadd (Num.nmul (Num.nofZ ix) dx) x0; Num.nadd (Num.nmul (Num.nofZ iy) dy) y0;
          Num.nadd (Num.nmul (Num.nofZ iz) dz) z0].
Proof. exact @IoGenEq.gen_mesh3d_point_number. Qed.

(* 3D *)
Theorem C20_cell_numbering_from_source_3d :
  forall (T : Type) (nx ny nz : Z) (dx dy dz x0 y0 z0 : T) (ix iy iz : Z),
       0 <= ix < nx ->
       0 <= iy < ny ->
       0 <= iz < nz ->
       nth_error (IoGen.mesh3d_cells nx ny nz dx dy dz x0 y0 z0) (Z.to_nat (cidx3 ny nz ix iy iz)) =
       Some (corners3 ny nz ix iy iz).
Proof. exact @IoGenEq.gen_mesh3d_cell_number. Qed.

(* the whole generated quad list equals the hand model's cells2 (corner order included) *)
Theorem C20_cells_from_source_2d :
  forall (T : Type) (nx ny : Z) (dx dy x0 y0 : T), IoGen.mesh2d_cells nx ny dx dy x0 y0 = cells2 nx ny.
Proof. exact @IoGenEq.gen_mesh2d_cells_eq. Qed.

(* hexahedra *)
Theorem C20_cells_from_source_3d :
  forall (T : Type) (nx ny nz : Z) (dx dy dz x0 y0 z0 : T),
       IoGen.mesh3d_cells nx ny nz dx dy dz x0 y0 z0 = cells3 nx ny nz.
Proof. exact @IoGenEq.gen_mesh3d_cells_eq. Qed.

(* point/cell data order: the extracted ravel of a 2D array is the hand model's ravel2 *)
Theorem C20_data_order_from_source_2d :
  forall nzn ncols iz ix : Z, IoGen.ravel_grid_2d [nzn; ncols] [iz; ix] = ravel2 ncols iz ix.
Proof. exact @IoGenEq.gen_ravel_grid_2d_eq. Qed.

(* 3D: transpose axes and ravel as in the hand model *)
Theorem C20_data_order_from_source_3d :
  forall nzn nxn nyn iz ix iy : Z, IoGen.ravel_grid_3d [nzn; nxn; nyn] [iz; ix; iy] = ravel3_t nyn nzn iz ix iy.
Proof. exact @IoGenEq.gen_ravel_grid_3d_eq. Qed.

(* ray export: for any list of ray lengths the extracted connectivity (offset = number of points so far, accumulated over the rays) equals the hand model's consecutive segments *)
Theorem C20_ray_segments_from_source :
  forall lens : list Z, IoGen.ray_to_meshio_cells lens = rays_segments 0 lens.
Proof. exact @IoGenEq.gen_ray_to_meshio_cells_eq. Qed.

(* after a ray of n vertices the offset has advanced by n *)
Theorem C20_ray_offset_accumulates :
  forall off n : Z, IoGen.ray_next_off off n = off + n.
Proof. exact @IoGenEq.gen_ray_next_off_eq. Qed.

(* the statements of the ray loop as extracted *)
Theorem C20_ray_export_statement_context :
  IoGen.ray_celltype =
       String.String (Ascii.Ascii false false true true false true true false)
         (String.String (Ascii.Ascii true false false true false true true false)
            (String.String (Ascii.Ascii false true true true false true true false)
               (String.String (Ascii.Ascii true false true false false true true false) String.EmptyString))) /\
       IoGen.ray_points_update =
       String.String (Ascii.Ascii false false false false true true true false)
         (String.String (Ascii.Ascii true true true true false true true false)
            (String.String (Ascii.Ascii true false false true false true true false)
               (String.String (Ascii.Ascii false true true true false true true false)
                  (String.String (Ascii.Ascii false false true false true true true false)
                     (String.String (Ascii.Ascii true true false false true true true false)
                        (String.String (Ascii.Ascii false false false false false true false false)
                           (String.String (Ascii.Ascii true false true true true true false false)
                              (String.String (Ascii.Ascii false false false false false true false false)
                                 (String.String (Ascii.Ascii false true true true false true true false)
                                    (String.String (Ascii.Ascii false false false false true true true false)
                                       (String.String (Ascii.Ascii false true true true false true false false)
                                          (String.String (Ascii.Ascii true false false false false true true false)
                                             (String.String (Ascii.Ascii false true false false true true true false)
                                                (String.String
                                                   (Ascii.Ascii false true false false true true true false)
                                                   (String.String
                                                      (Ascii.Ascii true false false false false true true false)
                                                      (String.String
                                                         (Ascii.Ascii true false false true true true true false)
                                                         (String.String
                                                            (Ascii.Ascii false false false true false true false false)
                                                            (String.String
                                                               (Ascii.Ascii false true false false true true true false)
                                                               (String.String
                                                                  (Ascii.Ascii true false false false false true true
                                                                     false)
                                                                  (String.String
                                                                     (Ascii.Ascii true false false true true true true
                                                                        false)
                                                                     (String.String
                                                                        (Ascii.Ascii true false false true false true
                                                                           false false)
                                                                        (String.String
                                                                           (Ascii.Ascii false false false false false
                                                                              true false false)
                                                                           (String.String
                                                                              (Ascii.Ascii true false false true false
                                                                                 true true false)
                                                                              (String.String
                                                                                 (Ascii.Ascii false true true false
                                                                                    false true true false)
                                                                                 (String.String
                                                                                    (Ascii.Ascii false false false
                                                                                       false false true false false)
                                                                                    (String.String
                                                                                       (Ascii.Ascii false false true
                                                                                          true false true true false)
                                                                                       (String.String
                                                                                          (Ascii.Ascii true false true
                                                                                          false false true true false)
                                                                                          (String.String
                                                                                          (Ascii.Ascii false true true
                                                                                          true false true true false)
                                                                                          (String.String
                                                                                          (Ascii.Ascii false false
                                                                                          false true false true false
                                                                                          false)
                                                                                          (String.String
                                                                                          (Ascii.Ascii false false
                                                                                          false false true true true
                                                                                          false)
                                                                                          (String.String
                                                                                          (Ascii.Ascii true true true
                                                                                          true false true true false)
                                                                                          (String.String
                                                                                          (Ascii.Ascii true false false
                                                                                          true false true true false)
                                                                                          (String.String
                                                                                          (Ascii.Ascii false true true
                                                                                          true false true true false)
                                                                                          (String.String
                                                                                          (Ascii.Ascii false false true
                                                                                          false true true true false)
                                                                                          (String.String
                                                                                          (Ascii.Ascii true true false
                                                                                          false true true true false)
                                                                                          (String.String
                                                                                          (Ascii.Ascii true false false
                                                                                          true false true false false)
                                                                                          (String.String
                                                                                          (Ascii.Ascii false false
                                                                                          false false false true false
                                                                                          false)
                                                                                          (String.String
                                                                                          (Ascii.Ascii true false true
                                                                                          true true true false false)
                                                                                          (String.String
                                                                                          (Ascii.Ascii true false true
                                                                                          true true true false false)
                                                                                          (String.String
                                                                                          (Ascii.Ascii false false
                                                                                          false false false true false
                                                                                          false)
                                                                                          (String.String
                                                                                          (Ascii.Ascii false false
                                                                                          false false true true false
                                                                                          false)
                                                                                          (String.String
                                                                                          (Ascii.Ascii false false
                                                                                          false false false true false
                                                                                          false)
                                                                                          (String.String
                                                                                          (Ascii.Ascii true false true
                                                                                          false false true true false)
                                                                                          (String.String
                                                                                          (Ascii.Ascii false false true
                                                                                          true false true true false)
                                                                                          (String.String
                                                                                          (Ascii.Ascii true true false
                                                                                          false true true true false)
                                                                                          (String.String
                                                                                          (Ascii.Ascii true false true
                                                                                          false false true true false)
                                                                                          (String.String
                                                                                          (Ascii.Ascii false false
                                                                                          false false false true false
                                                                                          false)
                                                                                          (String.String
                                                                                          (Ascii.Ascii false true true
                                                                                          true false true true false)
                                                                                          (String.String
                                                                                          (Ascii.Ascii false false
                                                                                          false false true true true
                                                                                          false)
                                                                                          (String.String
                                                                                          (Ascii.Ascii false true true
                                                                                          true false true false false)
                                                                                          (String.String
                                                                                          (Ascii.Ascii false true true
                                                                                          false true true true false)
                                                                                          (String.String
                                                                                          (Ascii.Ascii true true false
                                                                                          false true true true false)
                                                                                          (String.String
                                                                                          (Ascii.Ascii false false true
                                                                                          false true true true false)
                                                                                          (String.String
                                                                                          (Ascii.Ascii true false false
                                                                                          false false true true false)
                                                                                          (String.String
                                                                                          (Ascii.Ascii true true false
                                                                                          false false true true false)
                                                                                          (String.String
                                                                                          (Ascii.Ascii true true false
                                                                                          true false true true false)
                                                                                          (String.String
                                                                                          (Ascii.Ascii false false
                                                                                          false true false true false
                                                                                          false)
                                                                                          (String.String
                                                                                          (Ascii.Ascii false false
                                                                                          false true false true false
                                                                                          false)
                                                                                          (String.String
                                                                                          (Ascii.Ascii false false
                                                                                          false false true true true
                                                                                          false)
                                                                                          (String.String
                                                                                          (Ascii.Ascii true true true
                                                                                          true false true true false)
                                                                                          (String.String
                                                                                          (Ascii.Ascii true false false
                                                                                          true false true true false)
                                                                                          (String.String
                                                                                          (Ascii.Ascii false true true
                                                                                          true false true true false)
                                                                                          (String.String
                                                                                          (Ascii.Ascii false false true
                                                                                          false true true true false)
                                                                                          (String.String
                                                                                          (Ascii.Ascii true true false
                                                                                          false true true true false)
                                                                                          (String.String
                                                                                          (Ascii.Ascii false false true
                                                                                          true false true false false)
                                                                                          (String.String
                                                                                          (Ascii.Ascii false false
                                                                                          false false false true false
                                                                                          false)
                                                                                          (String.String
                                                                                          (Ascii.Ascii false true false
                                                                                          false true true true false)
                                                                                          (String.String
                                                                                          (Ascii.Ascii true false false
                                                                                          false false true true false)
                                                                                          (String.String
                                                                                          (Ascii.Ascii true false false
                                                                                          true true true true false)
                                                                                          (String.String
                                                                                          (Ascii.Ascii true false false
                                                                                          true false true false false)
                                                                                          (String.String
                                                                                          (Ascii.Ascii true false false
                                                                                          true false true false false)
                                                                                          String.EmptyString))))))))))))))))))))))))))))))))))))))))))))))))))))))))))))))))))))))) /\
       IoGen.ray_points_post =
       [String.String (Ascii.Ascii false false false false true true true false)
          (String.String (Ascii.Ascii true true true true false true true false)
             (String.String (Ascii.Ascii true false false true false true true false)
                (String.String (Ascii.Ascii false true true true false true true false)
                   (String.String (Ascii.Ascii false false true false true true true false)
                      (String.String (Ascii.Ascii true true false false true true true false)
                         (String.String (Ascii.Ascii false false false false false true false false)
                            (String.String (Ascii.Ascii true false true true true true false false)
                               (String.String (Ascii.Ascii false false false false false true false false)
                                  (String.String (Ascii.Ascii false true true true false true true false)
                                     (String.String (Ascii.Ascii false false false false true true true false)
                                        (String.String (Ascii.Ascii false true true true false true false false)
                                           (String.String (Ascii.Ascii true true false false false true true false)
                                              (String.String (Ascii.Ascii true true true true false true true false)
                                                 (String.String
                                                    (Ascii.Ascii false false true true false true true false)
                                                    (String.String
                                                       (Ascii.Ascii true false true false true true true false)
                                                       (String.String
                                                          (Ascii.Ascii true false true true false true true false)
                                                          (String.String
                                                             (Ascii.Ascii false true true true false true true false)
                                                             (String.String
                                                                (Ascii.Ascii true true true true true false true false)
                                                                (String.String
                                                                   (Ascii.Ascii true true false false true true true
                                                                      false)
                                                                   (String.String
                                                                      (Ascii.Ascii false false true false true true
                                                                         true false)
                                                                      (String.String
                                                                         (Ascii.Ascii true false false false false true
                                                                            true false)
                                                                         (String.String
                                                                            (Ascii.Ascii true true false false false
                                                                               true true false)
                                                                            (String.String
                                                                               (Ascii.Ascii true true false true false
                                                                                  true true false)
                                                                               (String.String
                                                                                  (Ascii.Ascii false false false true
                                                                                     false true false false)
                                                                                  (String.String
                                                                                     (Ascii.Ascii false false false
                                                                                        true false true false false)
                                                                                     (String.String
                                                                                        (Ascii.Ascii false false false
                                                                                          false true true true false)
                                                                                        (String.String
                                                                                          (Ascii.Ascii true true true
                                                                                          true false true true false)
                                                                                          (String.String
                                                                                          (Ascii.Ascii true false false
                                                                                          true false true true false)
                                                                                          (String.String
                                                                                          (Ascii.Ascii false true true
                                                                                          true false true true false)
                                                                                          (String.String
                                                                                          (Ascii.Ascii false false true
                                                                                          false true true true false)
                                                                                          (String.String
                                                                                          (Ascii.Ascii true true false
                                                                                          false true true true false)
                                                                                          (String.String
                                                                                          (Ascii.Ascii false false true
                                                                                          true false true false false)
                                                                                          (String.String
                                                                                          (Ascii.Ascii false false
                                                                                          false false false true false
                                                                                          false)
                                                                                          (String.String
                                                                                          (Ascii.Ascii false true true
                                                                                          true false true true false)
                                                                                          (String.String
                                                                                          (Ascii.Ascii false false
                                                                                          false false true true true
                                                                                          false)
                                                                                          (String.String
                                                                                          (Ascii.Ascii false true true
                                                                                          true false true false false)
                                                                                          (String.String
                                                                                          (Ascii.Ascii false true false
                                                                                          true true true true false)
                                                                                          (String.String
                                                                                          (Ascii.Ascii true false true
                                                                                          false false true true false)
                                                                                          (String.String
                                                                                          (Ascii.Ascii false true false
                                                                                          false true true true false)
                                                                                          (String.String
                                                                                          (Ascii.Ascii true true true
                                                                                          true false true true false)
                                                                                          (String.String
                                                                                          (Ascii.Ascii true true false
                                                                                          false true true true false)
                                                                                          (String.String
                                                                                          (Ascii.Ascii false false
                                                                                          false true false true false
                                                                                          false)
                                                                                          (String.String
                                                                                          (Ascii.Ascii false false true
                                                                                          true false true true false)
                                                                                          (String.String
                                                                                          (Ascii.Ascii true false true
                                                                                          false false true true false)
                                                                                          (String.String
                                                                                          (Ascii.Ascii false true true
                                                                                          true false true true false)
                                                                                          (String.String
                                                                                          (Ascii.Ascii false false
                                                                                          false true false true false
                                                                                          false)
                                                                                          (String.String
                                                                                          (Ascii.Ascii false false
                                                                                          false false true true true
                                                                                          false)
                                                                                          (String.String
                                                                                          (Ascii.Ascii true true true
                                                                                          true false true true false)
                                                                                          (String.String
                                                                                          (Ascii.Ascii true false false
                                                                                          true false true true false)
                                                                                          (String.String
                                                                                          (Ascii.Ascii false true true
                                                                                          true false true true false)
                                                                                          (String.String
                                                                                          (Ascii.Ascii false false true
                                                                                          false true true true false)
                                                                                          (String.String
                                                                                          (Ascii.Ascii true true false
                                                                                          false true true true false)
                                                                                          (String.String
                                                                                          (Ascii.Ascii true false false
                                                                                          true false true false false)
                                                                                          (String.String
                                                                                          (Ascii.Ascii true false false
                                                                                          true false true false false)
                                                                                          (String.String
                                                                                          (Ascii.Ascii true false false
                                                                                          true false true false false)
                                                                                          (String.String
                                                                                          (Ascii.Ascii true false false
                                                                                          true false true false false)
                                                                                          (String.String
                                                                                          (Ascii.Ascii false false
                                                                                          false false false true false
                                                                                          false)
                                                                                          (String.String
                                                                                          (Ascii.Ascii true false false
                                                                                          true false true true false)
                                                                                          (String.String
                                                                                          (Ascii.Ascii false true true
                                                                                          false false true true false)
                                                                                          (String.String
                                                                                          (Ascii.Ascii false false
                                                                                          false false false true false
                                                                                          false)
                                                                                          (String.String
                                                                                          (Ascii.Ascii false true true
                                                                                          true false true true false)
                                                                                          (String.String
                                                                                          (Ascii.Ascii false false true
                                                                                          false false true true false)
                                                                                          (String.String
                                                                                          (Ascii.Ascii true false false
                                                                                          true false true true false)
                                                                                          (String.String
                                                                                          (Ascii.Ascii true false true
                                                                                          true false true true false)
                                                                                          (String.String
                                                                                          (Ascii.Ascii false false
                                                                                          false false false true false
                                                                                          false)
                                                                                          (String.String
                                                                                          (Ascii.Ascii true false true
                                                                                          true true true false false)
                                                                                          (String.String
                                                                                          (Ascii.Ascii true false true
                                                                                          true true true false false)
                                                                                          (String.String
                                                                                          (Ascii.Ascii false false
                                                                                          false false false true false
                                                                                          false)
                                                                                          (String.String
                                                                                          (Ascii.Ascii false true false
                                                                                          false true true false false)
                                                                                          (String.String
                                                                                          (Ascii.Ascii false false
                                                                                          false false false true false
                                                                                          false)
                                                                                          (String.String
                                                                                          (Ascii.Ascii true false true
                                                                                          false false true true false)
                                                                                          (String.String
                                                                                          (Ascii.Ascii false false true
                                                                                          true false true true false)
                                                                                          (String.String
                                                                                          (Ascii.Ascii true true false
                                                                                          false true true true false)
                                                                                          (String.String
                                                                                          (Ascii.Ascii true false true
                                                                                          false false true true false)
                                                                                          (String.String
                                                                                          (Ascii.Ascii false false
                                                                                          false false false true false
                                                                                          false)
                                                                                          (String.String
                                                                                          (Ascii.Ascii false true true
                                                                                          true false true true false)
                                                                                          (String.String
                                                                                          (Ascii.Ascii false false
                                                                                          false false true true true
                                                                                          false)
                                                                                          (String.String
                                                                                          (Ascii.Ascii false true true
                                                                                          true false true false false)
                                                                                          (String.String
                                                                                          (Ascii.Ascii true false false
                                                                                          false false true true false)
                                                                                          (String.String
                                                                                          (Ascii.Ascii false true false
                                                                                          false true true true false)
                                                                                          (String.String
                                                                                          (Ascii.Ascii false true false
                                                                                          false true true true false)
                                                                                          (String.String
                                                                                          (Ascii.Ascii true false false
                                                                                          false false true true false)
                                                                                          (String.String
                                                                                          (Ascii.Ascii true false false
                                                                                          true true true true false)
                                                                                          (String.String
                                                                                          (Ascii.Ascii false false
                                                                                          false true false true false
                                                                                          false)
                                                                                          (String.String
                                                                                          (Ascii.Ascii false false
                                                                                          false false true true true
                                                                                          false)
                                                                                          (String.String
                                                                                          (Ascii.Ascii true true true
                                                                                          true false true true false)
                                                                                          (String.String
                                                                                          (Ascii.Ascii true false false
                                                                                          true false true true false)
                                                                                          (String.String
                                                                                          (Ascii.Ascii false true true
                                                                                          true false true true false)
                                                                                          (String.String
                                                                                          (Ascii.Ascii false false true
                                                                                          false true true true false)
                                                                                          (String.String
                                                                                          (Ascii.Ascii true true false
                                                                                          false true true true false)
                                                                                          (String.String
                                                                                          (Ascii.Ascii true false false
                                                                                          true false true false false)
                                                                                          String.EmptyString)))))))))))))))))))))))))))))))))))))))))))))))))))))))))))))))))))))))))))))))))))))))))));
        String.String (Ascii.Ascii false false false false true true true false)
          (String.String (Ascii.Ascii true true true true false true true false)
             (String.String (Ascii.Ascii true false false true false true true false)
                (String.String (Ascii.Ascii false true true true false true true false)
                   (String.String (Ascii.Ascii false false true false true true true false)
                      (String.String (Ascii.Ascii true true false false true true true false)
                         (String.String (Ascii.Ascii false false false false false true false false)
                            (String.String (Ascii.Ascii true false true true true true false false)
                               (String.String (Ascii.Ascii false false false false false true false false)
                                  (String.String (Ascii.Ascii false false false false true true true false)
                                     (String.String (Ascii.Ascii true true true true false true true false)
                                        (String.String (Ascii.Ascii true false false true false true true false)
                                           (String.String (Ascii.Ascii false true true true false true true false)
                                              (String.String (Ascii.Ascii false false true false true true true false)
                                                 (String.String
                                                    (Ascii.Ascii true true false false true true true false)
                                                    (String.String
                                                       (Ascii.Ascii true true false true true false true false)
                                                       (String.String
                                                          (Ascii.Ascii false true false true true true false false)
                                                          (String.String
                                                             (Ascii.Ascii false false true true false true false false)
                                                             (String.String
                                                                (Ascii.Ascii false false false false false true false
                                                                   false)
                                                                (String.String
                                                                   (Ascii.Ascii true true false true true false true
                                                                      false)
                                                                   (String.String
                                                                      (Ascii.Ascii true false false false true true
                                                                         false false)
                                                                      (String.String
                                                                         (Ascii.Ascii false false true true false true
                                                                            false false)
                                                                         (String.String
                                                                            (Ascii.Ascii false false false false false
                                                                               true false false)
                                                                            (String.String
                                                                               (Ascii.Ascii false true false false true
                                                                                  true false false)
                                                                               (String.String
                                                                                  (Ascii.Ascii false false true true
                                                                                     false true false false)
                                                                                  (String.String
                                                                                     (Ascii.Ascii false false false
                                                                                        false false true false false)
                                                                                     (String.String
                                                                                        (Ascii.Ascii false false false
                                                                                          false true true false false)
                                                                                        (String.String
                                                                                          (Ascii.Ascii true false true
                                                                                          true true false true false)
                                                                                          (String.String
                                                                                          (Ascii.Ascii true false true
                                                                                          true true false true false)
                                                                                          String.EmptyString))))))))))))))))))))))))))));
        String.String (Ascii.Ascii false false false false true true true false)
          (String.String (Ascii.Ascii true true true true false true true false)
             (String.String (Ascii.Ascii true false false true false true true false)
                (String.String (Ascii.Ascii false true true true false true true false)
                   (String.String (Ascii.Ascii false false true false true true true false)
                      (String.String (Ascii.Ascii true true false false true true true false)
                         (String.String (Ascii.Ascii true true false true true false true false)
                            (String.String (Ascii.Ascii false true false true true true false false)
                               (String.String (Ascii.Ascii false false true true false true false false)
                                  (String.String (Ascii.Ascii false false false false false true false false)
                                     (String.String (Ascii.Ascii false true false false true true false false)
                                        (String.String (Ascii.Ascii true false true true true false true false)
                                           (String.String (Ascii.Ascii false false false false false true false false)
                                              (String.String (Ascii.Ascii false true false true false true false false)
                                                 (String.String
                                                    (Ascii.Ascii true false true true true true false false)
                                                    (String.String
                                                       (Ascii.Ascii false false false false false true false false)
                                                       (String.String
                                                          (Ascii.Ascii true false true true false true false false)
                                                          (String.String
                                                             (Ascii.Ascii true false false false true true false false)
                                                             (String.String
                                                                (Ascii.Ascii false true true true false true false
                                                                   false)
                                                                (String.String
                                                                   (Ascii.Ascii false false false false true true false
                                                                      false) String.EmptyString)))))))))))))))))))] /\
       IoGen.ray_return =
       String.String (Ascii.Ascii true false true true false true true false)
         (String.String (Ascii.Ascii true false true false false true true false)
            (String.String (Ascii.Ascii true true false false true true true false)
               (String.String (Ascii.Ascii false false false true false true true false)
                  (String.String (Ascii.Ascii true false false true false true true false)
                     (String.String (Ascii.Ascii true true true true false true true false)
                        (String.String (Ascii.Ascii false true true true false true false false)
                           (String.String (Ascii.Ascii true false true true false false true false)
                              (String.String (Ascii.Ascii true false true false false true true false)
                                 (String.String (Ascii.Ascii true true false false true true true false)
                                    (String.String (Ascii.Ascii false false false true false true true false)
                                       (String.String (Ascii.Ascii false false false true false true false false)
                                          (String.String (Ascii.Ascii false false false false true true true false)
                                             (String.String (Ascii.Ascii true true true true false true true false)
                                                (String.String
                                                   (Ascii.Ascii true false false true false true true false)
                                                   (String.String
                                                      (Ascii.Ascii false true true true false true true false)
                                                      (String.String
                                                         (Ascii.Ascii false false true false true true true false)
                                                         (String.String
                                                            (Ascii.Ascii true true false false true true true false)
                                                            (String.String
                                                               (Ascii.Ascii false false true true false true false
                                                                  false)
                                                               (String.String
                                                                  (Ascii.Ascii false false false false false true false
                                                                     false)
                                                                  (String.String
                                                                     (Ascii.Ascii true true false false false true true
                                                                        false)
                                                                     (String.String
                                                                        (Ascii.Ascii true false true false false true
                                                                           true false)
                                                                        (String.String
                                                                           (Ascii.Ascii false false true true false
                                                                              true true false)
                                                                           (String.String
                                                                              (Ascii.Ascii false false true true false
                                                                                 true true false)
                                                                              (String.String
                                                                                 (Ascii.Ascii true true false false
                                                                                    true true true false)
                                                                                 (String.String
                                                                                    (Ascii.Ascii true false false true
                                                                                       false true false false)
                                                                                    String.EmptyString))))))))))))))))))))))))).
Proof. exact @IoGenEq.gen_ray_context. Qed.

Print Assumptions C20_point_carries_its_node_2d.
Print Assumptions C20_cell_carries_its_velocity_2d.
Print Assumptions C20_point_carries_its_node_3d.
Print Assumptions C20_cell_carries_its_velocity_3d.
Print Assumptions C20_point_numbers_in_range_2d.
Print Assumptions C20_point_numbering_injective_2d.
Print Assumptions C20_point_numbering_surjective_2d.
Print Assumptions C20_point_numbers_in_range_3d.
Print Assumptions C20_point_numbering_injective_3d.
Print Assumptions C20_cell_corners_distinct_2d.
Print Assumptions C20_cell_corners_distinct_3d.
Print Assumptions C20_ray_segments_consecutive.
Print Assumptions C20_one_polyline_per_ray.
Print Assumptions C20_node_coordinates_from_source_2d_x.
Print Assumptions C20_node_coordinates_from_source_3d_z.
Print Assumptions C20_node_counts_from_source.
Print Assumptions C20_point_numbering_from_source_2d.
Print Assumptions C20_cell_numbering_from_source_2d.
Print Assumptions C20_point_numbering_from_source_3d.
Print Assumptions C20_cell_numbering_from_source_3d.
Print Assumptions C20_cells_from_source_2d.
Print Assumptions C20_cells_from_source_3d.
Print Assumptions C20_data_order_from_source_2d.
Print Assumptions C20_data_order_from_source_3d.
Print Assumptions C20_ray_segments_from_source.
Print Assumptions C20_ray_offset_accumulates.
Print Assumptions C20_ray_export_statement_context.
