(* C20  Mesh export is geometrically faithful (hand model coq/model/MeshIO.v of the index arithmetic of fteikpy/_io.py, tied by harness/corr_api.py)
   Only statements and `exact`: the proofs are in proofs/.  Written by tools/mkprops.py from Coq's own printing of the
   lemma statements; every statement is in full below so that it cannot be weakened without this file changing. *)
From Coq Require Import ZArith List Bool Lia.
From FT.model Require Import MeshIO.
From FT.proofs Require Import MeshIOProofs.
Import ListNotations.
Open Scope Z_scope.

(* 2D: the point numbered pidx2 nx ix iz (Fortran-order ravel of the (x, z) mesh grid) is the entry [iz, ix] of the C-order raveled node data: every point carries the traveltime/gradient of the node at its location *)
Theorem C20_point_carries_its_node_2d :
  forall nx ix iz : Z, pidx2 nx ix iz = ravel2 (nx + 1) iz ix.
Proof. exact @MeshIOProofs.pidx2_is_ravel. Qed.

(* 2D: cell number cidx2 nx ix iz carries entry [iz, ix] of the raveled velocity model *)
Theorem C20_cell_carries_its_velocity_2d :
  forall nx ix iz : Z, cidx2 nx ix iz = ravel2 nx iz ix.
Proof. exact @MeshIOProofs.cidx2_is_ravel. Qed.

(* 3D: point pidx3 is entry [iz, ix, iy] of the node data after transpose(1,2,0).ravel() *)
Theorem C20_point_carries_its_node_3d :
  forall ny nz ix iy iz : Z, pidx3 ny nz ix iy iz = ravel3_t (ny + 1) (nz + 1) iz ix iy.
Proof. exact @MeshIOProofs.pidx3_is_ravel. Qed.

(* 3D: cell cidx3 carries velocity [iz, ix, iy] *)
Theorem C20_cell_carries_its_velocity_3d :
  forall ny nz ix iy iz : Z, cidx3 ny nz ix iy iz = ravel3_t ny nz iz ix iy.
Proof. exact @MeshIOProofs.cidx3_is_ravel. Qed.

(* 2D: node -> point number lands in 0..N-1 *)
Theorem C20_point_numbers_in_range_2d :
  forall nx nz ix iz : Z, 0 <= nx -> 0 <= ix <= nx -> 0 <= iz <= nz -> 0 <= pidx2 nx ix iz < (nx + 1) * (nz + 1).
Proof. exact @MeshIOProofs.pidx2_range. Qed.

(* 2D: distinct nodes get distinct points *)
Theorem C20_point_numbering_injective_2d :
  forall nx ix iz ix' iz' : Z,
       0 <= ix <= nx -> 0 <= ix' <= nx -> pidx2 nx ix iz = pidx2 nx ix' iz' -> ix = ix' /\ iz = iz'.
Proof. exact @MeshIOProofs.pidx2_inj. Qed.

(* 2D: every point number is a node *)
Theorem C20_point_numbering_surjective_2d :
  forall nx nz p : Z,
       0 <= nx ->
       0 <= p < (nx + 1) * (nz + 1) -> exists ix iz : Z, 0 <= ix <= nx /\ 0 <= iz <= nz /\ pidx2 nx ix iz = p.
Proof. exact @MeshIOProofs.pidx2_surj. Qed.

(* 3D: in range *)
Theorem C20_point_numbers_in_range_3d :
  forall nx ny nz ix iy iz : Z,
       0 <= ny ->
       0 <= nz ->
       0 <= ix <= nx -> 0 <= iy <= ny -> 0 <= iz <= nz -> 0 <= pidx3 ny nz ix iy iz < (nx + 1) * (ny + 1) * (nz + 1).
Proof. exact @MeshIOProofs.pidx3_range. Qed.

(* 3D: injective *)
Theorem C20_point_numbering_injective_3d :
  forall ny nz ix iy iz ix' iy' iz' : Z,
       0 <= iy <= ny ->
       0 <= iy' <= ny ->
       0 <= iz <= nz ->
       0 <= iz' <= nz -> pidx3 ny nz ix iy iz = pidx3 ny nz ix' iy' iz' -> ix = ix' /\ iy = iy' /\ iz = iz'.
Proof. exact @MeshIOProofs.pidx3_inj. Qed.

(* 2D: a cell connects four distinct points, the nodes (ix..ix+1, iz..iz+1) *)
Theorem C20_cell_corners_distinct_2d :
  forall nx ix iz : Z, 0 <= ix < nx -> NoDup (corners2 nx ix iz).
Proof. exact @MeshIOProofs.corners2_distinct. Qed.

(* 3D: a cell connects eight distinct points *)
Theorem C20_cell_corners_distinct_3d :
  forall ny nz ix iy iz : Z, 0 <= iy < ny -> 0 <= iz < nz -> NoDup (corners3 ny nz ix iy iz).
Proof. exact @MeshIOProofs.corners3_distinct. Qed.

(* ray polylines: every segment joins consecutive vertices, numbered from the ray's offset *)
Theorem C20_ray_segments_consecutive :
  forall off n a b : Z, In (a, b) (ray_segments off n) -> b = a + 1 /\ off <= a < off + n - 1.
Proof. exact @MeshIOProofs.ray_segments_consecutive. Qed.

(* as many polylines as rays, in order *)
Theorem C20_one_polyline_per_ray :
  forall (off : Z) (lens : list Z), length (rays_segments off lens) = length lens.
Proof. exact @MeshIOProofs.rays_segments_length. Qed.

Print Assumptions C20_point_carries_its_node_2d.
Print Assumptions C20_cell_carries_its_velocity_2d.
Print Assumptions C20_point_carries_its_node_3d.
Print Assumptions C20_cell_carries_its_velocity_3d.
Print Assumptions C20_point_numbers_in_range_2d.
Print Assumptions C20_point_numbering_injective_2d.
Print Assumptions C20_point_numbering_surjective_2d.
Print Assumptions C20_point_numbers_in_range_3d.
Print Assumptions C20_point_numbering_injective_3d.
Print Assumptions C20_cell_corners_distinct_2d.
Print Assumptions C20_cell_corners_distinct_3d.
Print Assumptions C20_ray_segments_consecutive.
Print Assumptions C20_one_polyline_per_ray.
