(* C04  First-arrival bounds, second clause: once sweeping has converged, the times of two adjacent nodes differ by at
   most the edge length times the smallest slowness among the cells adjoining that edge.
   Only statements and `exact`; the proofs are in proofs/Sweep{2,3}dProofs.v. *)
From Coq Require Import ZArith List Bool Reals.
From FT.lib Require Import Num Arr ArrLemmas Lower.
From FT.gen Require Import Fteik2d Fteik3d.
From FT.proofs Require Import Sweep2dProofs Sweep3dProofs SweepDargs.
From FT.proofs Require OperatorsR Operators3R NonNeg2d GridPath.
Import ListNotations.
Open Scope Z_scope.

(* The slowness used on an edge is *defined in the statement*: the minimum over the (clamped) cells adjoining it.
   2D:  Z-edge between nodes (c,j),(c+1,j): cells (c, j-1) and (c, j);  X-edge between (i,c),(i,c+1): cells (i-1,c),(i,c). *)
Example C04_smin_zedge_is_min_over_adjoining_cells :
  forall (T : Type) (H : Num T) nx (slow : arr T) c j,
  Sweep2dProofs.smin_zedge nx slow c j =
  pymin2 (get (nofZ 0) slow [c; Z.max (j - 1) 0]) (get (nofZ 0) slow [c; Z.min j (nx - 2)]).
Proof. reflexivity. Qed.
Example C04_smin_xedge_is_min_over_adjoining_cells :
  forall (T : Type) (H : Num T) nz (slow : arr T) i c,
  Sweep2dProofs.smin_xedge nz slow i c =
  pymin2 (get (nofZ 0) slow [Z.max (i - 1) 0; c]) (get (nofZ 0) slow [Z.min i (nz - 2); c]).
Proof. reflexivity. Qed.

(* every numeric instance with the order laws (binary64 with NaN included): at a fixed point of a sweep pass no node is
   later than a neighbour plus d * (minimum slowness of the adjoining cells).  Z-edges unconditionally; X-edges when the
   Z-candidate of the same update is comparable (Python's min(a, b) keeps a when b < a is false, so a NaN first candidate
   hides the second one). *)
Theorem C04_fixed_point_edges_2d :
  forall (T : Type) (H : Num T), NumLaws T ->
  forall nz nx : Z, 2 <= nz -> 2 <= nx ->
  forall (tt : arr T) (ttsgn : arr Z) (slow : arr T) (dz dx zsi xsi zsa xsa vzero : T) (grad : bool),
  Sweep2dProofs.okT nz nx tt ->
  fst (sweep2d tt ttsgn slow dz dx zsi xsi zsa xsa vzero nz nx grad) = tt ->
  forall i j : Z, 0 <= i < nz -> 0 <= j < nx ->
  let t0 := get (nofZ 0) tt [i; j] in
  let zup := nadd (get (nofZ 0) tt [i - 1; j]) (nmul dz (Sweep2dProofs.smin_zedge nx slow (i - 1) j)) in
  let zdn := nadd (get (nofZ 0) tt [i + 1; j]) (nmul dz (Sweep2dProofs.smin_zedge nx slow i j)) in
  let xup := nadd (get (nofZ 0) tt [i; j - 1]) (nmul dx (Sweep2dProofs.smin_xedge nz slow i (j - 1))) in
  let xdn := nadd (get (nofZ 0) tt [i; j + 1]) (nmul dx (Sweep2dProofs.smin_xedge nz slow i j)) in
  (1 <= i -> nltb zup t0 = false) /\
  (i <= nz - 2 -> nltb zdn t0 = false) /\
  (1 <= j -> 1 <= i /\ comparable zup xup t0 \/ i <= nz - 2 /\ comparable zdn xup t0 -> nltb xup t0 = false) /\
  (j <= nx - 2 -> 1 <= i /\ comparable zup xdn t0 \/ i <= nz - 2 /\ comparable zdn xdn t0 -> nltb xdn t0 = false).
Proof. exact @Sweep2dProofs.sweep2d_fixed_edges. Qed.

(* exact arithmetic: no side condition; the two one-sided inequalities give |T_p - T_q| <= d * smin on every grid edge *)
Theorem C04_fixed_point_edges_2d_R :
  forall (nz nx : Z) (tt : arr R) (ttsgn : arr Z) (slow : arr R) (dz dx zsi xsi zsa xsa vzero : R) (grad : bool),
  2 <= nz -> 2 <= nx -> Sweep2dProofs.okT nz nx tt ->
  fst (sweep2d tt ttsgn slow dz dx zsi xsi zsa xsa vzero nz nx grad) = tt ->
  (forall c j : Z, 0 <= c <= nz - 2 -> 0 <= j <= nx - 1 ->
     (Rabs (get 0%R tt [(c + 1)%Z; j] - get 0%R tt [c; j]) <= dz * Sweep2dProofs.smin_zedge nx slow c j)%R) /\
  (forall i c : Z, 0 <= i <= nz - 1 -> 0 <= c <= nx - 2 ->
     (Rabs (get 0%R tt [i; (c + 1)%Z] - get 0%R tt [i; c]) <= dx * Sweep2dProofs.smin_xedge nz slow i c)%R).
Proof. exact Sweep2dProofs.sweep2d_fixed_edges_R. Qed.

Theorem C04_fixed_point_edges_3d_R :
  forall (nz nx ny : Z) (tt : arr R) (ttsgn : arr Z) (slow : arr R) (dz dx dy : R) (grad : bool),
  2 <= nz -> 2 <= nx -> 2 <= ny -> Sweep3dProofs.okT nz nx ny tt ->
  fst (sweep3d tt ttsgn slow dz dx dy nz nx ny grad) = tt ->
  (forall c j k : Z, 0 <= c <= nz - 2 -> 0 <= j <= nx - 1 -> 0 <= k <= ny - 1 ->
     (Rabs (get 0%R tt [(c + 1)%Z; j; k] - get 0%R tt [c; j; k]) <= dz * Sweep3dProofs.smin_zedge nx ny slow c j k)%R) /\
  (forall i c k : Z, 0 <= i <= nz - 1 -> 0 <= c <= nx - 2 -> 0 <= k <= ny - 1 ->
     (Rabs (get 0%R tt [i; (c + 1)%Z; k] - get 0%R tt [i; c; k]) <= dx * Sweep3dProofs.smin_xedge nz ny slow i c k)%R) /\
  (forall i j c : Z, 0 <= i <= nz - 1 -> 0 <= j <= nx - 1 -> 0 <= c <= ny - 2 ->
     (Rabs (get 0%R tt [i; j; (c + 1)%Z] - get 0%R tt [i; j; c]) <= dy * Sweep3dProofs.smin_yedge nz nx slow i j c)%R).
Proof. exact Sweep3dProofs.sweep3d_fixed_edges_R. Qed.

(* the passes hand the node update the documented spacing constants and depend on the spacings only through them *)
Theorem C04_sweep3d_constants :
  forall (T : Type) (H : Num T),
  exists F : T * T * T * T * T * T * T * T * T * T -> arr T -> arr Z -> arr T -> Z -> Z -> Z -> bool -> arr T * arr Z,
  forall tt ttsgn slow dz dx dy nz nx ny grad,
    sweep3d tt ttsgn slow dz dx dy nz nx ny grad = F (dargs3 dz dx dy) tt ttsgn slow nz nx ny grad.
Proof. exact @sweep3d_through_dargs3. Qed.
Theorem C04_sweep2d_constants :
  forall (T : Type) (H : Num T),
  exists F : T * T * T * T * T * T -> arr T -> arr Z -> arr T -> T -> T -> T -> T -> T -> Z -> Z -> bool -> arr T * arr Z,
  forall tt ttsgn slow dz dx zsi xsi zsa xsa vzero nz nx grad,
    sweep2d tt ttsgn slow dz dx zsi xsi zsa xsa vzero nz nx grad = F (dargs2 dz dx) tt ttsgn slow zsi xsi zsa xsa vzero nz nx grad.
Proof. exact @sweep2d_through_dargs2. Qed.

(* First clause (never faster than physics), exact arithmetic: the multi-point operators are causal.  The 2D 4-point
   operator under its admissibility test is never earlier than the diagonal neighbour; the 3D 8-point candidate is
   discarded when it is earlier than the diagonally opposite corner (fix 7b708d7: on non-cubic cells the unguarded
   operator could be earlier than every neighbour, even negative), and on cubic cells that guard never fires. *)
Theorem C04_four_point_not_before_diagonal :
  forall tv te tev vref dz dx : R,
  (0 < dz)%R -> (0 < dx)%R -> (0 <= vref)%R -> (tv <= te + dx * vref)%R -> (te <= tv + dz * vref)%R ->
  (tev <= OperatorsR.four_point tv te tev vref (1 / dz / dz) (1 / dx / dx))%R.
Proof. exact @NonNeg2d.four_point_ge_tev. Qed.

Theorem C04_eight_point_guard_noop_on_cubic_cells :
  forall tv te tn tev ten tnv tnve vref d dzxi dzyi dxyi : R,
  (0 < d)%R ->
  (Operators3R.op3_a tv te tn tev ten tnv tnve + Operators3R.op3_b tv te tn tev ten tnv tnve +
   Operators3R.op3_c tv te tn tev ten tnv tnve)%R = (3 * tnve)%R /\
  Operators3R.op3_raw tv te tn tev ten tnv tnve vref d d d dzxi dzyi dxyi (d + d + d) =
  (tnve + sqrt (Operators3R.op3_t2 vref (d + d + d) - Operators3R.op3_t3 tv te tn tev ten tnv tnve dzxi dzyi dxyi) /
   (d + d + d))%R /\
  (tnve <= Operators3R.op3_raw tv te tn tev ten tnv tnve vref d d d dzxi dzyi dxyi (d + d + d))%R /\
  Operators3R.op3 tv te tn tev ten tnv tnve vref d d d dzxi dzyi dxyi (d + d + d) =
  Operators3R.op3_raw tv te tn tev ten tnv tnve vref d d d dzxi dzyi dxyi (d + d + d).
Proof. exact @Operators3R.op3_guard_noop_cubic. Qed.

(* Second clause in its path form (exact arithmetic): at a fixed point of a pass no node is later than ANY path along
   grid edges from any other node, each edge costing d * (smallest slowness of the adjoining cells); hence the Manhattan
   bound with the largest slowness.  Solver-level corollaries (node and off-node sources) are in props/C03.v. *)
Theorem C04_fixed_point_any_grid_path_2d :
  forall (nz nx : Z) (tt : arr R) (ttsgn : arr Z) (slow : arr R) (dz dx zsi xsi zsa xsa vzero : R) (grad : bool),
  2 <= nz -> 2 <= nx -> Sweep2dProofs.okT nz nx tt ->
  fst (sweep2d tt ttsgn slow dz dx zsi xsi zsa xsa vzero nz nx grad) = tt ->
  forall (p q : Z * Z) (l : R), GridPath.gpath2 nz nx slow dz dx p q l ->
  (get 0 tt [fst q; snd q] <= get 0 tt [fst p; snd p] + l)%R.
Proof. exact @GridPath.grid2_path_bound. Qed.

Theorem C04_fixed_point_manhattan_2d :
  forall (nz nx : Z) (tt : arr R) (ttsgn : arr Z) (slow : arr R) (dz dx zsi xsi zsa xsa vzero : R) (grad : bool),
  2 <= nz -> 2 <= nx -> Sweep2dProofs.okT nz nx tt ->
  fst (sweep2d tt ttsgn slow dz dx zsi xsi zsa xsa vzero nz nx grad) = tt ->
  forall smax : R, (0 <= dz)%R -> (0 <= dx)%R ->
  (forall p q : Z, 0 <= p <= nz - 2 -> 0 <= q <= nx - 2 -> (get 0 slow [p; q] <= smax)%R) ->
  forall i j i' j' : Z, 0 <= i <= nz - 1 -> 0 <= j <= nx - 1 -> 0 <= i' <= nz - 1 -> 0 <= j' <= nx - 1 ->
  (get 0 tt [i'; j'] <= get 0 tt [i; j] + smax * (dz * IZR (Z.abs (i' - i)) + dx * IZR (Z.abs (j' - j))))%R.
Proof. exact @GridPath.grid2_manhattan. Qed.

Theorem C04_fixed_point_manhattan_3d :
  forall (nz nx ny : Z) (tt : arr R) (ttsgn : arr Z) (slow : arr R) (dz dx dy : R) (grad : bool),
  2 <= nz -> 2 <= nx -> 2 <= ny -> Sweep3dProofs.okT nz nx ny tt ->
  fst (sweep3d tt ttsgn slow dz dx dy nz nx ny grad) = tt ->
  forall smax : R, (0 <= dz)%R -> (0 <= dx)%R -> (0 <= dy)%R ->
  (forall p q r : Z, 0 <= p <= nz - 2 -> 0 <= q <= nx - 2 -> 0 <= r <= ny - 2 -> (get 0 slow [p; q; r] <= smax)%R) ->
  forall i j k i' j' k' : Z,
  0 <= i <= nz - 1 -> 0 <= j <= nx - 1 -> 0 <= k <= ny - 1 -> 0 <= i' <= nz - 1 -> 0 <= j' <= nx - 1 -> 0 <= k' <= ny - 1 ->
  (get 0 tt [i'; j'; k'] <= get 0 tt [i; j; k] +
   smax * (dz * IZR (Z.abs (i' - i)) + dx * IZR (Z.abs (j' - j)) + dy * IZR (Z.abs (k' - k))))%R.
Proof. exact @GridPath.grid3_manhattan. Qed.

Print Assumptions C04_sweep3d_constants.
Print Assumptions C04_sweep2d_constants.
Print Assumptions C04_fixed_point_edges_2d.
Print Assumptions C04_fixed_point_edges_2d_R.
Print Assumptions C04_fixed_point_edges_3d_R.
Print Assumptions C04_four_point_not_before_diagonal.
Print Assumptions C04_eight_point_guard_noop_on_cubic_cells.
Print Assumptions C04_fixed_point_any_grid_path_2d.
Print Assumptions C04_fixed_point_manhattan_2d.
Print Assumptions C04_fixed_point_manhattan_3d.
