(* C03  Solver total and sane: what is proved about the generated solver for all inputs (raise contract, shapes); finite / non-negative / bounded / zero-only-at-source are examined on the implementation
   Only statements and `exact`: the proofs are in proofs/.  Written by tools/mkprops.py from Coq's own printing of the
   lemma statements; every statement is in full below so that it cannot be weakened without this file changing. *)
From Coq Require Import ZArith List Bool PrimFloat.
From FT.lib Require Import Num Arr ArrLemmas Lower NumArr.
From FT.gen Require Import Common Fteik2d Fteik3d.
From FT.proofs Require Import Sweep2dProofs Sweep3dProofs Solve2dProofs Solve3dProofs.
Import ListNotations.
Open Scope Z_scope.

(* the 2D solver raises ValueError exactly when the code's own domain test fails (comparisons as written: a NaN coordinate fails it) and otherwise returns; every numeric instance *)
Theorem C03_solve2d_raises_iff_source_outside :
  forall (T : Type) (H : Num T) (slow : arr T) (dz dx zsrc xsrc : T) (nsweep : Z) (grad : bool),
       (inside2d slow dz dx zsrc xsrc = false -> fteik2d slow dz dx zsrc xsrc nsweep grad = Raise ValueError) /\
       (inside2d slow dz dx zsrc xsrc = true ->
        exists r : arr T * arr T * T, fteik2d slow dz dx zsrc xsrc nsweep grad = Ok r).
Proof. exact @Solve2dProofs.fteik2d_raises_iff. Qed.

(* 3D *)
Theorem C03_solve3d_raises_iff_source_outside :
  forall (T : Type) (H : Num T) (slow : arr T) (dz dx dy zsrc xsrc ysrc : T) (nsweep : Z) (grad : bool),
       (inside3d slow dz dx dy zsrc xsrc ysrc = false ->
        fteik3d slow dz dx dy zsrc xsrc ysrc nsweep grad = Raise ValueError) /\
       (inside3d slow dz dx dy zsrc xsrc ysrc = true ->
        exists r : arr T * arr T * T, fteik3d slow dz dx dy zsrc xsrc ysrc nsweep grad = Ok r).
Proof. exact @Solve3dProofs.fteik3d_raises_iff. Qed.

(* the work grid has one more node than the model has cells along each axis and is well formed, through the whole source initialisation *)
Theorem C03_initial_grid_shape_2d :
  forall (T : Type) (H : Num T) (slow : arr T) (dz dx zsrc xsrc : T) (grad : bool),
       0 <= dim slow 0 ->
       0 <= dim slow 1 -> Sweep2dProofs.okT (dim slow 0 + 1) (dim slow 1 + 1) (i_tt slow dz dx zsrc xsrc grad).
Proof. exact @Solve2dProofs.fteik2d_init_okT. Qed.

(* 3D *)
Theorem C03_initial_grid_shape_3d :
  forall (T : Type) (H : Num T) (slow : arr T) (dz dx dy zsrc xsrc ysrc : T),
       0 <= dim slow 0 ->
       0 <= dim slow 1 ->
       0 <= dim slow 2 -> okT (dim slow 0 + 1) (dim slow 1 + 1) (dim slow 2 + 1) (tt0_3d slow dz dx dy zsrc xsrc ysrc).
Proof. exact @Solve3dProofs.fteik3d_init_okT. Qed.

(* hence every returned traveltime grid has that shape (okT conclusions) and later sweeps only lower it *)
Theorem C03_result_grid_shape_2d :
  forall (T : Type) (H : Num T) (slow : arr T) (dz dx zsrc xsrc : T),
       NumLaws T ->
       forall (grad : bool) (n m : Z) (ttn Gn : arr T) (vn : T) (ttm Gm : arr T) (vm : T),
       0 <= dim slow 0 ->
       0 <= dim slow 1 ->
       n <= m ->
       fteik2d slow dz dx zsrc xsrc n grad = Ok (ttn, Gn, vn) ->
       fteik2d slow dz dx zsrc xsrc m grad = Ok (ttm, Gm, vm) ->
       Sweep2dProofs.okT (dim slow 0 + 1) (dim slow 1 + 1) ttn /\
       Sweep2dProofs.okT (dim slow 0 + 1) (dim slow 1 + 1) ttm /\
       Sweep2dProofs.leT (dim slow 0 + 1) (dim slow 1 + 1) ttm ttn.
Proof. exact @Solve2dProofs.fteik2d_monotone_in_nsweep_le. Qed.

Print Assumptions C03_solve2d_raises_iff_source_outside.
Print Assumptions C03_solve3d_raises_iff_source_outside.
Print Assumptions C03_initial_grid_shape_2d.
Print Assumptions C03_initial_grid_shape_3d.
Print Assumptions C03_result_grid_shape_2d.
