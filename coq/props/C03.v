(* C03  Solver total and sane: what is proved about the generated solver for all inputs (raise contract, shapes, 2D non-negativity in exact arithmetic); finite / bounded / zero-only-at-source and 3D non-negativity are examined on the implementation
   Only statements and `exact`: the proofs are in proofs/.  Written by tools/mkprops.py from Coq's own printing of the
   lemma statements; every statement is in full below so that it cannot be weakened without this file changing. *)
From Coq Require Import ZArith List Bool PrimFloat.
From FT.lib Require Import Num Arr ArrLemmas Lower NumArr.
From FT.gen Require Import Common Fteik2d Fteik3d.
From Coq Require Import Reals.
From FT.proofs Require Import Sweep2dProofs Sweep3dProofs Solve2dProofs Solve3dProofs.
From FT.proofs Require OperatorsR NonNeg2d Pos2d NonNeg3d Pos3d GridPath SourceCell ApiGenEq DivSafe.
Import ListNotations.
Open Scope Z_scope.

(* the 2D solver raises ValueError exactly when the code's own domain test fails (comparisons as written: a NaN coordinate fails it) and otherwise returns; every numeric instance *)
Theorem C03_solve2d_raises_iff_source_outside :
  forall (T : Type) (H : Num T) (slow : arr T) (dz dx zsrc xsrc : T) (nsweep : Z) (grad : bool),
       (inside2d slow dz dx zsrc xsrc = false -> fteik2d slow dz dx zsrc xsrc nsweep grad = Raise ValueError) /\
       (inside2d slow dz dx zsrc xsrc = true ->
        exists r : arr T * arr T * T, fteik2d slow dz dx zsrc xsrc nsweep grad = Ok r).
Proof. exact @Solve2dProofs.fteik2d_raises_iff. Qed.

(* 3D *)
Theorem C03_solve3d_raises_iff_source_outside :
  forall (T : Type) (H : Num T) (slow : arr T) (dz dx dy zsrc xsrc ysrc : T) (nsweep : Z) (grad : bool),
       (inside3d slow dz dx dy zsrc xsrc ysrc = false ->
        fteik3d slow dz dx dy zsrc xsrc ysrc nsweep grad = Raise ValueError) /\
       (inside3d slow dz dx dy zsrc xsrc ysrc = true ->
        exists r : arr T * arr T * T, fteik3d slow dz dx dy zsrc xsrc ysrc nsweep grad = Ok r).
Proof. exact @Solve3dProofs.fteik3d_raises_iff. Qed.

(* the work grid has one more node than the model has cells along each axis and is well formed, through the whole source initialisation *)
Theorem C03_initial_grid_shape_2d :
  forall (T : Type) (H : Num T) (slow : arr T) (dz dx zsrc xsrc : T) (grad : bool),
       0 <= dim slow 0 ->
       0 <= dim slow 1 -> Sweep2dProofs.okT (dim slow 0 + 1) (dim slow 1 + 1) (i_tt slow dz dx zsrc xsrc grad).
Proof. exact @Solve2dProofs.fteik2d_init_okT. Qed.

(* 3D *)
Theorem C03_initial_grid_shape_3d :
  forall (T : Type) (H : Num T) (slow : arr T) (dz dx dy zsrc xsrc ysrc : T),
       0 <= dim slow 0 ->
       0 <= dim slow 1 ->
       0 <= dim slow 2 -> okT (dim slow 0 + 1) (dim slow 1 + 1) (dim slow 2 + 1) (tt0_3d slow dz dx dy zsrc xsrc ysrc).
Proof. exact @Solve3dProofs.fteik3d_init_okT. Qed.

(* hence every returned traveltime grid has that shape (okT conclusions) and later sweeps only lower it *)
Theorem C03_result_grid_shape_2d :
  forall (T : Type) (H : Num T) (slow : arr T) (dz dx zsrc xsrc : T),
       NumLaws T ->
       forall (grad : bool) (n m : Z) (ttn Gn : arr T) (vn : T) (ttm Gm : arr T) (vm : T),
       0 <= dim slow 0 ->
       0 <= dim slow 1 ->
       n <= m ->
       fteik2d slow dz dx zsrc xsrc n grad = Ok (ttn, Gn, vn) ->
       fteik2d slow dz dx zsrc xsrc m grad = Ok (ttm, Gm, vm) ->
       Sweep2dProofs.okT (dim slow 0 + 1) (dim slow 1 + 1) ttn /\
       Sweep2dProofs.okT (dim slow 0 + 1) (dim slow 1 + 1) ttm /\
       Sweep2dProofs.leT (dim slow 0 + 1) (dim slow 1 + 1) ttm ttn.
Proof. exact @Solve2dProofs.fteik2d_monotone_in_nsweep_le. Qed.

(* exact arithmetic: under its admissibility test the 4-point operator returns at least the diagonal neighbour's time (its radicand is non-negative there: four_point_radicand_nonneg) *)
Theorem C03_four_point_operator_causal :
  forall tv te tev vref dz dx : R,
       (0 < dz)%R ->
       (0 < dx)%R ->
       (0 <= vref)%R ->
       (tv <= te + dx * vref)%R ->
       (te <= tv + dz * vref)%R -> (tev <= OperatorsR.four_point tv te tev vref (1 / dz / dz) (1 / dx / dx))%R.
Proof. exact @NonNeg2d.four_point_ge_tev. Qed.

(* one 2D node update keeps every traveltime >= 0 (slowness >= 0, spacings > 0; any indices, signs, shapes) *)
Theorem C03_node_update_nonneg_2d :
  forall (tt : arr R) (ttsgn : arr Z) (slow : arr R) (dz dx zsi xsi zsa xsa vzero : R)
         (i j sgnvz sgnvx sgntz sgntx nz nx : Z) (grad : bool),
       (0 < dz)%R ->
       (0 < dx)%R ->
       NonNeg2d.nonneg slow ->
       NonNeg2d.nonneg tt ->
       NonNeg2d.nonneg
         (fst
            (Fteik2d.sweep tt ttsgn slow (dz, dx, (1 / dz)%R, (1 / dx)%R, (1 / dz / dz)%R, (1 / dx / dx)%R) zsi xsi zsa
               xsa vzero i j sgnvz sgnvx sgntz sgntx nz nx grad)).
Proof. exact @NonNeg2d.sweep_nonneg. Qed.

(* a whole pass *)
Theorem C03_pass_nonneg_2d :
  forall (tt : arr R) (ttsgn : arr Z) (slow : arr R) (dz dx zsi xsi zsa xsa vzero : R) (nz nx : Z) (grad : bool),
       (0 < dz)%R ->
       (0 < dx)%R ->
       NonNeg2d.nonneg slow ->
       NonNeg2d.nonneg tt -> NonNeg2d.nonneg (fst (sweep2d tt ttsgn slow dz dx zsi xsi zsa xsa vzero nz nx grad)).
Proof. exact @NonNeg2d.sweep2d_nonneg. Qed.

(* the state after the source initialisation: every entry is the placeholder, 0, an analytic time or a time that passed the admissibility guard against a non-negative neighbour (fix fdc5767) *)
Theorem C03_initialisation_nonneg_2d :
  forall (slow : arr R) (dz dx zsrc xsrc : R) (grad : bool),
       NonNeg2d.nonneg slow ->
       NonNeg2d.nonneg (i_tt slow dz dx zsrc xsrc grad) /\ (0 <= i_vzero slow dz dx zsrc xsrc grad)%R.
Proof. exact @NonNeg2d.init_nonneg. Qed.

(* every traveltime returned by the 2D solver is >= 0 and so is the reported source-cell slowness, for every model with non-negative slowness, every source, nsweep and flag *)
Theorem C03_solve2d_nonneg :
  forall (slow : arr R) (dz dx zsrc xsrc : R) (nsweep : Z) (grad : bool) (tt ttgrad : arr R) (vzero : R),
       (0 < dz)%R ->
       (0 < dx)%R ->
       wf slow ->
       1 <= dim slow 0 ->
       1 <= dim slow 1 ->
       shape slow = [dim slow 0; dim slow 1] ->
       (forall i j : Z, 0 <= i < dim slow 0 -> 0 <= j < dim slow 1 -> (0 <= get 0 slow [i; j])%R) ->
       fteik2d slow dz dx zsrc xsrc nsweep grad = Ok (tt, ttgrad, vzero) ->
       (forall i j : Z, 0 <= i <= dim slow 0 -> 0 <= j <= dim slow 1 -> (0 <= get 0 tt [i; j])%R) /\ (0 <= vzero)%R.
Proof. exact @NonNeg2d.fteik2d_nonneg_get. Qed.

(* with positive slowness the 4-point operator is strictly later than the diagonal neighbour *)
Theorem C03_four_point_operator_strictly_causal :
  forall tv te tev vref dz dx : R,
       (0 < dz)%R ->
       (0 < dx)%R ->
       (0 < vref)%R ->
       (tv <= te + dx * vref)%R ->
       (te <= tv + dz * vref)%R -> (tev < OperatorsR.four_point tv te tev vref (1 / dz / dz) (1 / dx / dx))%R.
Proof. exact @Pos2d.four_point_gt_tev. Qed.

(* positive slowness: a returned traveltime is 0 exactly at the node where the solver's own frame puts the source (i_zsa, i_xsa: the source in grid units, snapped to a node when within eps); every other node is > 0 *)
Theorem C03_solve2d_zero_iff_source_node :
  forall (slow : arr R) (dz dx zsrc xsrc : R) (nsweep : Z) (grad : bool) (tt ttgrad : arr R) (vzero : R),
       (0 < dz)%R ->
       (0 < dx)%R ->
       wf slow ->
       1 <= dim slow 0 ->
       1 <= dim slow 1 ->
       shape slow = [dim slow 0; dim slow 1] ->
       (forall i j : Z, 0 <= i < dim slow 0 -> 0 <= j < dim slow 1 -> (0 < get 0 slow [i; j])%R) ->
       fteik2d slow dz dx zsrc xsrc nsweep grad = Ok (tt, ttgrad, vzero) ->
       forall i j : Z,
       0 <= i <= dim slow 0 ->
       0 <= j <= dim slow 1 ->
       get 0%R tt [i; j] = 0%R <-> IZR i = i_zsa slow dz dx zsrc xsrc grad /\ IZR j = i_xsa slow dz dx zsrc xsrc grad.
Proof. exact @Pos2d.fteik2d_zero_iff_source. Qed.

(* at most one node holds 0 *)
Theorem C03_solve2d_at_most_one_zero :
  forall (slow : arr R) (dz dx zsrc xsrc : R) (nsweep : Z) (grad : bool) (tt ttgrad : arr R) (vzero : R),
       (0 < dz)%R ->
       (0 < dx)%R ->
       wf slow ->
       1 <= dim slow 0 ->
       1 <= dim slow 1 ->
       shape slow = [dim slow 0; dim slow 1] ->
       (forall i j : Z, 0 <= i < dim slow 0 -> 0 <= j < dim slow 1 -> (0 < get 0 slow [i; j])%R) ->
       fteik2d slow dz dx zsrc xsrc nsweep grad = Ok (tt, ttgrad, vzero) ->
       forall i j i' j' : Z,
       0 <= i <= dim slow 0 ->
       0 <= j <= dim slow 1 ->
       0 <= i' <= dim slow 0 ->
       0 <= j' <= dim slow 1 -> get 0%R tt [i; j] = 0%R -> get 0%R tt [i'; j'] = 0%R -> i = i' /\ j = j'.
Proof. exact @Pos2d.fteik2d_at_most_one_zero. Qed.

(* in terms of the inputs only: a zero node is within 1e-15 of a cell of the given source *)
Theorem C03_solve2d_zero_near_source :
  forall (slow : arr R) (dz dx zsrc xsrc : R) (nsweep : Z) (grad : bool) (tt ttgrad : arr R) (vzero : R),
       (0 < dz)%R ->
       (0 < dx)%R ->
       wf slow ->
       1 <= dim slow 0 ->
       1 <= dim slow 1 ->
       shape slow = [dim slow 0; dim slow 1] ->
       (forall i j : Z, 0 <= i < dim slow 0 -> 0 <= j < dim slow 1 -> (0 < get 0 slow [i; j])%R) ->
       fteik2d slow dz dx zsrc xsrc nsweep grad = Ok (tt, ttgrad, vzero) ->
       forall i j : Z,
       0 <= i <= dim slow 0 ->
       0 <= j <= dim slow 1 ->
       get 0%R tt [i; j] = 0%R ->
       (Rabs (IZR i - zsrc / dz) <= 1 / 1000000000000000)%R /\ (Rabs (IZR j - xsrc / dx) <= 1 / 1000000000000000)%R.
Proof. exact @Pos2d.fteik2d_zero_near_source. Qed.

(* tie: the generated 3D node update writes node_value true = min(t0, 1D, 2D, guarded 8-point candidate), every numeric instance *)
Theorem C03_node_update_3d_value :
  forall (T : Type) (H : Num T) (tt : arr T) (ttsgn : arr Z) (slow : arr T)
         (dz dx dy dz2i dx2i dy2i dzxi dzyi dxyi dsum : T) (i j k sgnvz sgnvx sgnvy sgntz sgntx sgnty nz nx ny : Z)
         (grad : bool),
       fst
         (sweep tt ttsgn slow (dz, dx, dy, dz2i, dx2i, dy2i, dzxi, dzyi, dxyi, dsum) i j k sgnvz sgnvx sgnvy sgntz
            sgntx sgnty nz nx ny grad) =
       set tt [i; j; k]
         (NonNeg3d.node_value true tt slow dz dx dy dz2i dx2i dy2i dzxi dzyi dxyi dsum i j k sgnvz sgnvx sgnvy sgntz
            sgntx sgnty nz nx ny).
Proof. exact @NonNeg3d.sweep_tt_eq_guarded. Qed.

(* one 3D node update keeps every traveltime >= 0, all spacings (the 8-point candidate is discarded when earlier than the diagonally opposite corner: fix 7b708d7) *)
Theorem C03_node_update_nonneg_3d :
  forall (tt : arr R) (ttsgn : arr Z) (slow : arr R) (dz dx dy : R)
         (i j k sgnvz sgnvx sgnvy sgntz sgntx sgnty nz nx ny : Z) (grad : bool),
       (0 < dz)%R ->
       (0 < dx)%R ->
       (0 < dy)%R ->
       NonNeg2d.nonneg slow ->
       NonNeg2d.nonneg tt ->
       NonNeg2d.nonneg
         (fst
            (sweep tt ttsgn slow (SweepDargs.dargs3 dz dx dy) i j k sgnvz sgnvx sgnvy sgntz sgntx sgnty nz nx ny grad)).
Proof. exact @NonNeg3d.sweep_nonneg_3d. Qed.

(* a whole 3D pass *)
Theorem C03_pass_nonneg_3d :
  forall (tt : arr R) (ttsgn : arr Z) (slow : arr R) (dz dx dy : R) (nz nx ny : Z) (grad : bool),
       (0 < dz)%R ->
       (0 < dx)%R ->
       (0 < dy)%R ->
       NonNeg2d.nonneg slow ->
       NonNeg2d.nonneg tt -> NonNeg2d.nonneg (fst (sweep3d tt ttsgn slow dz dx dy nz nx ny grad)).
Proof. exact @NonNeg3d.sweep3d_nonneg. Qed.

(* every traveltime returned by the 3D solver is >= 0, and the reported source-cell slowness, for every model with non-negative slowness, positive spacings, every source, nsweep and flag *)
Theorem C03_solve3d_nonneg :
  forall (slow : arr R) (dz dx dy zsrc xsrc ysrc : R) (nsweep : Z) (grad : bool) (tt ttgrad : arr R) (vzero : R),
       (0 < dz)%R ->
       (0 < dx)%R ->
       (0 < dy)%R ->
       wf slow ->
       shape slow = [dim slow 0; dim slow 1; dim slow 2] ->
       (forall i j k : Z,
        0 <= i < dim slow 0 -> 0 <= j < dim slow 1 -> 0 <= k < dim slow 2 -> (0 <= get 0 slow [i; j; k])%R) ->
       fteik3d slow dz dx dy zsrc xsrc ysrc nsweep grad = Ok (tt, ttgrad, vzero) ->
       (forall i j k : Z,
        0 <= i <= dim slow 0 -> 0 <= j <= dim slow 1 -> 0 <= k <= dim slow 2 -> (0 <= get 0 tt [i; j; k])%R) /\
       (0 <= vzero)%R.
Proof. exact @NonNeg3d.fteik3d_nonneg_get. Qed.

(* record of the defect repaired by 7b708d7: the UNGUARDED 8-point operator admits non-negative neighbour times passing its own test with a negative result exactly when the three spacings are not all equal *)
Theorem C03_eight_point_unguarded_negative_iff_noncubic :
  forall p q r : R,
       (0 < p)%R ->
       (0 < q)%R ->
       (0 < r)%R ->
       (exists tv te tn tev ten tnv tnve vref : R,
          (0 <= tv)%R /\
          (0 <= te)%R /\
          (0 <= tn)%R /\
          (0 <= tev)%R /\
          (0 <= ten)%R /\
          (0 <= tnv)%R /\
          (0 <= tnve)%R /\
          (0 <= vref)%R /\
          (NonNeg3d.op3_t3 tv te tn tev ten tnv tnve (p * q) (p * r) (q * r) <= NonNeg3d.op3_t2 vref (p + q + r))%R /\
          (NonNeg3d.op3 tv te tn tev ten tnv tnve vref p q r (p * q) (p * r) (q * r) (p + q + r) < 0)%R) <->
       ~ (p = q /\ q = r).
Proof. exact @NonNeg3d.op3_negative_iff_noncubic. Qed.

(* node-level witness over R for the pre-fix update: dz = dy = 1, dx = 1/2 writes -3/10 *)
Theorem C03_node_update_unguarded_refuted :
  ((0 < 1)%R /\
        (0 < 1 / 2)%R /\
        NonNeg2d.nonneg NonNeg3d.cx_slow /\
        NonNeg2d.nonneg NonNeg3d.cx_tt /\ wf NonNeg3d.cx_tt /\ shape NonNeg3d.cx_tt = [2; 2; 2]) /\
       NonNeg3d.node_value_sp false NonNeg3d.cx_tt NonNeg3d.cx_slow 1%R (1 / 2)%R 1%R 1 1 1 1 1 1 1 1 1 2 2 2 =
       (-3 / 10)%R.
Proof. exact @NonNeg3d.node_unguarded_refuted. Qed.

(* on cubic cells the guarded and the unguarded node values coincide: the fix changes nothing there *)
Theorem C03_eight_point_guard_noop_cubic :
  forall (tt slow : arr R) (d : R) (i j k sgnvz sgnvx sgnvy sgntz sgntx sgnty nz nx ny : Z),
       (0 < d)%R ->
       NonNeg3d.node_value_sp true tt slow d d d i j k sgnvz sgnvx sgnvy sgntz sgntx sgnty nz nx ny =
       NonNeg3d.node_value_sp false tt slow d d d i j k sgnvz sgnvx sgnvy sgntz sgntx sgnty nz nx ny.
Proof. exact @NonNeg3d.t3d_guard_noop_cubic. Qed.

(* a converged 2D solution (one more pass changes nothing) satisfies T(p) <= T(q) + smax * Manhattan grid distance for any two nodes *)
Theorem C03_converged_2d_below_grid_path_bound :
  forall (slow : arr R) (dz dx zsrc xsrc smax : R),
       (0 < dz)%R ->
       (0 < dx)%R ->
       1 <= dim slow 0 ->
       1 <= dim slow 1 ->
       (forall i j : Z, 0 <= i < dim slow 0 -> 0 <= j < dim slow 1 -> (get 0 slow [i; j] <= smax)%R) ->
       forall (nsweep : Z) (grad : bool) (tt G : arr R) (v : R) (tt' G' : arr R) (v' : R),
       0 <= nsweep ->
       fteik2d slow dz dx zsrc xsrc nsweep grad = Ok (tt, G, v) ->
       fteik2d slow dz dx zsrc xsrc (nsweep + 1) grad = Ok (tt', G', v') ->
       tt' = tt ->
       forall i j i' j' : Z,
       0 <= i <= dim slow 0 ->
       0 <= j <= dim slow 1 ->
       0 <= i' <= dim slow 0 ->
       0 <= j' <= dim slow 1 ->
       (get 0 tt [i'; j'] <= get 0 tt [i; j] + smax * (dz * IZR (Z.abs (i' - i)) + dx * IZR (Z.abs (j' - j))))%R.
Proof. exact @GridPath.fteik2d_converged_grid_bound. Qed.

(* node source: 0 <= T(i,j) <= smax * (dz|i-kz| + dx|j-kx|) - the slowest grid-path bound *)
Theorem C03_converged_2d_node_source_bound :
  forall (slow : arr R) (dz dx zsrc xsrc smax : R),
       (0 < dz)%R ->
       (0 < dx)%R ->
       1 <= dim slow 0 ->
       1 <= dim slow 1 ->
       (forall i j : Z, 0 <= i < dim slow 0 -> 0 <= j < dim slow 1 -> (get 0 slow [i; j] <= smax)%R) ->
       wf slow ->
       shape slow = [dim slow 0; dim slow 1] ->
       (forall i j : Z, 0 <= i < dim slow 0 -> 0 <= j < dim slow 1 -> (0 < get 0 slow [i; j])%R) ->
       forall (nsweep : Z) (grad : bool) (tt G : arr R) (v : R) (tt' G' : arr R) (v' : R) (kz kx : Z),
       0 <= nsweep ->
       fteik2d slow dz dx zsrc xsrc nsweep grad = Ok (tt, G, v) ->
       fteik2d slow dz dx zsrc xsrc (nsweep + 1) grad = Ok (tt', G', v') ->
       tt' = tt ->
       zsrc = (dz * IZR kz)%R ->
       xsrc = (dx * IZR kx)%R ->
       forall i j : Z,
       0 <= i <= dim slow 0 ->
       0 <= j <= dim slow 1 ->
       (0 <= get 0 tt [i; j] <= smax * (dz * IZR (Z.abs (i - kz)) + dx * IZR (Z.abs (j - kx))))%R.
Proof. exact @GridPath.fteik2d_converged_node_source_inputs. Qed.

(* off-node source: T(i,j) <= vzero * distance(source, corner) + smax * Manhattan(corner, node) for each corner of the source cell *)
Theorem C03_converged_2d_off_node_bound :
  forall (slow : arr R) (dz dx zsrc xsrc smax : R),
       (0 < dz)%R ->
       (0 < dx)%R ->
       1 <= dim slow 0 ->
       1 <= dim slow 1 ->
       (forall i j : Z, 0 <= i < dim slow 0 -> 0 <= j < dim slow 1 -> (get 0 slow [i; j] <= smax)%R) ->
       forall (nsweep : Z) (grad : bool) (tt G : arr R) (v : R) (tt' G' : arr R) (v' : R),
       0 <= nsweep ->
       fteik2d slow dz dx zsrc xsrc nsweep grad = Ok (tt, G, v) ->
       fteik2d slow dz dx zsrc xsrc (nsweep + 1) grad = Ok (tt', G', v') ->
       tt' = tt ->
       i_iflag slow dz dx zsrc xsrc grad = 2 ->
       forall ci cj : Z,
       i_zsi slow dz dx zsrc xsrc grad <= ci <= i_zsi slow dz dx zsrc xsrc grad + 1 ->
       i_xsi slow dz dx zsrc xsrc grad <= cj <= i_xsi slow dz dx zsrc xsrc grad + 1 ->
       forall i j : Z,
       0 <= i <= dim slow 0 ->
       0 <= j <= dim slow 1 ->
       (get 0 tt [i; j] <=
        v *
        sqrt
          ((dz * (IZR ci - i_zsa slow dz dx zsrc xsrc grad)) ^ 2 +
           (dx * (IZR cj - i_xsa slow dz dx zsrc xsrc grad)) ^ 2) +
        smax * (dz * IZR (Z.abs (i - ci)) + dx * IZR (Z.abs (j - cj))))%R.
Proof. exact @GridPath.fteik2d_converged_off_node_corner. Qed.

(* 3D node source *)
Theorem C03_converged_3d_node_source_bound :
  forall (slow : arr R) (dz dx dy zsrc xsrc ysrc smax : R),
       (0 < dz)%R ->
       (0 < dx)%R ->
       (0 < dy)%R ->
       1 <= dim slow 0 ->
       1 <= dim slow 1 ->
       1 <= dim slow 2 ->
       (forall i j k : Z,
        0 <= i < dim slow 0 -> 0 <= j < dim slow 1 -> 0 <= k < dim slow 2 -> (get 0 slow [i; j; k] <= smax)%R) ->
       (forall i j k : Z,
        0 <= i < dim slow 0 -> 0 <= j < dim slow 1 -> 0 <= k < dim slow 2 -> (0 < get 0 slow [i; j; k])%R) ->
       forall (nsweep : Z) (grad : bool) (tt G : arr R) (v : R) (tt' G' : arr R) (v' : R) (kz kx ky : Z),
       0 <= nsweep ->
       fteik3d slow dz dx dy zsrc xsrc ysrc nsweep grad = Ok (tt, G, v) ->
       fteik3d slow dz dx dy zsrc xsrc ysrc (nsweep + 1) grad = Ok (tt', G', v') ->
       tt' = tt ->
       zsrc = (dz * IZR kz)%R ->
       xsrc = (dx * IZR kx)%R ->
       ysrc = (dy * IZR ky)%R ->
       forall i j k : Z,
       0 <= i <= dim slow 0 ->
       0 <= j <= dim slow 1 ->
       0 <= k <= dim slow 2 ->
       (get 0 tt [i; j; k] <=
        smax * (dz * IZR (Z.abs (i - kz)) + dx * IZR (Z.abs (j - kx)) + dy * IZR (Z.abs (k - ky))))%R.
Proof. exact @GridPath.fteik3d_converged_node_source. Qed.

(* 3D, positive slowness: a node coinciding with the source (no snapping in 3D: all three coordinates integral in grid units) holds 0 *)
Theorem C03_solve3d_zero_at_source :
  forall (slow : arr R) (dz dx dy zsrc xsrc ysrc : R) (nsweep : Z) (grad : bool) (tt ttgrad : arr R) (vzero : R),
       (0 < dz)%R ->
       (0 < dx)%R ->
       (0 < dy)%R ->
       wf slow ->
       1 <= dim slow 0 ->
       1 <= dim slow 1 ->
       1 <= dim slow 2 ->
       shape slow = [dim slow 0; dim slow 1; dim slow 2] ->
       (forall i j k : Z,
        0 <= i < dim slow 0 -> 0 <= j < dim slow 1 -> 0 <= k < dim slow 2 -> (0 < get 0 slow [i; j; k])%R) ->
       fteik3d slow dz dx dy zsrc xsrc ysrc nsweep grad = Ok (tt, ttgrad, vzero) ->
       forall i j k : Z,
       0 <= i <= dim slow 0 ->
       0 <= j <= dim slow 1 ->
       0 <= k <= dim slow 2 ->
       IZR i = (zsrc / dz)%R -> IZR j = (xsrc / dx)%R -> IZR k = (ysrc / dy)%R -> get 0%R tt [i; j; k] = 0%R.
Proof. exact @Pos3d.fteik3d_zero_at_source. Qed.

(* a source that is not on a node: every returned traveltime is > 0 *)
Theorem C03_solve3d_positive_off_node :
  forall (slow : arr R) (dz dx dy zsrc xsrc ysrc : R) (nsweep : Z) (grad : bool) (tt ttgrad : arr R) (vzero : R),
       (0 < dz)%R ->
       (0 < dx)%R ->
       (0 < dy)%R ->
       wf slow ->
       1 <= dim slow 0 ->
       1 <= dim slow 1 ->
       1 <= dim slow 2 ->
       shape slow = [dim slow 0; dim slow 1; dim slow 2] ->
       (forall i j k : Z,
        0 <= i < dim slow 0 -> 0 <= j < dim slow 1 -> 0 <= k < dim slow 2 -> (0 < get 0 slow [i; j; k])%R) ->
       fteik3d slow dz dx dy zsrc xsrc ysrc nsweep grad = Ok (tt, ttgrad, vzero) ->
       ~ (exists kz kx ky : Z, (zsrc / dz)%R = IZR kz /\ (xsrc / dx)%R = IZR kx /\ (ysrc / dy)%R = IZR ky) ->
       forall i j k : Z,
       0 <= i <= dim slow 0 -> 0 <= j <= dim slow 1 -> 0 <= k <= dim slow 2 -> (0 < get 0 tt [i; j; k])%R.
Proof. exact @Pos3d.fteik3d_pos_off_node. Qed.

(* full statement available for 3D: either 0 occurs only at the source node, or one of the <= 8 nodes whose cube-diagonal neighbour is the source holds 0 (the accepted 8-point candidate is only >= its diagonal corner, and 0 < 0 does not trip the guard) *)
Theorem C03_solve3d_zero_dichotomy :
  forall (slow : arr R) (dz dx dy zsrc xsrc ysrc : R) (nsweep : Z) (grad : bool) (tt ttgrad : arr R) (vzero : R),
       (0 < dz)%R ->
       (0 < dx)%R ->
       (0 < dy)%R ->
       wf slow ->
       1 <= dim slow 0 ->
       1 <= dim slow 1 ->
       1 <= dim slow 2 ->
       shape slow = [dim slow 0; dim slow 1; dim slow 2] ->
       (forall i j k : Z,
        0 <= i < dim slow 0 -> 0 <= j < dim slow 1 -> 0 <= k < dim slow 2 -> (0 < get 0 slow [i; j; k])%R) ->
       fteik3d slow dz dx dy zsrc xsrc ysrc nsweep grad = Ok (tt, ttgrad, vzero) ->
       (forall i j k : Z,
        0 <= i <= dim slow 0 ->
        0 <= j <= dim slow 1 ->
        0 <= k <= dim slow 2 ->
        get 0%R tt [i; j; k] = 0%R -> IZR i = (zsrc / dz)%R /\ IZR j = (xsrc / dx)%R /\ IZR k = (ysrc / dy)%R) \/
       (exists i j k a b c : Z,
          0 <= i <= dim slow 0 /\
          0 <= j <= dim slow 1 /\
          0 <= k <= dim slow 2 /\
          Pos3d.pm1 a /\
          Pos3d.pm1 b /\
          Pos3d.pm1 c /\
          IZR (i - a) = (zsrc / dz)%R /\
          IZR (j - b) = (xsrc / dx)%R /\ IZR (k - c) = (ysrc / dy)%R /\ get 0%R tt [i; j; k] = 0%R).
Proof. exact @Pos3d.fteik3d_zero_dichotomy. Qed.

(* PARTIAL: zero only at the source, under the hypothesis (on the returned grid) that none of those diagonal nodes holds 0; the hypothesis is also necessary (fteik3d_zero_only_at_source_iff_diag) *)
Theorem C03_solve3d_zero_only_at_source_partial :
  forall (slow : arr R) (dz dx dy zsrc xsrc ysrc : R) (nsweep : Z) (grad : bool) (tt ttgrad : arr R) (vzero : R),
       (0 < dz)%R ->
       (0 < dx)%R ->
       (0 < dy)%R ->
       wf slow ->
       1 <= dim slow 0 ->
       1 <= dim slow 1 ->
       1 <= dim slow 2 ->
       shape slow = [dim slow 0; dim slow 1; dim slow 2] ->
       (forall i j k : Z,
        0 <= i < dim slow 0 -> 0 <= j < dim slow 1 -> 0 <= k < dim slow 2 -> (0 < get 0 slow [i; j; k])%R) ->
       fteik3d slow dz dx dy zsrc xsrc ysrc nsweep grad = Ok (tt, ttgrad, vzero) ->
       (forall i j k a b c : Z,
        0 <= i <= dim slow 0 ->
        0 <= j <= dim slow 1 ->
        0 <= k <= dim slow 2 ->
        Pos3d.pm1 a ->
        Pos3d.pm1 b ->
        Pos3d.pm1 c ->
        IZR (i - a) = (zsrc / dz)%R ->
        IZR (j - b) = (xsrc / dx)%R -> IZR (k - c) = (ysrc / dy)%R -> get 0%R tt [i; j; k] <> 0%R) ->
       forall i j k : Z,
       0 <= i <= dim slow 0 ->
       0 <= j <= dim slow 1 ->
       0 <= k <= dim slow 2 ->
       get 0%R tt [i; j; k] = 0%R -> IZR i = (zsrc / dz)%R /\ IZR j = (xsrc / dx)%R /\ IZR k = (ysrc / dy)%R.
Proof. exact @Pos3d.fteik3d_zero_only_at_source_partial. Qed.

(* the unconditional 3D clause is REFUTED in exact arithmetic by a complete solve - slowness 2e5 / 9e5 on 1x2x1 cells of (1,4,1): times reach the placeholder 1e5 (known finding F11), an unvisited node passes for a time and the 8-point operator cancels to exactly 0 at node (1,0,1); binary64 kernel call reproduces it (Pos3d.Binary64), the public API does not (1/(1/2e5) is not 2e5) *)
Theorem C03_solve3d_zero_only_at_source_refuted :
  ((0 < 1)%R /\
        (0 < 4)%R /\
        wf Pos3d.cxs /\
        1 <= dim Pos3d.cxs 0 /\
        1 <= dim Pos3d.cxs 1 /\
        1 <= dim Pos3d.cxs 2 /\
        shape Pos3d.cxs = [dim Pos3d.cxs 0; dim Pos3d.cxs 1; dim Pos3d.cxs 2] /\
        (forall i j k : Z,
         0 <= i < dim Pos3d.cxs 0 ->
         0 <= j < dim Pos3d.cxs 1 -> 0 <= k < dim Pos3d.cxs 2 -> (0 < get 0 Pos3d.cxs [i; j; k])%R)) /\
       (forall (nsweep : Z) (grad : bool),
        1 <= nsweep ->
        exists (tt G : arr R) (v : R),
          fteik3d Pos3d.cxs 1%R 4%R 1%R 0%R 4%R 0%R nsweep grad = Ok (tt, G, v) /\
          0 <= 1 <= dim Pos3d.cxs 0 /\
          0 <= 0 <= dim Pos3d.cxs 1 /\
          0 <= 1 <= dim Pos3d.cxs 2 /\
          get 0%R tt [1; 0; 1] = 0%R /\
          ~ (1%R = (0 / 1)%R /\ 0%R = (4 / 4)%R /\ 1%R = (0 / 1)%R) /\
          (0%R = (0 / 1)%R /\ 1%R = (4 / 4)%R /\ 0%R = (0 / 1)%R) /\ get 0%R tt [0; 1; 0] = 0%R).
Proof. exact @Pos3d.fteik3d_zero_only_at_source_refuted. Qed.

(* every numeric instance: the reported vzero is slow[min(trunc(zsrc/dz), nz-1), min(trunc(xsrc/dx), nx-1)] - the code's own source-cell expression - whenever the 2D solver returns *)
Theorem C03_vzero_is_source_cell_slowness_2d :
  forall (T : Type) (H : Num T) (slow : arr T) (dz dx zsrc xsrc : T) (nsweep : Z) (grad : bool)
         (tt ttgrad : arr T) (vzero : T),
       fteik2d slow dz dx zsrc xsrc nsweep grad = Ok (tt, ttgrad, vzero) ->
       let nz := dim slow 0 in
       let nx := dim slow 1 in
       let zsi := Z.min (ntrunc (ndiv zsrc dz)) (nz - 1) in
       let xsi := Z.min (ntrunc (ndiv xsrc dx)) (nx - 1) in vzero = get (nofZ 0) slow [zsi; xsi].
Proof. exact @SourceCell.fteik2d_vzero_is_source_cell. Qed.

(* and does not depend on nsweep or on the gradient flag *)
Theorem C03_vzero_independent_of_options_2d :
  forall (T : Type) (H : Num T) (slow : arr T) (dz dx zsrc xsrc : T) (n1 : Z) (g1 : bool) 
         (n2 : Z) (g2 : bool) (tt1 G1 : arr T) (v1 : T) (tt2 G2 : arr T) (v2 : T),
       fteik2d slow dz dx zsrc xsrc n1 g1 = Ok (tt1, G1, v1) ->
       fteik2d slow dz dx zsrc xsrc n2 g2 = Ok (tt2, G2, v2) -> v1 = v2.
Proof. exact @SourceCell.fteik2d_vzero_indep. Qed.

(* 3D *)
Theorem C03_vzero_is_source_cell_slowness_3d :
  forall (T : Type) (H : Num T) (slow : arr T) (dz dx dy zsrc xsrc ysrc : T) (nsweep : Z) 
         (grad : bool) (tt ttgrad : arr T) (vzero : T),
       fteik3d slow dz dx dy zsrc xsrc ysrc nsweep grad = Ok (tt, ttgrad, vzero) ->
       let nz := dim slow 0 in
       let nx := dim slow 1 in
       let ny := dim slow 2 in
       let zsi := Z.min (ntrunc (ndiv zsrc dz)) (nz - 1) in
       let xsi := Z.min (ntrunc (ndiv xsrc dx)) (nx - 1) in
       let ysi := Z.min (ntrunc (ndiv ysrc dy)) (ny - 1) in vzero = get (nofZ 0) slow [zsi; xsi; ysi].
Proof. exact @SourceCell.fteik3d_vzero_is_source_cell. Qed.

(* exact arithmetic: the cell indices are in range and the CLOSED cell contains the source; on the far boundary it is the last cell; a source in [k d, (k+1) d) gets exactly cell k *)
Theorem C03_source_cell_contains_source_2d :
  forall (slow : arr R) (dz dx zsrc xsrc : R) (nsweep : Z) (grad : bool) (nz nx : Z) (tt ttgrad : arr R)
         (vzero : R),
       wf slow ->
       shape slow = [nz; nx] ->
       1 <= nz ->
       1 <= nx ->
       (0 < dz)%R ->
       (0 < dx)%R ->
       fteik2d slow dz dx zsrc xsrc nsweep grad = Ok (tt, ttgrad, vzero) ->
       let zsi := Z.min (Rtrunc (zsrc / dz)) (nz - 1) in
       let xsi := Z.min (Rtrunc (xsrc / dx)) (nx - 1) in
       vzero = get 0%R slow [zsi; xsi] /\
       inb slow [zsi; xsi] = true /\
       In vzero (dat slow) /\
       0 <= zsi < nz /\
       0 <= xsi < nx /\
       SourceCell.in_closed_cell zsrc dz zsi /\
       SourceCell.in_closed_cell xsrc dx xsi /\
       (zsrc = (dz * IZR nz)%R -> zsi = nz - 1) /\
       (xsrc = (dx * IZR nx)%R -> xsi = nx - 1) /\
       (forall k : Z, k < nz -> (IZR k * dz <= zsrc < (IZR k + 1) * dz)%R -> zsi = k) /\
       (forall k : Z, k < nx -> (IZR k * dx <= xsrc < (IZR k + 1) * dx)%R -> xsi = k) /\
       (forall k : Z, (IZR k * dz < zsrc < (IZR k + 1) * dz)%R -> zsi = k) /\
       (forall k : Z, (IZR k * dx < xsrc < (IZR k + 1) * dx)%R -> xsi = k).
Proof. exact @SourceCell.fteik2d_source_cell_R. Qed.

(* 3D *)
Theorem C03_source_cell_contains_source_3d :
  forall (slow : arr R) (dz dx dy zsrc xsrc ysrc : R) (nsweep : Z) (grad : bool) (nz nx ny : Z)
         (tt ttgrad : arr R) (vzero : R),
       wf slow ->
       shape slow = [nz; nx; ny] ->
       1 <= nz ->
       1 <= nx ->
       1 <= ny ->
       (0 < dz)%R ->
       (0 < dx)%R ->
       (0 < dy)%R ->
       fteik3d slow dz dx dy zsrc xsrc ysrc nsweep grad = Ok (tt, ttgrad, vzero) ->
       let zsi := Z.min (Rtrunc (zsrc / dz)) (nz - 1) in
       let xsi := Z.min (Rtrunc (xsrc / dx)) (nx - 1) in
       let ysi := Z.min (Rtrunc (ysrc / dy)) (ny - 1) in
       vzero = get 0%R slow [zsi; xsi; ysi] /\
       inb slow [zsi; xsi; ysi] = true /\
       In vzero (dat slow) /\
       0 <= zsi < nz /\
       0 <= xsi < nx /\
       0 <= ysi < ny /\
       SourceCell.in_closed_cell zsrc dz zsi /\
       SourceCell.in_closed_cell xsrc dx xsi /\
       SourceCell.in_closed_cell ysrc dy ysi /\
       (zsrc = (dz * IZR nz)%R -> zsi = nz - 1) /\
       (xsrc = (dx * IZR nx)%R -> xsi = nx - 1) /\
       (ysrc = (dy * IZR ny)%R -> ysi = ny - 1) /\
       (forall k : Z, k < nz -> (IZR k * dz <= zsrc < (IZR k + 1) * dz)%R -> zsi = k) /\
       (forall k : Z, k < nx -> (IZR k * dx <= xsrc < (IZR k + 1) * dx)%R -> xsi = k) /\
       (forall k : Z, k < ny -> (IZR k * dy <= ysrc < (IZR k + 1) * dy)%R -> ysi = k) /\
       (forall k : Z, (IZR k * dz < zsrc < (IZR k + 1) * dz)%R -> zsi = k) /\
       (forall k : Z, (IZR k * dx < xsrc < (IZR k + 1) * dx)%R -> xsi = k) /\
       (forall k : Z, (IZR k * dy < ysrc < (IZR k + 1) * dy)%R -> ysi = k).
Proof. exact @SourceCell.fteik3d_source_cell_R. Qed.

(* binary64 (1..2^50 cells): indices in range for every float passing the domain test; membership up to one rounding error per side: k d <= z (1+2^-53) and z <= (k+1) d (1+2^-53) *)
Theorem C03_source_cell_contains_source_binary64_2d :
  forall (slow : arr float) (dz dx zsrc xsrc : float) (nsweep : Z) (grad : bool) (nz nx : Z)
         (tt ttgrad : arr float) (vzero : float),
       wf slow ->
       shape slow = [nz; nx] ->
       1 <= nz <= 2 ^ 50 ->
       1 <= nx <= 2 ^ 50 ->
       (0 <? dz)%float = true ->
       (0 <? dx)%float = true ->
       fteik2d slow dz dx zsrc xsrc nsweep grad = Ok (tt, ttgrad, vzero) ->
       let zsi := Z.min (f_trunc (zsrc / dz)) (nz - 1) in
       let xsi := Z.min (f_trunc (xsrc / dx)) (nx - 1) in
       vzero = get 0%float slow [zsi; xsi] /\
       inb slow [zsi; xsi] = true /\
       In vzero (dat slow) /\
       0 <= zsi < nz /\
       0 <= xsi < nx /\
       (SourceCell.finite zsrc ->
        SourceCell.finite dz ->
        SourceCell.in_cell_approx zsrc dz zsi /\
        (f_trunc (zsrc / dz) < nz -> (SourceCell.Rval zsrc < (IZR zsi + 1) * SourceCell.Rval dz)%R)) /\
       (SourceCell.finite xsrc ->
        SourceCell.finite dx ->
        SourceCell.in_cell_approx xsrc dx xsi /\
        (f_trunc (xsrc / dx) < nx -> (SourceCell.Rval xsrc < (IZR xsi + 1) * SourceCell.Rval dx)%R)).
Proof. exact @SourceCell.fteik2d_source_cell_F. Qed.

(* EXACT membership is false on binary64: d = 1+2^-52, z = 3+2^-51 lies strictly inside cell 2 but fl(z/d) = 3 and the code takes cell 3 (a source within one rounding error of a grid line is attributed to either adjoining cell; the implementation agrees with the model on this input) *)
Theorem C03_source_cell_exact_membership_refuted_binary64 :
  (f_ofZ 0 <=? SourceCell.wz)%float = true /\
       (f_ofZ 0 <? SourceCell.wd)%float = true /\
       (SourceCell.wz <=? SourceCell.wd * f_ofZ 4)%float = true /\
       SourceCell.finite SourceCell.wz /\
       SourceCell.finite SourceCell.wd /\
       SourceCell.cell_index SourceCell.wz SourceCell.wd 4 = 3 /\
       (2 * SourceCell.Rval SourceCell.wd < SourceCell.Rval SourceCell.wz < 3 * SourceCell.Rval SourceCell.wd)%R /\
       ~
       (IZR (SourceCell.cell_index SourceCell.wz SourceCell.wd 4) * SourceCell.Rval SourceCell.wd <=
        SourceCell.Rval SourceCell.wz)%R.
Proof. exact @SourceCell.source_cell_exact_F_refuted. Qed.

(* API layer, extracted from _solver.py on every run (gen/ApiGen.v): which piece of the kernel's result and which attributes (gridsize, origin, the given source, vzero) are handed to the returned TraveltimeGrid2D *)
Theorem C03_solve_result_wiring_2d :
  ApiGen.solve_2d_targets =
       [String.String (Ascii.Ascii false false true false true true true false)
          (String.String (Ascii.Ascii false false true false true true true false) String.EmptyString);
        String.String (Ascii.Ascii false false true false true true true false)
          (String.String (Ascii.Ascii false false true false true true true false)
             (String.String (Ascii.Ascii true true true false false true true false)
                (String.String (Ascii.Ascii false true false false true true true false)
                   (String.String (Ascii.Ascii true false false false false true true false)
                      (String.String (Ascii.Ascii false false true false false true true false) String.EmptyString)))));
        String.String (Ascii.Ascii false true true false true true true false)
          (String.String (Ascii.Ascii false true false true true true true false)
             (String.String (Ascii.Ascii true false true false false true true false)
                (String.String (Ascii.Ascii false true false false true true true false)
                   (String.String (Ascii.Ascii true true true true false true true false) String.EmptyString))))] /\
       ApiGen.solve_2d_result_ctor =
       (String.String (Ascii.Ascii false false true false true false true false)
          (String.String (Ascii.Ascii false true false false true true true false)
             (String.String (Ascii.Ascii true false false false false true true false)
                (String.String (Ascii.Ascii false true true false true true true false)
                   (String.String (Ascii.Ascii true false true false false true true false)
                      (String.String (Ascii.Ascii false false true true false true true false)
                         (String.String (Ascii.Ascii false false true false true true true false)
                            (String.String (Ascii.Ascii true false false true false true true false)
                               (String.String (Ascii.Ascii true false true true false true true false)
                                  (String.String (Ascii.Ascii true false true false false true true false)
                                     (String.String (Ascii.Ascii true true true false false false true false)
                                        (String.String (Ascii.Ascii false true false false true true true false)
                                           (String.String (Ascii.Ascii true false false true false true true false)
                                              (String.String (Ascii.Ascii false false true false false true true false)
                                                 (String.String
                                                    (Ascii.Ascii false true false false true true false false)
                                                    (String.String
                                                       (Ascii.Ascii false false true false false false true false)
                                                       String.EmptyString))))))))))))))),
        [String.String (Ascii.Ascii true true true false false true true false)
           (String.String (Ascii.Ascii false true false false true true true false)
              (String.String (Ascii.Ascii true false false true false true true false)
                 (String.String (Ascii.Ascii false false true false false true true false) String.EmptyString)));
         String.String (Ascii.Ascii true true true false false true true false)
           (String.String (Ascii.Ascii false true false false true true true false)
              (String.String (Ascii.Ascii true false false true false true true false)
                 (String.String (Ascii.Ascii false false true false false true true false)
                    (String.String (Ascii.Ascii true true false false true true true false)
                       (String.String (Ascii.Ascii true false false true false true true false)
                          (String.String (Ascii.Ascii false true false true true true true false)
                             (String.String (Ascii.Ascii true false true false false true true false)
                                String.EmptyString)))))));
         String.String (Ascii.Ascii true true true true false true true false)
           (String.String (Ascii.Ascii false true false false true true true false)
              (String.String (Ascii.Ascii true false false true false true true false)
                 (String.String (Ascii.Ascii true true true false false true true false)
                    (String.String (Ascii.Ascii true false false true false true true false)
                       (String.String (Ascii.Ascii false true true true false true true false) String.EmptyString)))));
         String.String (Ascii.Ascii true true false false true true true false)
           (String.String (Ascii.Ascii true true true true false true true false)
              (String.String (Ascii.Ascii true false true false true true true false)
                 (String.String (Ascii.Ascii false true false false true true true false)
                    (String.String (Ascii.Ascii true true false false false true true false)
                       (String.String (Ascii.Ascii true false true false false true true false) String.EmptyString)))));
         String.String (Ascii.Ascii true true true false false true true false)
           (String.String (Ascii.Ascii false true false false true true true false)
              (String.String (Ascii.Ascii true false false false false true true false)
                 (String.String (Ascii.Ascii false false true false false true true false)
                    (String.String (Ascii.Ascii true false false true false true true false)
                       (String.String (Ascii.Ascii true false true false false true true false)
                          (String.String (Ascii.Ascii false true true true false true true false)
                             (String.String (Ascii.Ascii false false true false true true true false)
                                String.EmptyString)))))));
         String.String (Ascii.Ascii false true true false true true true false)
           (String.String (Ascii.Ascii false true false true true true true false)
              (String.String (Ascii.Ascii true false true false false true true false)
                 (String.String (Ascii.Ascii false true false false true true true false)
                    (String.String (Ascii.Ascii true true true true false true true false) String.EmptyString))))]) /\
       ApiGen.solve_2d_result_single =
       [(String.String (Ascii.Ascii true true true false false true true false)
           (String.String (Ascii.Ascii false true false false true true true false)
              (String.String (Ascii.Ascii true false false true false true true false)
                 (String.String (Ascii.Ascii false false true false false true true false) String.EmptyString))),
         String.String (Ascii.Ascii false false true false true true true false)
           (String.String (Ascii.Ascii false false true false true true true false) String.EmptyString));
        (String.String (Ascii.Ascii true true true false false true true false)
           (String.String (Ascii.Ascii false true false false true true true false)
              (String.String (Ascii.Ascii true false false true false true true false)
                 (String.String (Ascii.Ascii false false true false false true true false)
                    (String.String (Ascii.Ascii true true false false true true true false)
                       (String.String (Ascii.Ascii true false false true false true true false)
                          (String.String (Ascii.Ascii false true false true true true true false)
                             (String.String (Ascii.Ascii true false true false false true true false)
                                String.EmptyString))))))),
         String.String (Ascii.Ascii true true false false true true true false)
           (String.String (Ascii.Ascii true false true false false true true false)
              (String.String (Ascii.Ascii false false true true false true true false)
                 (String.String (Ascii.Ascii false true true false false true true false)
                    (String.String (Ascii.Ascii false true true true false true false false)
                       (String.String (Ascii.Ascii true true true true true false true false)
                          (String.String (Ascii.Ascii true true true false false true true false)
                             (String.String (Ascii.Ascii false true false false true true true false)
                                (String.String (Ascii.Ascii true false false true false true true false)
                                   (String.String (Ascii.Ascii false false true false false true true false)
                                      (String.String (Ascii.Ascii true true false false true true true false)
                                         (String.String (Ascii.Ascii true false false true false true true false)
                                            (String.String (Ascii.Ascii false true false true true true true false)
                                               (String.String (Ascii.Ascii true false true false false true true false)
                                                  String.EmptyString))))))))))))));
        (String.String (Ascii.Ascii true true true true false true true false)
           (String.String (Ascii.Ascii false true false false true true true false)
              (String.String (Ascii.Ascii true false false true false true true false)
                 (String.String (Ascii.Ascii true true true false false true true false)
                    (String.String (Ascii.Ascii true false false true false true true false)
                       (String.String (Ascii.Ascii false true true true false true true false) String.EmptyString))))),
         String.String (Ascii.Ascii true true false false true true true false)
           (String.String (Ascii.Ascii true false true false false true true false)
              (String.String (Ascii.Ascii false false true true false true true false)
                 (String.String (Ascii.Ascii false true true false false true true false)
                    (String.String (Ascii.Ascii false true true true false true false false)
                       (String.String (Ascii.Ascii true true true true true false true false)
                          (String.String (Ascii.Ascii true true true true false true true false)
                             (String.String (Ascii.Ascii false true false false true true true false)
                                (String.String (Ascii.Ascii true false false true false true true false)
                                   (String.String (Ascii.Ascii true true true false false true true false)
                                      (String.String (Ascii.Ascii true false false true false true true false)
                                         (String.String (Ascii.Ascii false true true true false true true false)
                                            String.EmptyString))))))))))));
        (String.String (Ascii.Ascii true true false false true true true false)
           (String.String (Ascii.Ascii true true true true false true true false)
              (String.String (Ascii.Ascii true false true false true true true false)
                 (String.String (Ascii.Ascii false true false false true true true false)
                    (String.String (Ascii.Ascii true true false false false true true false)
                       (String.String (Ascii.Ascii true false true false false true true false) String.EmptyString))))),
         String.String (Ascii.Ascii true true false false true true true false)
           (String.String (Ascii.Ascii true true true true false true true false)
              (String.String (Ascii.Ascii true false true false true true true false)
                 (String.String (Ascii.Ascii false true false false true true true false)
                    (String.String (Ascii.Ascii true true false false false true true false)
                       (String.String (Ascii.Ascii true false true false false true true false)
                          (String.String (Ascii.Ascii true true false false true true true false) String.EmptyString)))))));
        (String.String (Ascii.Ascii true true true false false true true false)
           (String.String (Ascii.Ascii false true false false true true true false)
              (String.String (Ascii.Ascii true false false false false true true false)
                 (String.String (Ascii.Ascii false false true false false true true false)
                    (String.String (Ascii.Ascii true false false true false true true false)
                       (String.String (Ascii.Ascii true false true false false true true false)
                          (String.String (Ascii.Ascii false true true true false true true false)
                             (String.String (Ascii.Ascii false false true false true true true false)
                                String.EmptyString))))))),
         String.String (Ascii.Ascii false false true false true true true false)
           (String.String (Ascii.Ascii false false true false true true true false)
              (String.String (Ascii.Ascii true true true false false true true false)
                 (String.String (Ascii.Ascii false true false false true true true false)
                    (String.String (Ascii.Ascii true false false false false true true false)
                       (String.String (Ascii.Ascii false false true false false true true false)
                          (String.String (Ascii.Ascii false false false false false true false false)
                             (String.String (Ascii.Ascii true false false true false true true false)
                                (String.String (Ascii.Ascii false true true false false true true false)
                                   (String.String (Ascii.Ascii false false false false false true false false)
                                      (String.String (Ascii.Ascii false true false false true true true false)
                                         (String.String (Ascii.Ascii true false true false false true true false)
                                            (String.String (Ascii.Ascii false false true false true true true false)
                                               (String.String (Ascii.Ascii true false true false true true true false)
                                                  (String.String
                                                     (Ascii.Ascii false true false false true true true false)
                                                     (String.String
                                                        (Ascii.Ascii false true true true false true true false)
                                                        (String.String
                                                           (Ascii.Ascii true true true true true false true false)
                                                           (String.String
                                                              (Ascii.Ascii true true true false false true true false)
                                                              (String.String
                                                                 (Ascii.Ascii false true false false true true true
                                                                    false)
                                                                 (String.String
                                                                    (Ascii.Ascii true false false false false true true
                                                                       false)
                                                                    (String.String
                                                                       (Ascii.Ascii false false true false false true
                                                                          true false)
                                                                       (String.String
                                                                          (Ascii.Ascii true false false true false true
                                                                             true false)
                                                                          (String.String
                                                                             (Ascii.Ascii true false true false false
                                                                                true true false)
                                                                             (String.String
                                                                                (Ascii.Ascii false true true true false
                                                                                   true true false)
                                                                                (String.String
                                                                                   (Ascii.Ascii false false true false
                                                                                      true true true false)
                                                                                   (String.String
                                                                                      (Ascii.Ascii false false false
                                                                                         false false true false false)
                                                                                      (String.String
                                                                                         (Ascii.Ascii true false true
                                                                                          false false true true false)
                                                                                         (String.String
                                                                                          (Ascii.Ascii false false true
                                                                                          true false true true false)
                                                                                          (String.String
                                                                                          (Ascii.Ascii true true false
                                                                                          false true true true false)
                                                                                          (String.String
                                                                                          (Ascii.Ascii true false true
                                                                                          false false true true false)
                                                                                          (String.String
                                                                                          (Ascii.Ascii false false
                                                                                          false false false true false
                                                                                          false)
                                                                                          (String.String
                                                                                          (Ascii.Ascii false true true
                                                                                          true false false true false)
                                                                                          (String.String
                                                                                          (Ascii.Ascii true true true
                                                                                          true false true true false)
                                                                                          (String.String
                                                                                          (Ascii.Ascii false true true
                                                                                          true false true true false)
                                                                                          (String.String
                                                                                          (Ascii.Ascii true false true
                                                                                          false false true true false)
                                                                                          String.EmptyString)))))))))))))))))))))))))))))))))));
        (String.String (Ascii.Ascii false true true false true true true false)
           (String.String (Ascii.Ascii false true false true true true true false)
              (String.String (Ascii.Ascii true false true false false true true false)
                 (String.String (Ascii.Ascii false true false false true true true false)
                    (String.String (Ascii.Ascii true true true true false true true false) String.EmptyString)))),
         String.String (Ascii.Ascii false true true false true true true false)
           (String.String (Ascii.Ascii false true false true true true true false)
              (String.String (Ascii.Ascii true false true false false true true false)
                 (String.String (Ascii.Ascii false true false false true true true false)
                    (String.String (Ascii.Ascii true true true true false true true false) String.EmptyString)))))] /\
       ApiGen.solve_2d_result_multi =
       [(String.String (Ascii.Ascii true true true false false true true false)
           (String.String (Ascii.Ascii false true false false true true true false)
              (String.String (Ascii.Ascii true false false true false true true false)
                 (String.String (Ascii.Ascii false false true false false true true false) String.EmptyString))),
         String.String (Ascii.Ascii false false true false true true true false)
           (String.String (Ascii.Ascii false false true false true true true false)
              (String.String (Ascii.Ascii true true false true true false true false)
                 (String.String (Ascii.Ascii true false false true false true true false)
                    (String.String (Ascii.Ascii true false true true true false true false) String.EmptyString)))));
        (String.String (Ascii.Ascii true true true false false true true false)
           (String.String (Ascii.Ascii false true false false true true true false)
              (String.String (Ascii.Ascii true false false true false true true false)
                 (String.String (Ascii.Ascii false false true false false true true false)
                    (String.String (Ascii.Ascii true true false false true true true false)
                       (String.String (Ascii.Ascii true false false true false true true false)
                          (String.String (Ascii.Ascii false true false true true true true false)
                             (String.String (Ascii.Ascii true false true false false true true false)
                                String.EmptyString))))))),
         String.String (Ascii.Ascii true true false false true true true false)
           (String.String (Ascii.Ascii true false true false false true true false)
              (String.String (Ascii.Ascii false false true true false true true false)
                 (String.String (Ascii.Ascii false true true false false true true false)
                    (String.String (Ascii.Ascii false true true true false true false false)
                       (String.String (Ascii.Ascii true true true true true false true false)
                          (String.String (Ascii.Ascii true true true false false true true false)
                             (String.String (Ascii.Ascii false true false false true true true false)
                                (String.String (Ascii.Ascii true false false true false true true false)
                                   (String.String (Ascii.Ascii false false true false false true true false)
                                      (String.String (Ascii.Ascii true true false false true true true false)
                                         (String.String (Ascii.Ascii true false false true false true true false)
                                            (String.String (Ascii.Ascii false true false true true true true false)
                                               (String.String (Ascii.Ascii true false true false false true true false)
                                                  String.EmptyString))))))))))))));
        (String.String (Ascii.Ascii true true true true false true true false)
           (String.String (Ascii.Ascii false true false false true true true false)
              (String.String (Ascii.Ascii true false false true false true true false)
                 (String.String (Ascii.Ascii true true true false false true true false)
                    (String.String (Ascii.Ascii true false false true false true true false)
                       (String.String (Ascii.Ascii false true true true false true true false) String.EmptyString))))),
         String.String (Ascii.Ascii true true false false true true true false)
           (String.String (Ascii.Ascii true false true false false true true false)
              (String.String (Ascii.Ascii false false true true false true true false)
                 (String.String (Ascii.Ascii false true true false false true true false)
                    (String.String (Ascii.Ascii false true true true false true false false)
                       (String.String (Ascii.Ascii true true true true true false true false)
                          (String.String (Ascii.Ascii true true true true false true true false)
                             (String.String (Ascii.Ascii false true false false true true true false)
                                (String.String (Ascii.Ascii true false false true false true true false)
                                   (String.String (Ascii.Ascii true true true false false true true false)
                                      (String.String (Ascii.Ascii true false false true false true true false)
                                         (String.String (Ascii.Ascii false true true true false true true false)
                                            String.EmptyString))))))))))));
        (String.String (Ascii.Ascii true true false false true true true false)
           (String.String (Ascii.Ascii true true true true false true true false)
              (String.String (Ascii.Ascii true false true false true true true false)
                 (String.String (Ascii.Ascii false true false false true true true false)
                    (String.String (Ascii.Ascii true true false false false true true false)
                       (String.String (Ascii.Ascii true false true false false true true false) String.EmptyString))))),
         String.String (Ascii.Ascii true true false false true true true false)
           (String.String (Ascii.Ascii true true true true false true true false)
              (String.String (Ascii.Ascii true false true false true true true false)
                 (String.String (Ascii.Ascii false true false false true true true false)
                    (String.String (Ascii.Ascii true true false false false true true false)
                       (String.String (Ascii.Ascii true false true false false true true false)
                          (String.String (Ascii.Ascii true true false false true true true false)
                             (String.String (Ascii.Ascii true true false true true false true false)
                                (String.String (Ascii.Ascii true false false true false true true false)
                                   (String.String (Ascii.Ascii true false true true true false true false)
                                      String.EmptyString))))))))));
        (String.String (Ascii.Ascii true true true false false true true false)
           (String.String (Ascii.Ascii false true false false true true true false)
              (String.String (Ascii.Ascii true false false false false true true false)
                 (String.String (Ascii.Ascii false false true false false true true false)
                    (String.String (Ascii.Ascii true false false true false true true false)
                       (String.String (Ascii.Ascii true false true false false true true false)
                          (String.String (Ascii.Ascii false true true true false true true false)
                             (String.String (Ascii.Ascii false false true false true true true false)
                                String.EmptyString))))))),
         String.String (Ascii.Ascii false false true false true true true false)
           (String.String (Ascii.Ascii false false true false true true true false)
              (String.String (Ascii.Ascii true true true false false true true false)
                 (String.String (Ascii.Ascii false true false false true true true false)
                    (String.String (Ascii.Ascii true false false false false true true false)
                       (String.String (Ascii.Ascii false false true false false true true false)
                          (String.String (Ascii.Ascii true true false true true false true false)
                             (String.String (Ascii.Ascii true false false true false true true false)
                                (String.String (Ascii.Ascii true false true true true false true false)
                                   (String.String (Ascii.Ascii false false false false false true false false)
                                      (String.String (Ascii.Ascii true false false true false true true false)
                                         (String.String (Ascii.Ascii false true true false false true true false)
                                            (String.String (Ascii.Ascii false false false false false true false false)
                                               (String.String (Ascii.Ascii false true false false true true true false)
                                                  (String.String
                                                     (Ascii.Ascii true false true false false true true false)
                                                     (String.String
                                                        (Ascii.Ascii false false true false true true true false)
                                                        (String.String
                                                           (Ascii.Ascii true false true false true true true false)
                                                           (String.String
                                                              (Ascii.Ascii false true false false true true true false)
                                                              (String.String
                                                                 (Ascii.Ascii false true true true false true true
                                                                    false)
                                                                 (String.String
                                                                    (Ascii.Ascii true true true true true false true
                                                                       false)
                                                                    (String.String
                                                                       (Ascii.Ascii true true true false false true
                                                                          true false)
                                                                       (String.String
                                                                          (Ascii.Ascii false true false false true true
                                                                             true false)
                                                                          (String.String
                                                                             (Ascii.Ascii true false false false false
                                                                                true true false)
                                                                             (String.String
                                                                                (Ascii.Ascii false false true false
                                                                                   false true true false)
                                                                                (String.String
                                                                                   (Ascii.Ascii true false false true
                                                                                      false true true false)
                                                                                   (String.String
                                                                                      (Ascii.Ascii true false true
                                                                                         false false true true false)
                                                                                      (String.String
                                                                                         (Ascii.Ascii false true true
                                                                                          true false true true false)
                                                                                         (String.String
                                                                                          (Ascii.Ascii false false true
                                                                                          false true true true false)
                                                                                          (String.String
                                                                                          (Ascii.Ascii false false
                                                                                          false false false true false
                                                                                          false)
                                                                                          (String.String
                                                                                          (Ascii.Ascii true false true
                                                                                          false false true true false)
                                                                                          (String.String
                                                                                          (Ascii.Ascii false false true
                                                                                          true false true true false)
                                                                                          (String.String
                                                                                          (Ascii.Ascii true true false
                                                                                          false true true true false)
                                                                                          (String.String
                                                                                          (Ascii.Ascii true false true
                                                                                          false false true true false)
                                                                                          (String.String
                                                                                          (Ascii.Ascii false false
                                                                                          false false false true false
                                                                                          false)
                                                                                          (String.String
                                                                                          (Ascii.Ascii false true true
                                                                                          true false false true false)
                                                                                          (String.String
                                                                                          (Ascii.Ascii true true true
                                                                                          true false true true false)
                                                                                          (String.String
                                                                                          (Ascii.Ascii false true true
                                                                                          true false true true false)
                                                                                          (String.String
                                                                                          (Ascii.Ascii true false true
                                                                                          false false true true false)
                                                                                          String.EmptyString))))))))))))))))))))))))))))))))))))));
        (String.String (Ascii.Ascii false true true false true true true false)
           (String.String (Ascii.Ascii false true false true true true true false)
              (String.String (Ascii.Ascii true false true false false true true false)
                 (String.String (Ascii.Ascii false true false false true true true false)
                    (String.String (Ascii.Ascii true true true true false true true false) String.EmptyString)))),
         String.String (Ascii.Ascii false true true false true true true false)
           (String.String (Ascii.Ascii false true false true true true true false)
              (String.String (Ascii.Ascii true false true false false true true false)
                 (String.String (Ascii.Ascii false true false false true true true false)
                    (String.String (Ascii.Ascii true true true true false true true false)
                       (String.String (Ascii.Ascii true true false true true false true false)
                          (String.String (Ascii.Ascii true false false true false true true false)
                             (String.String (Ascii.Ascii true false true true true false true false) String.EmptyString))))))))] /\
       map fst ApiGen.solve_2d_result_single = snd ApiGen.solve_2d_result_ctor /\
       map fst ApiGen.solve_2d_result_multi = snd ApiGen.solve_2d_result_ctor.
Proof. exact @ApiGenEq.gen_solve_2d_result. Qed.

(* 3D *)
Theorem C03_solve_result_wiring_3d :
  ApiGen.solve_3d_targets =
       [String.String (Ascii.Ascii false false true false true true true false)
          (String.String (Ascii.Ascii false false true false true true true false) String.EmptyString);
        String.String (Ascii.Ascii false false true false true true true false)
          (String.String (Ascii.Ascii false false true false true true true false)
             (String.String (Ascii.Ascii true true true false false true true false)
                (String.String (Ascii.Ascii false true false false true true true false)
                   (String.String (Ascii.Ascii true false false false false true true false)
                      (String.String (Ascii.Ascii false false true false false true true false) String.EmptyString)))));
        String.String (Ascii.Ascii false true true false true true true false)
          (String.String (Ascii.Ascii false true false true true true true false)
             (String.String (Ascii.Ascii true false true false false true true false)
                (String.String (Ascii.Ascii false true false false true true true false)
                   (String.String (Ascii.Ascii true true true true false true true false) String.EmptyString))))] /\
       ApiGen.solve_3d_result_ctor =
       (String.String (Ascii.Ascii false false true false true false true false)
          (String.String (Ascii.Ascii false true false false true true true false)
             (String.String (Ascii.Ascii true false false false false true true false)
                (String.String (Ascii.Ascii false true true false true true true false)
                   (String.String (Ascii.Ascii true false true false false true true false)
                      (String.String (Ascii.Ascii false false true true false true true false)
                         (String.String (Ascii.Ascii false false true false true true true false)
                            (String.String (Ascii.Ascii true false false true false true true false)
                               (String.String (Ascii.Ascii true false true true false true true false)
                                  (String.String (Ascii.Ascii true false true false false true true false)
                                     (String.String (Ascii.Ascii true true true false false false true false)
                                        (String.String (Ascii.Ascii false true false false true true true false)
                                           (String.String (Ascii.Ascii true false false true false true true false)
                                              (String.String (Ascii.Ascii false false true false false true true false)
                                                 (String.String
                                                    (Ascii.Ascii true true false false true true false false)
                                                    (String.String
                                                       (Ascii.Ascii false false true false false false true false)
                                                       String.EmptyString))))))))))))))),
        [String.String (Ascii.Ascii true true true false false true true false)
           (String.String (Ascii.Ascii false true false false true true true false)
              (String.String (Ascii.Ascii true false false true false true true false)
                 (String.String (Ascii.Ascii false false true false false true true false) String.EmptyString)));
         String.String (Ascii.Ascii true true true false false true true false)
           (String.String (Ascii.Ascii false true false false true true true false)
              (String.String (Ascii.Ascii true false false true false true true false)
                 (String.String (Ascii.Ascii false false true false false true true false)
                    (String.String (Ascii.Ascii true true false false true true true false)
                       (String.String (Ascii.Ascii true false false true false true true false)
                          (String.String (Ascii.Ascii false true false true true true true false)
                             (String.String (Ascii.Ascii true false true false false true true false)
                                String.EmptyString)))))));
         String.String (Ascii.Ascii true true true true false true true false)
           (String.String (Ascii.Ascii false true false false true true true false)
              (String.String (Ascii.Ascii true false false true false true true false)
                 (String.String (Ascii.Ascii true true true false false true true false)
                    (String.String (Ascii.Ascii true false false true false true true false)
                       (String.String (Ascii.Ascii false true true true false true true false) String.EmptyString)))));
         String.String (Ascii.Ascii true true false false true true true false)
           (String.String (Ascii.Ascii true true true true false true true false)
              (String.String (Ascii.Ascii true false true false true true true false)
                 (String.String (Ascii.Ascii false true false false true true true false)
                    (String.String (Ascii.Ascii true true false false false true true false)
                       (String.String (Ascii.Ascii true false true false false true true false) String.EmptyString)))));
         String.String (Ascii.Ascii true true true false false true true false)
           (String.String (Ascii.Ascii false true false false true true true false)
              (String.String (Ascii.Ascii true false false false false true true false)
                 (String.String (Ascii.Ascii false false true false false true true false)
                    (String.String (Ascii.Ascii true false false true false true true false)
                       (String.String (Ascii.Ascii true false true false false true true false)
                          (String.String (Ascii.Ascii false true true true false true true false)
                             (String.String (Ascii.Ascii false false true false true true true false)
                                String.EmptyString)))))));
         String.String (Ascii.Ascii false true true false true true true false)
           (String.String (Ascii.Ascii false true false true true true true false)
              (String.String (Ascii.Ascii true false true false false true true false)
                 (String.String (Ascii.Ascii false true false false true true true false)
                    (String.String (Ascii.Ascii true true true true false true true false) String.EmptyString))))]) /\
       ApiGen.solve_3d_result_single =
       [(String.String (Ascii.Ascii true true true false false true true false)
           (String.String (Ascii.Ascii false true false false true true true false)
              (String.String (Ascii.Ascii true false false true false true true false)
                 (String.String (Ascii.Ascii false false true false false true true false) String.EmptyString))),
         String.String (Ascii.Ascii false false true false true true true false)
           (String.String (Ascii.Ascii false false true false true true true false) String.EmptyString));
        (String.String (Ascii.Ascii true true true false false true true false)
           (String.String (Ascii.Ascii false true false false true true true false)
              (String.String (Ascii.Ascii true false false true false true true false)
                 (String.String (Ascii.Ascii false false true false false true true false)
                    (String.String (Ascii.Ascii true true false false true true true false)
                       (String.String (Ascii.Ascii true false false true false true true false)
                          (String.String (Ascii.Ascii false true false true true true true false)
                             (String.String (Ascii.Ascii true false true false false true true false)
                                String.EmptyString))))))),
         String.String (Ascii.Ascii true true false false true true true false)
           (String.String (Ascii.Ascii true false true false false true true false)
              (String.String (Ascii.Ascii false false true true false true true false)
                 (String.String (Ascii.Ascii false true true false false true true false)
                    (String.String (Ascii.Ascii false true true true false true false false)
                       (String.String (Ascii.Ascii true true true true true false true false)
                          (String.String (Ascii.Ascii true true true false false true true false)
                             (String.String (Ascii.Ascii false true false false true true true false)
                                (String.String (Ascii.Ascii true false false true false true true false)
                                   (String.String (Ascii.Ascii false false true false false true true false)
                                      (String.String (Ascii.Ascii true true false false true true true false)
                                         (String.String (Ascii.Ascii true false false true false true true false)
                                            (String.String (Ascii.Ascii false true false true true true true false)
                                               (String.String (Ascii.Ascii true false true false false true true false)
                                                  String.EmptyString))))))))))))));
        (String.String (Ascii.Ascii true true true true false true true false)
           (String.String (Ascii.Ascii false true false false true true true false)
              (String.String (Ascii.Ascii true false false true false true true false)
                 (String.String (Ascii.Ascii true true true false false true true false)
                    (String.String (Ascii.Ascii true false false true false true true false)
                       (String.String (Ascii.Ascii false true true true false true true false) String.EmptyString))))),
         String.String (Ascii.Ascii true true false false true true true false)
           (String.String (Ascii.Ascii true false true false false true true false)
              (String.String (Ascii.Ascii false false true true false true true false)
                 (String.String (Ascii.Ascii false true true false false true true false)
                    (String.String (Ascii.Ascii false true true true false true false false)
                       (String.String (Ascii.Ascii true true true true true false true false)
                          (String.String (Ascii.Ascii true true true true false true true false)
                             (String.String (Ascii.Ascii false true false false true true true false)
                                (String.String (Ascii.Ascii true false false true false true true false)
                                   (String.String (Ascii.Ascii true true true false false true true false)
                                      (String.String (Ascii.Ascii true false false true false true true false)
                                         (String.String (Ascii.Ascii false true true true false true true false)
                                            String.EmptyString))))))))))));
        (String.String (Ascii.Ascii true true false false true true true false)
           (String.String (Ascii.Ascii true true true true false true true false)
              (String.String (Ascii.Ascii true false true false true true true false)
                 (String.String (Ascii.Ascii false true false false true true true false)
                    (String.String (Ascii.Ascii true true false false false true true false)
                       (String.String (Ascii.Ascii true false true false false true true false) String.EmptyString))))),
         String.String (Ascii.Ascii true true false false true true true false)
           (String.String (Ascii.Ascii true true true true false true true false)
              (String.String (Ascii.Ascii true false true false true true true false)
                 (String.String (Ascii.Ascii false true false false true true true false)
                    (String.String (Ascii.Ascii true true false false false true true false)
                       (String.String (Ascii.Ascii true false true false false true true false)
                          (String.String (Ascii.Ascii true true false false true true true false) String.EmptyString)))))));
        (String.String (Ascii.Ascii true true true false false true true false)
           (String.String (Ascii.Ascii false true false false true true true false)
              (String.String (Ascii.Ascii true false false false false true true false)
                 (String.String (Ascii.Ascii false false true false false true true false)
                    (String.String (Ascii.Ascii true false false true false true true false)
                       (String.String (Ascii.Ascii true false true false false true true false)
                          (String.String (Ascii.Ascii false true true true false true true false)
                             (String.String (Ascii.Ascii false false true false true true true false)
                                String.EmptyString))))))),
         String.String (Ascii.Ascii false false true false true true true false)
           (String.String (Ascii.Ascii false false true false true true true false)
              (String.String (Ascii.Ascii true true true false false true true false)
                 (String.String (Ascii.Ascii false true false false true true true false)
                    (String.String (Ascii.Ascii true false false false false true true false)
                       (String.String (Ascii.Ascii false false true false false true true false)
                          (String.String (Ascii.Ascii false false false false false true false false)
                             (String.String (Ascii.Ascii true false false true false true true false)
                                (String.String (Ascii.Ascii false true true false false true true false)
                                   (String.String (Ascii.Ascii false false false false false true false false)
                                      (String.String (Ascii.Ascii false true false false true true true false)
                                         (String.String (Ascii.Ascii true false true false false true true false)
                                            (String.String (Ascii.Ascii false false true false true true true false)
                                               (String.String (Ascii.Ascii true false true false true true true false)
                                                  (String.String
                                                     (Ascii.Ascii false true false false true true true false)
                                                     (String.String
                                                        (Ascii.Ascii false true true true false true true false)
                                                        (String.String
                                                           (Ascii.Ascii true true true true true false true false)
                                                           (String.String
                                                              (Ascii.Ascii true true true false false true true false)
                                                              (String.String
                                                                 (Ascii.Ascii false true false false true true true
                                                                    false)
                                                                 (String.String
                                                                    (Ascii.Ascii true false false false false true true
                                                                       false)
                                                                    (String.String
                                                                       (Ascii.Ascii false false true false false true
                                                                          true false)
                                                                       (String.String
                                                                          (Ascii.Ascii true false false true false true
                                                                             true false)
                                                                          (String.String
                                                                             (Ascii.Ascii true false true false false
                                                                                true true false)
                                                                             (String.String
                                                                                (Ascii.Ascii false true true true false
                                                                                   true true false)
                                                                                (String.String
                                                                                   (Ascii.Ascii false false true false
                                                                                      true true true false)
                                                                                   (String.String
                                                                                      (Ascii.Ascii false false false
                                                                                         false false true false false)
                                                                                      (String.String
                                                                                         (Ascii.Ascii true false true
                                                                                          false false true true false)
                                                                                         (String.String
                                                                                          (Ascii.Ascii false false true
                                                                                          true false true true false)
                                                                                          (String.String
                                                                                          (Ascii.Ascii true true false
                                                                                          false true true true false)
                                                                                          (String.String
                                                                                          (Ascii.Ascii true false true
                                                                                          false false true true false)
                                                                                          (String.String
                                                                                          (Ascii.Ascii false false
                                                                                          false false false true false
                                                                                          false)
                                                                                          (String.String
                                                                                          (Ascii.Ascii false true true
                                                                                          true false false true false)
                                                                                          (String.String
                                                                                          (Ascii.Ascii true true true
                                                                                          true false true true false)
                                                                                          (String.String
                                                                                          (Ascii.Ascii false true true
                                                                                          true false true true false)
                                                                                          (String.String
                                                                                          (Ascii.Ascii true false true
                                                                                          false false true true false)
                                                                                          String.EmptyString)))))))))))))))))))))))))))))))))));
        (String.String (Ascii.Ascii false true true false true true true false)
           (String.String (Ascii.Ascii false true false true true true true false)
              (String.String (Ascii.Ascii true false true false false true true false)
                 (String.String (Ascii.Ascii false true false false true true true false)
                    (String.String (Ascii.Ascii true true true true false true true false) String.EmptyString)))),
         String.String (Ascii.Ascii false true true false true true true false)
           (String.String (Ascii.Ascii false true false true true true true false)
              (String.String (Ascii.Ascii true false true false false true true false)
                 (String.String (Ascii.Ascii false true false false true true true false)
                    (String.String (Ascii.Ascii true true true true false true true false) String.EmptyString)))))] /\
       ApiGen.solve_3d_result_multi =
       [(String.String (Ascii.Ascii true true true false false true true false)
           (String.String (Ascii.Ascii false true false false true true true false)
              (String.String (Ascii.Ascii true false false true false true true false)
                 (String.String (Ascii.Ascii false false true false false true true false) String.EmptyString))),
         String.String (Ascii.Ascii false false true false true true true false)
           (String.String (Ascii.Ascii false false true false true true true false)
              (String.String (Ascii.Ascii true true false true true false true false)
                 (String.String (Ascii.Ascii true false false true false true true false)
                    (String.String (Ascii.Ascii true false true true true false true false) String.EmptyString)))));
        (String.String (Ascii.Ascii true true true false false true true false)
           (String.String (Ascii.Ascii false true false false true true true false)
              (String.String (Ascii.Ascii true false false true false true true false)
                 (String.String (Ascii.Ascii false false true false false true true false)
                    (String.String (Ascii.Ascii true true false false true true true false)
                       (String.String (Ascii.Ascii true false false true false true true false)
                          (String.String (Ascii.Ascii false true false true true true true false)
                             (String.String (Ascii.Ascii true false true false false true true false)
                                String.EmptyString))))))),
         String.String (Ascii.Ascii true true false false true true true false)
           (String.String (Ascii.Ascii true false true false false true true false)
              (String.String (Ascii.Ascii false false true true false true true false)
                 (String.String (Ascii.Ascii false true true false false true true false)
                    (String.String (Ascii.Ascii false true true true false true false false)
                       (String.String (Ascii.Ascii true true true true true false true false)
                          (String.String (Ascii.Ascii true true true false false true true false)
                             (String.String (Ascii.Ascii false true false false true true true false)
                                (String.String (Ascii.Ascii true false false true false true true false)
                                   (String.String (Ascii.Ascii false false true false false true true false)
                                      (String.String (Ascii.Ascii true true false false true true true false)
                                         (String.String (Ascii.Ascii true false false true false true true false)
                                            (String.String (Ascii.Ascii false true false true true true true false)
                                               (String.String (Ascii.Ascii true false true false false true true false)
                                                  String.EmptyString))))))))))))));
        (String.String (Ascii.Ascii true true true true false true true false)
           (String.String (Ascii.Ascii false true false false true true true false)
              (String.String (Ascii.Ascii true false false true false true true false)
                 (String.String (Ascii.Ascii true true true false false true true false)
                    (String.String (Ascii.Ascii true false false true false true true false)
                       (String.String (Ascii.Ascii false true true true false true true false) String.EmptyString))))),
         String.String (Ascii.Ascii true true false false true true true false)
           (String.String (Ascii.Ascii true false true false false true true false)
              (String.String (Ascii.Ascii false false true true false true true false)
                 (String.String (Ascii.Ascii false true true false false true true false)
                    (String.String (Ascii.Ascii false true true true false true false false)
                       (String.String (Ascii.Ascii true true true true true false true false)
                          (String.String (Ascii.Ascii true true true true false true true false)
                             (String.String (Ascii.Ascii false true false false true true true false)
                                (String.String (Ascii.Ascii true false false true false true true false)
                                   (String.String (Ascii.Ascii true true true false false true true false)
                                      (String.String (Ascii.Ascii true false false true false true true false)
                                         (String.String (Ascii.Ascii false true true true false true true false)
                                            String.EmptyString))))))))))));
        (String.String (Ascii.Ascii true true false false true true true false)
           (String.String (Ascii.Ascii true true true true false true true false)
              (String.String (Ascii.Ascii true false true false true true true false)
                 (String.String (Ascii.Ascii false true false false true true true false)
                    (String.String (Ascii.Ascii true true false false false true true false)
                       (String.String (Ascii.Ascii true false true false false true true false) String.EmptyString))))),
         String.String (Ascii.Ascii true true false false true true true false)
           (String.String (Ascii.Ascii true true true true false true true false)
              (String.String (Ascii.Ascii true false true false true true true false)
                 (String.String (Ascii.Ascii false true false false true true true false)
                    (String.String (Ascii.Ascii true true false false false true true false)
                       (String.String (Ascii.Ascii true false true false false true true false)
                          (String.String (Ascii.Ascii true true false false true true true false)
                             (String.String (Ascii.Ascii true true false true true false true false)
                                (String.String (Ascii.Ascii true false false true false true true false)
                                   (String.String (Ascii.Ascii true false true true true false true false)
                                      String.EmptyString))))))))));
        (String.String (Ascii.Ascii true true true false false true true false)
           (String.String (Ascii.Ascii false true false false true true true false)
              (String.String (Ascii.Ascii true false false false false true true false)
                 (String.String (Ascii.Ascii false false true false false true true false)
                    (String.String (Ascii.Ascii true false false true false true true false)
                       (String.String (Ascii.Ascii true false true false false true true false)
                          (String.String (Ascii.Ascii false true true true false true true false)
                             (String.String (Ascii.Ascii false false true false true true true false)
                                String.EmptyString))))))),
         String.String (Ascii.Ascii false false true false true true true false)
           (String.String (Ascii.Ascii false false true false true true true false)
              (String.String (Ascii.Ascii true true true false false true true false)
                 (String.String (Ascii.Ascii false true false false true true true false)
                    (String.String (Ascii.Ascii true false false false false true true false)
                       (String.String (Ascii.Ascii false false true false false true true false)
                          (String.String (Ascii.Ascii true true false true true false true false)
                             (String.String (Ascii.Ascii true false false true false true true false)
                                (String.String (Ascii.Ascii true false true true true false true false)
                                   (String.String (Ascii.Ascii false false false false false true false false)
                                      (String.String (Ascii.Ascii true false false true false true true false)
                                         (String.String (Ascii.Ascii false true true false false true true false)
                                            (String.String (Ascii.Ascii false false false false false true false false)
                                               (String.String (Ascii.Ascii false true false false true true true false)
                                                  (String.String
                                                     (Ascii.Ascii true false true false false true true false)
                                                     (String.String
                                                        (Ascii.Ascii false false true false true true true false)
                                                        (String.String
                                                           (Ascii.Ascii true false true false true true true false)
                                                           (String.String
                                                              (Ascii.Ascii false true false false true true true false)
                                                              (String.String
                                                                 (Ascii.Ascii false true true true false true true
                                                                    false)
                                                                 (String.String
                                                                    (Ascii.Ascii true true true true true false true
                                                                       false)
                                                                    (String.String
                                                                       (Ascii.Ascii true true true false false true
                                                                          true false)
                                                                       (String.String
                                                                          (Ascii.Ascii false true false false true true
                                                                             true false)
                                                                          (String.String
                                                                             (Ascii.Ascii true false false false false
                                                                                true true false)
                                                                             (String.String
                                                                                (Ascii.Ascii false false true false
                                                                                   false true true false)
                                                                                (String.String
                                                                                   (Ascii.Ascii true false false true
                                                                                      false true true false)
                                                                                   (String.String
                                                                                      (Ascii.Ascii true false true
                                                                                         false false true true false)
                                                                                      (String.String
                                                                                         (Ascii.Ascii false true true
                                                                                          true false true true false)
                                                                                         (String.String
                                                                                          (Ascii.Ascii false false true
                                                                                          false true true true false)
                                                                                          (String.String
                                                                                          (Ascii.Ascii false false
                                                                                          false false false true false
                                                                                          false)
                                                                                          (String.String
                                                                                          (Ascii.Ascii true false true
                                                                                          false false true true false)
                                                                                          (String.String
                                                                                          (Ascii.Ascii false false true
                                                                                          true false true true false)
                                                                                          (String.String
                                                                                          (Ascii.Ascii true true false
                                                                                          false true true true false)
                                                                                          (String.String
                                                                                          (Ascii.Ascii true false true
                                                                                          false false true true false)
                                                                                          (String.String
                                                                                          (Ascii.Ascii false false
                                                                                          false false false true false
                                                                                          false)
                                                                                          (String.String
                                                                                          (Ascii.Ascii false true true
                                                                                          true false false true false)
                                                                                          (String.String
                                                                                          (Ascii.Ascii true true true
                                                                                          true false true true false)
                                                                                          (String.String
                                                                                          (Ascii.Ascii false true true
                                                                                          true false true true false)
                                                                                          (String.String
                                                                                          (Ascii.Ascii true false true
                                                                                          false false true true false)
                                                                                          String.EmptyString))))))))))))))))))))))))))))))))))))));
        (String.String (Ascii.Ascii false true true false true true true false)
           (String.String (Ascii.Ascii false true false true true true true false)
              (String.String (Ascii.Ascii true false true false false true true false)
                 (String.String (Ascii.Ascii false true false false true true true false)
                    (String.String (Ascii.Ascii true true true true false true true false) String.EmptyString)))),
         String.String (Ascii.Ascii false true true false true true true false)
           (String.String (Ascii.Ascii false true false true true true true false)
              (String.String (Ascii.Ascii true false true false false true true false)
                 (String.String (Ascii.Ascii false true false false true true true false)
                    (String.String (Ascii.Ascii true true true true false true true false)
                       (String.String (Ascii.Ascii true true false true true false true false)
                          (String.String (Ascii.Ascii true false false true false true true false)
                             (String.String (Ascii.Ascii true false true true true false true false) String.EmptyString))))))))] /\
       map fst ApiGen.solve_3d_result_single = snd ApiGen.solve_3d_result_ctor /\
       map fst ApiGen.solve_3d_result_multi = snd ApiGen.solve_3d_result_ctor.
Proof. exact @ApiGenEq.gen_solve_3d_result. Qed.

(* completes without raising, with respect to ZeroDivisionError (the obligation semantics f_ok false true: every divisor on the executed path is non-zero), exact arithmetic: one 2D node update, for positive spacings and ANY arrays, slowness values, indices, signs, flag *)
Theorem C03_no_zero_divisor_in_a_node_update_2d :
  forall (tt : arr R) (ttsgn : arr Z) (slow : arr R) (dz dx dzi dxi dz2i dx2i zsi xsi zsa xsa vzero : R)
         (i j sgnvz sgnvx sgntz sgntx nz nx : Z) (grad : bool),
       (0 < dz)%R ->
       (0 < dx)%R ->
       (0 < dz2i)%R ->
       (0 < dx2i)%R ->
       Fteik2d.sweep_ok false true tt ttsgn slow (dz, dx, dzi, dxi, dz2i, dx2i) zsi xsi zsa xsa vzero i j sgnvz sgnvx
         sgntz sgntx nz nx grad = true.
Proof. exact @DivSafe.sweep_ok_div. Qed.

(* a whole 2D pass *)
Theorem C03_no_zero_divisor_in_a_pass_2d :
  forall (tt : arr R) (ttsgn : arr Z) (slow : arr R) (dz dx zsi xsi zsa xsa vzero : R) (nz nx : Z) (grad : bool),
       (0 < dz)%R -> (0 < dx)%R -> sweep2d_ok false true tt ttsgn slow dz dx zsi xsi zsa xsa vzero nz nx grad = true.
Proof. exact @DivSafe.sweep2d_ok_div. Qed.

(* locating the source *)
Theorem C03_no_zero_divisor_locating_the_source_2d :
  forall (dx dz : R) (grad : bool) (nx nz : Z) (slow : arr R) (xsrc zsrc : R),
       (0 < dz)%R -> (0 < dx)%R -> fteik2d_p1_ok false true dx dz grad nx nz slow xsrc zsrc = true.
Proof. exact @DivSafe.fteik2d_p1_ok_div. Qed.

(* PARTIAL: the whole 2D solver (source location, all sweeps, gradient assembly incl. the normalisation under `if gn > 0`) performs no division by zero, GIVEN the same for the source initialisation (`fteik2d_p2_ok false true`), which is not proved: the proof search on that 900-line term exhausted memory; by inspection each of its divisors (`dzu*dz`, `dzd*dz`, `dxw*dx`, `dxe*dx`, `t`, `dz2i+dx2i`) sits under a guard that excludes zero over R, and on binary64 the products can underflow to zero (comment in proofs/DivSafe.v) - which is the kind of input the fix 21dd3ed (F1) addressed; the 3D solver is not covered *)
Theorem C03_no_zero_divisor_in_the_solver_2d_partial :
  forall (slow : arr R) (dz dx zsrc xsrc : R) (nsweep : Z) (grad : bool),
       (0 < dz)%R ->
       (0 < dx)%R ->
       (forall (iflag nx nz : Z) (tt G : arr R) (S : arr Z) (vzero xsa : R) (xsi : Z) (zsa : R) (zsi : Z),
        fteik2d_p2_ok false true dx dz grad iflag nx nz slow tt G S vzero xsa xsi zsa zsi = true) ->
       fteik2d_ok false true slow dz dx zsrc xsrc nsweep grad = true.
Proof. exact @DivSafe.fteik2d_ok_div_partial. Qed.

(* 3D node update: no division by zero for positive derived spacing factors, any arrays, indices, signs, flag *)
Theorem C03_no_zero_divisor_in_a_node_update_3d :
  forall (tt : arr R) (ttsgn : arr Z) (slow : arr R) (dz dx dy dz2i dx2i dy2i dz2dx2 dz2dy2 dx2dy2 dsum : R)
         (i j k sgnvz sgnvx sgnvy sgntz sgntx sgnty nz nx ny : Z) (grad : bool),
       (0 < dz2i)%R ->
       (0 < dx2i)%R ->
       (0 < dy2i)%R ->
       (0 < dsum)%R ->
       sweep_ok false true tt ttsgn slow (dz, dx, dy, dz2i, dx2i, dy2i, dz2dx2, dz2dy2, dx2dy2, dsum) i j k sgnvz sgnvx
         sgnvy sgntz sgntx sgnty nz nx ny grad = true.
Proof. exact @DivSafe.sweep3_ok_div. Qed.

(* a whole 3D pass, positive spacings *)
Theorem C03_no_zero_divisor_in_a_pass_3d :
  forall (tt : arr R) (ttsgn : arr Z) (slow : arr R) (dz dx dy : R) (nz nx ny : Z) (grad : bool),
       (0 < dz)%R -> (0 < dx)%R -> (0 < dy)%R -> sweep3d_ok false true tt ttsgn slow dz dx dy nz nx ny grad = true.
Proof. exact @DivSafe.sweep3d_ok_div. Qed.

(* the WHOLE 3D solver (domain test, source location, initialisation, all sweeps, gradient assembly): no division by zero for positive spacings - no hypothesis on the model, the source, nsweep or the flag (exact arithmetic) *)
Theorem C03_no_zero_divisor_in_the_solver_3d :
  forall (slow : arr R) (dz dx dy zsrc xsrc ysrc : R) (nsweep : Z) (grad : bool),
       (0 < dz)%R -> (0 < dx)%R -> (0 < dy)%R -> fteik3d_ok false true slow dz dx dy zsrc xsrc ysrc nsweep grad = true.
Proof. exact @DivSafe.fteik3d_ok_div. Qed.

Print Assumptions C03_solve2d_raises_iff_source_outside.
Print Assumptions C03_solve3d_raises_iff_source_outside.
Print Assumptions C03_initial_grid_shape_2d.
Print Assumptions C03_initial_grid_shape_3d.
Print Assumptions C03_result_grid_shape_2d.
Print Assumptions C03_four_point_operator_causal.
Print Assumptions C03_node_update_nonneg_2d.
Print Assumptions C03_pass_nonneg_2d.
Print Assumptions C03_initialisation_nonneg_2d.
Print Assumptions C03_solve2d_nonneg.
Print Assumptions C03_four_point_operator_strictly_causal.
Print Assumptions C03_solve2d_zero_iff_source_node.
Print Assumptions C03_solve2d_at_most_one_zero.
Print Assumptions C03_solve2d_zero_near_source.
Print Assumptions C03_node_update_3d_value.
Print Assumptions C03_node_update_nonneg_3d.
Print Assumptions C03_pass_nonneg_3d.
Print Assumptions C03_solve3d_nonneg.
Print Assumptions C03_eight_point_unguarded_negative_iff_noncubic.
Print Assumptions C03_node_update_unguarded_refuted.
Print Assumptions C03_eight_point_guard_noop_cubic.
Print Assumptions C03_converged_2d_below_grid_path_bound.
Print Assumptions C03_converged_2d_node_source_bound.
Print Assumptions C03_converged_2d_off_node_bound.
Print Assumptions C03_converged_3d_node_source_bound.
Print Assumptions C03_solve3d_zero_at_source.
Print Assumptions C03_solve3d_positive_off_node.
Print Assumptions C03_solve3d_zero_dichotomy.
Print Assumptions C03_solve3d_zero_only_at_source_partial.
Print Assumptions C03_solve3d_zero_only_at_source_refuted.
Print Assumptions C03_vzero_is_source_cell_slowness_2d.
Print Assumptions C03_vzero_independent_of_options_2d.
Print Assumptions C03_vzero_is_source_cell_slowness_3d.
Print Assumptions C03_source_cell_contains_source_2d.
Print Assumptions C03_source_cell_contains_source_3d.
Print Assumptions C03_source_cell_contains_source_binary64_2d.
Print Assumptions C03_source_cell_exact_membership_refuted_binary64.
Print Assumptions C03_solve_result_wiring_2d.
Print Assumptions C03_solve_result_wiring_3d.
Print Assumptions C03_no_zero_divisor_in_a_node_update_2d.
Print Assumptions C03_no_zero_divisor_in_a_pass_2d.
Print Assumptions C03_no_zero_divisor_locating_the_source_2d.
Print Assumptions C03_no_zero_divisor_in_the_solver_2d_partial.
Print Assumptions C03_no_zero_divisor_in_a_node_update_3d.
Print Assumptions C03_no_zero_divisor_in_a_pass_3d.
Print Assumptions C03_no_zero_divisor_in_the_solver_3d.
