(* C12  Memory safety of every compiled kernel: index obligations f_ok (wI = true) of the generated kernels hold for all shapes; for the ray buffers the value-semantics count range is the statement
   Only statements and `exact`: the proofs are in proofs/.  Written by tools/mkprops.py from Coq's own printing of the
   lemma statements; every statement is in full below so that it cannot be weakened without this file changing. *)
From Coq Require Import ZArith List Bool Reals PrimFloat.
From FT.lib Require Import Num Arr ArrLemmas NumArr.
From FT.gen Require Import Common Interp2d Interp3d Vinterp2d Vinterp3d Fteik2d Fteik3d Ray2d Ray3d.
From FT.proofs Require Import NumFLaws SafetyTools Safety2d SafetyInterp Ray2dProofs.
From FT.proofs Require Safety3d Ray3dProofs RaySafety2d RaySafety3d RaySafetyExtra SafetySolveTools SafetySolve2d SafetySolve3d TruncLawsF.
From FT.model Require Import Api.
From FT.proofs Require ApiGenEq.
Import ListNotations.
Open Scope Z_scope.

(* one 2D node update performs only in-range accesses, for every shape with >= 2 nodes per axis (1-cell-thick models included), in each of the four direction patterns the passes use *)
Theorem C12_sweep_ok_2d :
  forall (T : Type) (H : Num T) (tt : arr T) (ttsgn : arr Z) (slow : arr T) (dargs : T * T * T * T * T * T)
         (zsi xsi zsa xsa vzero : T) (i j sgnvz sgnvx sgntz sgntx nz nx : Z) (grad : bool),
       2 <= nz ->
       2 <= nx ->
       shape tt = [nz; nx] ->
       shape slow = [nz - 1; nx - 1] ->
       (grad = true -> shape ttsgn = [nz; nx; 2]) ->
       dirp sgnvz sgntz i nz ->
       dirp sgnvx sgntx j nx ->
       Fteik2d.sweep_ok true false tt ttsgn slow dargs zsi xsi zsa xsa vzero i j sgnvz sgnvx sgntz sgntx nz nx grad =
       true.
Proof. exact @Safety2d.sweep_ok_true. Qed.

(* a whole 2D pass (all four loop nests) *)
Theorem C12_sweep2d_ok :
  forall (T : Type) (H : Num T) (tt : arr T) (ttsgn : arr Z) (slow : arr T) (dz dx zsi xsi zsa xsa vzero : T)
         (nz nx : Z) (grad : bool),
       2 <= nz ->
       2 <= nx ->
       shape tt = [nz; nx] ->
       shape slow = [nz - 1; nx - 1] ->
       (grad = true -> shape ttsgn = [nz; nx; 2]) ->
       sweep2d_ok true false tt ttsgn slow dz dx zsi xsi zsa xsa vzero nz nx grad = true.
Proof. exact @Safety2d.sweep2d_ok_true. Qed.

(* one 3D node update, eight direction patterns *)
Theorem C12_sweep_ok_3d :
  forall (T : Type) (H : Num T) (tt : arr T) (ttsgn : arr Z) (slow : arr T)
         (dargs : T * T * T * T * T * T * T * T * T * T) (i j k sgnvz sgnvx sgnvy sgntz sgntx sgnty nz nx ny : Z)
         (grad : bool),
       2 <= nz ->
       2 <= nx ->
       2 <= ny ->
       shape tt = [nz; nx; ny] ->
       shape slow = [nz - 1; nx - 1; ny - 1] ->
       (grad = true -> shape ttsgn = [nz; nx; ny; 3]) ->
       dirp sgnvz sgntz i nz ->
       dirp sgnvx sgntx j nx ->
       dirp sgnvy sgnty k ny ->
       sweep_ok true false tt ttsgn slow dargs i j k sgnvz sgnvx sgnvy sgntz sgntx sgnty nz nx ny grad = true.
Proof. exact @Safety3d.sweep_ok_true. Qed.

(* a whole 3D pass *)
Theorem C12_sweep3d_ok :
  forall (T : Type) (H : Num T) (tt : arr T) (ttsgn : arr Z) (slow : arr T) (dz dx dy : T) 
         (nz nx ny : Z) (grad : bool),
       2 <= nz ->
       2 <= nx ->
       2 <= ny ->
       shape tt = [nz; nx; ny] ->
       shape slow = [nz - 1; nx - 1; ny - 1] ->
       (grad = true -> shape ttsgn = [nz; nx; ny; 3]) ->
       sweep3d_ok true false tt ttsgn slow dz dx dy nz nx ny grad = true.
Proof. exact @Safety3d.sweep3d_ok_true. Qed.

(* gradient bookkeeping invariant sgn_inv: signs in {-1,0,1}, +1 only where the upwind neighbour i-1 exists, -1 only where i+1 exists - holds initially *)
Theorem C12_sign_invariant_initially :
  forall nz nx : Z, 0 <= nz -> 0 <= nx -> sgn_inv nz nx (full [nz; nx; 2] 0).
Proof. exact @Safety2d.sgn_inv_zeros. Qed.

(* through the off-node source initialisation *)
Theorem C12_sign_invariant_through_initialisation :
  forall (T : Type) (H : Num T) (dx dz : T) (grad : bool) (iflag nx nz : Z) (slow tt ttgrad : arr T)
         (ttsgn : arr Z) (vzero xsa zsa : T) (xsi zsi : Z),
       0 <= zsi <= nz - 2 ->
       0 <= xsi <= nx - 2 ->
       sgn_inv nz nx ttsgn ->
       sgn_inv nz nx (snd (fteik2d_p2 dx dz grad iflag nx nz slow tt ttgrad ttsgn vzero xsa xsi zsa zsi)).
Proof. exact @Safety2d.init_preserves_sgn_inv. Qed.

(* and through every pass *)
Theorem C12_sign_invariant_through_sweeps :
  forall (T : Type) (H : Num T) (tt : arr T) (ttsgn : arr Z) (slow : arr T) (dz dx zsi xsi zsa xsa vzero : T)
         (nz nx : Z) (grad : bool),
       sgn_inv nz nx ttsgn -> sgn_inv nz nx (snd (sweep2d tt ttsgn slow dz dx zsi xsi zsa xsa vzero nz nx grad)).
Proof. exact @Safety2d.sweep2d_preserves_sgn_inv. Qed.

(* hence the gradient assembly tt[i - sgn, j] only reads in range *)
Theorem C12_gradient_assembly_ok :
  forall (T : Type) (H : Num T) (tt : arr T) (ttsgn : arr Z) (ttgrad : arr T) (dz dx : T) (nz nx : Z),
       shape tt = [nz; nx] ->
       sgn_inv nz nx ttsgn -> shape ttgrad = [nz; nx; 2] -> assembly_ok true false tt ttsgn ttgrad dz dx nz nx = true.
Proof. exact @Safety2d.assembly_ok_true. Qed.

(* (tie: assembly_ok is literally the obligation text inside the generated fteik2d_ok) *)
Theorem C12_assembly_is_the_generated_code :
  forall (T : Type) (H : Num T) (wI wD : bool) (slow : arr T) (dz dx zsrc xsrc : T) (nsweep : Z) (grad : bool),
       fteik2d_ok wI wD slow dz dx zsrc xsrc nsweep grad =
       (let u_r_v := (dim slow 0, dim slow 1) in
        let nz := fst u_r_v in
        let nx := snd u_r_v in
        let condz := nleb (nofZ 0) zsrc && nleb zsrc (nmul dz (nofZ nz)) in
        let condx := nleb (nofZ 0) xsrc && nleb xsrc (nmul dx (nofZ nx)) in
        if negb (condz && condx)
        then true
        else
         fteik2d_p1_ok wI wD dx dz grad nx nz slow xsrc zsrc &&
         (let u_p_v := fteik2d_p1 dx dz grad nx nz slow xsrc zsrc in
          let iflag := fst (fst (fst (fst (fst (fst (fst (fst (fst (fst u_p_v))))))))) in
          let nx0 := snd (fst (fst (fst (fst (fst (fst (fst (fst (fst u_p_v))))))))) in
          let nz0 := snd (fst (fst (fst (fst (fst (fst (fst (fst u_p_v)))))))) in
          let tt_v := snd (fst (fst (fst (fst (fst (fst (fst u_p_v))))))) in
          let ttgrad := snd (fst (fst (fst (fst (fst (fst u_p_v)))))) in
          let ttsgn := snd (fst (fst (fst (fst (fst u_p_v))))) in
          let vzero := snd (fst (fst (fst (fst u_p_v)))) in
          let xsa := snd (fst (fst (fst u_p_v))) in
          let xsi := snd (fst (fst u_p_v)) in
          let zsa := snd (fst u_p_v) in
          let zsi := snd u_p_v in
          fteik2d_p2_ok wI wD dx dz grad iflag nx0 nz0 slow tt_v ttgrad ttsgn vzero xsa xsi zsa zsi &&
          (let u_p_v0 := fteik2d_p2 dx dz grad iflag nx0 nz0 slow tt_v ttgrad ttsgn vzero xsa xsi zsa zsi in
           let tt_v0 := fst (fst u_p_v0) in
           let ttgrad0 := snd (fst u_p_v0) in
           let ttsgn0 := snd u_p_v0 in
           for_list_ok (pyrange 0 nsweep 1)
             (fun (_ : Z) (u_s_v : arr T * arr Z) =>
              let tt_v1 := fst u_s_v in
              let ttsgn1 := snd u_s_v in
              sweep2d_ok wI wD tt_v1 ttsgn1 slow dz dx (nofZ zsi) (nofZ xsi) zsa xsa vzero nz0 nx0 grad &&
              (let u_r_v0 := sweep2d tt_v1 ttsgn1 slow dz dx (nofZ zsi) (nofZ xsi) zsa xsa vzero nz0 nx0 grad in
               let tt_v2 := fst u_r_v0 in let ttsgn2 := snd u_r_v0 in true))
             (fun (_ : Z) (u_s_v : arr T * arr Z) =>
              let tt_v1 := fst u_s_v in
              let ttsgn1 := snd u_s_v in
              let u_r_v0 := sweep2d tt_v1 ttsgn1 slow dz dx (nofZ zsi) (nofZ xsi) zsa xsa vzero nz0 nx0 grad in
              let tt_v2 := fst u_r_v0 in let ttsgn2 := snd u_r_v0 in (tt_v2, ttsgn2)) (tt_v0, ttsgn0) &&
           (let u_s_v :=
              for_list (pyrange 0 nsweep 1)
                (fun (_ : Z) (u_s_v : arr T * arr Z) =>
                 let tt_v1 := fst u_s_v in
                 let ttsgn1 := snd u_s_v in
                 let u_r_v0 := sweep2d tt_v1 ttsgn1 slow dz dx (nofZ zsi) (nofZ xsi) zsa xsa vzero nz0 nx0 grad in
                 let tt_v2 := fst u_r_v0 in let ttsgn2 := snd u_r_v0 in (tt_v2, ttsgn2)) (tt_v0, ttsgn0) in
            let tt_v1 := fst u_s_v in
            let ttsgn1 := snd u_s_v in
            if grad then assembly_ok wI wD tt_v1 ttsgn1 ttgrad0 dz dx nz0 nx0 && true else true)))).
Proof. exact @Safety2d.fteik2d_ok_assembly. Qed.

(* the nsweep loop followed by the assembly *)
Theorem C12_sweeps_and_assembly_ok :
  forall (T : Type) (H : Num T) (slow : arr T) (dz dx zsi xsi zsa xsa vzero : T) (nz nx nsweep : Z) 
         (grad : bool) (tt : arr T) (ttsgn : arr Z) (ttgrad : arr T),
       2 <= nz ->
       2 <= nx ->
       shape tt = [nz; nx] ->
       shape slow = [nz - 1; nx - 1] ->
       (grad = true -> sgn_inv nz nx ttsgn /\ shape ttgrad = [nz; nx; 2]) ->
       tail_ok true false slow dz dx zsi xsi zsa xsa vzero nz nx nsweep grad tt ttsgn ttgrad = true.
Proof. exact @Safety2d.tail_ok_true. Qed.

(* point evaluation: in range for every query point, axes with >= 2 nodes (le_lt_law: a <= b implies not b < a, proved for reals and binary64 below) *)
Theorem C12_interp2d_ok :
  forall (T : Type) (H : Num T),
       le_lt_law ->
       forall (x y v : arr T) (xq yq fval : T) (nx ny : Z),
       axisn x nx ->
       axisn y ny -> 2 <= nx -> 2 <= ny -> shape v = [nx; ny] -> u_interp2d_v_ok true false x y v xq yq fval = true.
Proof. exact @SafetyInterp.interp2d_ok_true. Qed.

(* 3D *)
Theorem C12_interp3d_ok :
  forall (T : Type) (H : Num T),
       le_lt_law ->
       forall (x y z v : arr T) (xq yq zq fval : T) (nx ny nz : Z),
       axisn x nx ->
       axisn y ny ->
       axisn z nz ->
       2 <= nx ->
       2 <= ny -> 2 <= nz -> shape v = [nx; ny; nz] -> u_interp3d_v_ok true false x y z v xq yq zq fval = true.
Proof. exact @SafetyInterp.interp3d_ok_true. Qed.

(* traveltime evaluation *)
Theorem C12_vinterp2d_ok :
  forall (T : Type) (H : Num T),
       le_lt_law ->
       forall (x y v : arr T) (xq yq xsrc ysrc vzero fval : T) (nx ny : Z),
       axisn x nx ->
       axisn y ny ->
       2 <= nx -> 2 <= ny -> shape v = [nx; ny] -> u_vinterp2d_v_ok true false x y v xq yq xsrc ysrc vzero fval = true.
Proof. exact @SafetyInterp.vinterp2d_ok_true. Qed.

(* 3D *)
Theorem C12_vinterp3d_ok :
  forall (T : Type) (H : Num T),
       le_lt_law ->
       forall (x y z v : arr T) (xq yq zq xsrc ysrc zsrc vzero fval : T) (nx ny nz : Z),
       axisn x nx ->
       axisn y ny ->
       axisn z nz ->
       2 <= nx ->
       2 <= ny ->
       2 <= nz ->
       shape v = [nx; ny; nz] -> u_vinterp3d_v_ok true false x y z v xq yq zq xsrc ysrc zsrc vzero fval = true.
Proof. exact @SafetyInterp.vinterp3d_ok_true. Qed.

(* the order law used above holds for binary64 *)
Theorem C12_le_lt_law_binary64 :
  le_lt_law.
Proof. exact @SafetyInterp.le_lt_law_F. Qed.

(* the hypothesis 2 <= nx is needed: with a one-sample axis the kernel reads x[-2] out of range (known finding F13), witness by vm_compute *)
Theorem C12_single_node_axis_refuted :
  exists (x y v : arr float) (xq yq fval : float), u_interp2d_v_ok true false x y v xq yq fval = false.
Proof. exact @SafetyInterp.interp2d_ok_single_node_refuted. Qed.

(* ray buffer: every returned count is below max_step and the buffer is never reshaped *)
Theorem C12_ray_buffer_2d :
  forall (T : Type) (H : Num T) (z x zgrad xgrad : arr T) (zend xend zsrc xsrc stepsize : T) 
         (max_step : Z) (hg : bool) (fuel : nat) (ray : arr T) (count : Z),
       u_ray2d_core_v fuel z x zgrad xgrad zend xend zsrc xsrc stepsize max_step hg = Ok (ray, count) ->
       (count = -1 \/ count = -2 \/ 1 <= count < max_step) /\ shape ray = [max_step; 2].
Proof. exact @Ray2dProofs.ray2d_core_count_range. Qed.

(* 3D *)
Theorem C12_ray_buffer_3d :
  forall (T : Type) (H : Num T) (z x y zgrad xgrad ygrad : arr T) (zend xend yend zsrc xsrc ysrc stepsize : T)
         (max_step : Z) (hg : bool) (fuel : nat) (ray : arr T) (count : Z),
       u_ray3d_core_v fuel z x y zgrad xgrad ygrad zend xend yend zsrc xsrc ysrc stepsize max_step hg = Ok (ray, count) ->
       (count = -1 \/ count = -2 \/ 1 <= count < max_step) /\ shape ray = [max_step; 3].
Proof. exact @Ray3dProofs.ray3d_core_count_range. Qed.

(* the step-shortening helper: masked selections have equal lengths, no index leaves its array *)
Theorem C12_shrink_ok :
  forall (T : Type) (H : Num T) (pcur delta lower upper : arr T),
       shape pcur = shape delta -> FteikCommon.shrink_ok true false pcur delta lower upper = true.
Proof. exact @RaySafety2d.shrink_ok_true_gen. Qed.

(* the whole 2D tracing loop (cell lookup, gradient evaluation, vertex buffer) for every fuel, end point, source and step; grid-honouring mode needs no axis node below the first (axis_min), which every ascending axis satisfies *)
Theorem C12_ray2d_core_ok :
  forall (T : Type) (H : Num T),
       RaySafety2d.RayLaws ->
       forall (z x zgrad xgrad : arr T) (nz nx : Z),
       axisn z nz ->
       axisn x nx ->
       2 <= nz ->
       2 <= nx ->
       shape zgrad = [nz; nx] ->
       shape xgrad = [nz; nx] ->
       forall (fuel : nat) (zend xend zsrc xsrc stepsize : T) (max_step : Z) (hg : bool),
       1 <= max_step ->
       (hg = true -> RaySafety2d.axis_min z nz /\ RaySafety2d.axis_min x nx) ->
       u_ray2d_core_v_ok true false fuel z x zgrad xgrad zend xend zsrc xsrc stepsize max_step hg = true.
Proof. exact @RaySafety2d.ray2d_core_ok_true. Qed.

(* the public single-ray entry point, reversal of the buffer prefix included *)
Theorem C12_ray2d_ok :
  forall (T : Type) (H : Num T),
       RaySafety2d.RayLaws ->
       forall (z x zgrad xgrad : arr T) (nz nx : Z),
       axisn z nz ->
       axisn x nx ->
       2 <= nz ->
       2 <= nx ->
       shape zgrad = [nz; nx] ->
       shape xgrad = [nz; nx] ->
       forall (fuel : nat) (p src : arr T) (stepsize : T) (max_step : Z) (hg : bool),
       shape p = [2] ->
       shape src = [2] ->
       1 <= max_step ->
       (hg = true -> RaySafety2d.axis_min z nz /\ RaySafety2d.axis_min x nx) ->
       ray2d_1_ok true false fuel z x zgrad xgrad p src stepsize max_step hg = true.
Proof. exact @RaySafety2d.ray2d_1_ok_true. Qed.

(* 3D *)
Theorem C12_ray3d_core_ok :
  forall (T : Type) (H : Num T),
       RaySafety2d.RayLaws ->
       forall (z x y zgrad xgrad ygrad : arr T) (nz nx ny : Z),
       axisn z nz ->
       axisn x nx ->
       axisn y ny ->
       2 <= nz ->
       2 <= nx ->
       2 <= ny ->
       shape zgrad = [nz; nx; ny] ->
       shape xgrad = [nz; nx; ny] ->
       shape ygrad = [nz; nx; ny] ->
       forall (fuel : nat) (zend xend yend zsrc xsrc ysrc stepsize : T) (max_step : Z) (hg : bool),
       1 <= max_step ->
       (hg = true -> RaySafety2d.axis_min z nz /\ RaySafety2d.axis_min x nx /\ RaySafety2d.axis_min y ny) ->
       u_ray3d_core_v_ok true false fuel z x y zgrad xgrad ygrad zend xend yend zsrc xsrc ysrc stepsize max_step hg =
       true.
Proof. exact @RaySafety3d.ray3d_core_ok_true. Qed.

(* 3D entry point *)
Theorem C12_ray3d_ok :
  forall (T : Type) (H : Num T),
       RaySafety2d.RayLaws ->
       forall (z x y zgrad xgrad ygrad : arr T) (nz nx ny : Z),
       axisn z nz ->
       axisn x nx ->
       axisn y ny ->
       2 <= nz ->
       2 <= nx ->
       2 <= ny ->
       shape zgrad = [nz; nx; ny] ->
       shape xgrad = [nz; nx; ny] ->
       shape ygrad = [nz; nx; ny] ->
       forall (fuel : nat) (p src : arr T) (stepsize : T) (max_step : Z) (hg : bool),
       shape p = [3] ->
       shape src = [3] ->
       1 <= max_step ->
       (hg = true -> RaySafety2d.axis_min z nz /\ RaySafety2d.axis_min x nx /\ RaySafety2d.axis_min y ny) ->
       ray3d_1_ok true false fuel z x y zgrad xgrad ygrad p src stepsize max_step hg = true.
Proof. exact @RaySafety3d.ray3d_1_ok_true. Qed.

(* binary64 instance (NaN included) *)
Theorem C12_ray_ok_binary64_2d :
  forall (z x zgrad xgrad : arr float) (nz nx : Z) (fuel : nat) (zend xend zsrc xsrc stepsize : float)
         (max_step : Z) (hg : bool),
       axisn z nz ->
       axisn x nx ->
       2 <= nz ->
       2 <= nx ->
       shape zgrad = [nz; nx] ->
       shape xgrad = [nz; nx] ->
       1 <= max_step ->
       (hg = true -> RaySafety2d.axis_min z nz /\ RaySafety2d.axis_min x nx) ->
       u_ray2d_core_v_ok true false fuel z x zgrad xgrad zend xend zsrc xsrc stepsize max_step hg = true.
Proof. exact @RaySafety2d.ray2d_core_ok_true_F. Qed.

(* 3D *)
Theorem C12_ray_ok_binary64_3d :
  forall (z x y zgrad xgrad ygrad : arr float) (nz nx ny : Z) (fuel : nat)
         (zend xend yend zsrc xsrc ysrc stepsize : float) (max_step : Z) (hg : bool),
       axisn z nz ->
       axisn x nx ->
       axisn y ny ->
       2 <= nz ->
       2 <= nx ->
       2 <= ny ->
       shape zgrad = [nz; nx; ny] ->
       shape xgrad = [nz; nx; ny] ->
       shape ygrad = [nz; nx; ny] ->
       1 <= max_step ->
       (hg = true -> RaySafety2d.axis_min z nz /\ RaySafety2d.axis_min x nx /\ RaySafety2d.axis_min y ny) ->
       u_ray3d_core_v_ok true false fuel z x y zgrad xgrad ygrad zend xend yend zsrc xsrc ysrc stepsize max_step hg =
       true.
Proof. exact @RaySafety3d.ray3d_core_ok_true_F. Qed.

(* axis_min is needed in grid-honouring mode: with z = [0; -2^-30; 1] the magnetism snaps below z[0] and z[-1] is read (witness by vm_compute; such an axis is never produced by the API, whose axes ascend) *)
Theorem C12_ray_axis_min_needed :
  u_ray2d_core_v_ok true false 5 RaySafety2d.ex_bad_ax RaySafety2d.ex_ax RaySafety2d.ex_grad32
         RaySafety2d.ex_zero32 0.5%float 0.5%float 0.5%float 0%float 0.375%float 10 true = false.
Proof. exact @RaySafety2d.ray2d_core_ok_axis_min_refuted. Qed.

(* max_step >= 1 is needed: a zero-row buffer is written at row 0 *)
Theorem C12_ray_max_step_0_refuted :
  u_ray2d_core_v_ok true false 5 RaySafety2d.ex_ax RaySafety2d.ex_ax RaySafety2d.ex_grad RaySafety2d.ex_grad
         0.5%float 0.5%float 0%float 0%float 0.25%float 0 false = false.
Proof. exact @RaySafety2d.ray2d_core_ok_max_step_0_refuted. Qed.

(* the list (parallel) form of the 2D tracer and its public entry point: every per-item access, the per-item buffers and the count array in range, any number of end points *)
Theorem C12_ray2d_list_ok :
  forall (T : Type) (H : Num T),
       RaySafety2d.RayLaws ->
       forall (z x zgrad xgrad : arr T) (nz nx : Z),
       axisn z nz ->
       axisn x nx ->
       2 <= nz ->
       2 <= nx ->
       shape zgrad = [nz; nx] ->
       shape xgrad = [nz; nx] ->
       forall (fuel : nat) (p src : arr T) (n : Z) (stepsize : T) (max_step : Z) (hg : bool),
       shape p = [n; 2] ->
       shape src = [2] ->
       1 <= max_step ->
       (hg = true -> RaySafety2d.axis_min z nz /\ RaySafety2d.axis_min x nx) ->
       ray2d_n_ok true false fuel z x zgrad xgrad p src stepsize max_step hg = true.
Proof. exact @RaySafetyExtra.ray2d_n_ok_true. Qed.

(* 3D list form *)
Theorem C12_ray3d_list_ok :
  forall (T : Type) (H : Num T),
       RaySafety2d.RayLaws ->
       forall (z x y zgrad xgrad ygrad : arr T) (nz nx ny : Z),
       axisn z nz ->
       axisn x nx ->
       axisn y ny ->
       2 <= nz ->
       2 <= nx ->
       2 <= ny ->
       shape zgrad = [nz; nx; ny] ->
       shape xgrad = [nz; nx; ny] ->
       shape ygrad = [nz; nx; ny] ->
       forall (fuel : nat) (p src : arr T) (n : Z) (stepsize : T) (max_step : Z) (hg : bool),
       shape p = [n; 3] ->
       shape src = [3] ->
       1 <= max_step ->
       (hg = true -> RaySafety2d.axis_min z nz /\ RaySafety2d.axis_min x nx /\ RaySafety2d.axis_min y ny) ->
       ray3d_n_ok true false fuel z x y zgrad xgrad ygrad p src stepsize max_step hg = true.
Proof. exact @RaySafetyExtra.ray3d_n_ok_true. Qed.

(* the end-point array must have 2 columns: with shape [2;1] the obligation is false (vm_compute) *)
Theorem C12_ray_list_shape_needed :
  ray2d_n_ok true false 200 RaySafety2d.ex_ax RaySafety2d.ex_ax RaySafety2d.ex_grad RaySafety2d.ex_grad
         {| shape := [2; 1]; dat := [0.75%float; 0.5%float] |} RaySafetyExtra.xb_src2 0.25%float 20 true = false.
Proof. exact @RaySafetyExtra.ray2d_n_ok_shape_needed. Qed.

(* the WHOLE 2D solver (domain test, source cell lookup, both initialisation branches with all four loops and the admissibility guards, nsweep passes, gradient assembly) performs only in-range accesses, for every model with >= 1 cell per axis, positive spacings, every source (an outside source raises before any access), nsweep and flag - for every numeric instance satisfying TruncLaws (truncation of a non-negative quotient is non-negative; the rounded quotient of an in-domain source is a node index) *)
Theorem C12_solve2d_ok :
  forall (T : Type) (H : Num T) (TruncLaws0 : SafetySolveTools.TruncLaws T) (slow : arr T) 
         (dz dx zsrc xsrc : T) (nsweep : Z) (grad : bool) (nz nx : Z),
       shape slow = [nz; nx] ->
       1 <= nz ->
       1 <= nx ->
       SafetySolveTools.cells_ok nz ->
       SafetySolveTools.cells_ok nx ->
       nltb (nofZ 0) dz = true ->
       nltb (nofZ 0) dx = true -> fteik2d_ok true false slow dz dx zsrc xsrc nsweep grad = true.
Proof. exact @SafetySolve2d.fteik2d_ok_true. Qed.

(* the real-number instance satisfies TruncLaws *)
Theorem C12_solve2d_ok_reals :
  forall (slow : arr R) (dz dx zsrc xsrc : R) (nsweep : Z) (grad : bool) (nz nx : Z),
       shape slow = [nz; nx] ->
       1 <= nz -> 1 <= nx -> (0 < dz)%R -> (0 < dx)%R -> fteik2d_ok true false slow dz dx zsrc xsrc nsweep grad = true.
Proof. exact @SafetySolve2d.fteik2d_ok_true_R. Qed.

(* the whole 3D solver, every numeric instance satisfying TruncDivLaw *)
Theorem C12_solve3d_ok :
  forall (T : Type) (H : Num T),
       SafetySolveTools.TruncDivLaw T ->
       forall (slow : arr T) (dz dx dy zsrc xsrc ysrc : T) (nsweep : Z) (grad : bool) (nz nx ny : Z),
       shape slow = [nz; nx; ny] ->
       1 <= nz ->
       1 <= nx ->
       1 <= ny ->
       nltb (nofZ 0) dz = true ->
       nltb (nofZ 0) dx = true ->
       nltb (nofZ 0) dy = true -> fteik3d_ok true false slow dz dx dy zsrc xsrc ysrc nsweep grad = true.
Proof. exact @SafetySolve3d.fteik3d_ok_true. Qed.

(* binary64 satisfies TruncDivLaw (NaN and infinities included): the 3D statement is unconditional for the floats the code runs on *)
Theorem C12_solve3d_ok_binary64 :
  forall (slow : arr float) (dz dx dy zsrc xsrc ysrc : float) (nsweep : Z) (grad : bool) (nz nx ny : Z),
       shape slow = [nz; nx; ny] ->
       1 <= nz ->
       1 <= nx ->
       1 <= ny ->
       (f_ofZ 0 <? dz)%float = true ->
       (f_ofZ 0 <? dx)%float = true ->
       (f_ofZ 0 <? dy)%float = true -> fteik3d_ok true false slow dz dx dy zsrc xsrc ysrc nsweep grad = true.
Proof. exact @SafetySolve3d.fteik3d_ok_true_F. Qed.

(* the law itself *)
Theorem C12_trunc_div_law_binary64 :
  SafetySolveTools.TruncDivLaw float.
Proof. exact @SafetySolveTools.TruncDivLawF. Qed.

(* for binary64 the second law (2D on-node branch tt[int(zsa), int(xsa)] = 0) is false without a bound on the number of cells: n = 2^53+3, d = 1, z = 2^53+4 passes the domain test and indexes node n+1 (witness by vm_compute; such grids do not fit in memory) *)
Theorem C12_on_node_branch_needs_bounded_grid :
  exists (z d : float) (n : Z),
         nleb (nofZ 0) z = true /\
         nltb (nofZ 0) d = true /\ nleb z (nmul d (nofZ n)) = true /\ n < ntrunc (nround (ndiv z d)).
Proof. exact @SafetySolveTools.trunc_round_div_range_F_needs_bound. Qed.

(* binary64: with 1 <= n <= 2^50 cells the rounded quotient of an in-domain coordinate is a node index - all floats z, d (NaN, infinities, signed zeros, subnormal d, overflow of d*n, underflow of z/d), via Flocq *)
Theorem C12_on_node_law_binary64 :
  forall (z d : float) (n : Z),
       1 <= n <= 2 ^ 50 ->
       (f_ofZ 0 <=? z)%float = true ->
       (f_ofZ 0 <? d)%float = true -> (z <=? d * f_ofZ n)%float = true -> 0 <= f_trunc (f_round (z / d)) <= n.
Proof. exact @TruncLawsF.trunc_round_div_range_F. Qed.

(* hence the whole 2D solver performs only in-range accesses on binary64, for every model with 1..2^50 cells per axis, positive spacings, every source (NaN included), nsweep and flag *)
Theorem C12_solve2d_ok_binary64 :
  forall (slow : arr float) (dz dx zsrc xsrc : float) (nsweep : Z) (grad : bool) (nz nx : Z),
       shape slow = [nz; nx] ->
       1 <= nz <= 2 ^ 50 ->
       1 <= nx <= 2 ^ 50 ->
       (0 <? dz)%float = true ->
       (0 <? dx)%float = true -> fteik2d_ok true false slow dz dx zsrc xsrc nsweep grad = true.
Proof. exact @TruncLawsF.fteik2d_ok_true_F. Qed.

(* 3D gradient bookkeeping invariant through every pass *)
Theorem C12_sign_invariant_3d :
  forall (T : Type) (H : Num T) (tt : arr T) (ttsgn : arr Z) (slow : arr T) (dz dx dy : T) 
         (nz nx ny : Z) (grad : bool),
       SafetySolve3d.tinv3 nz nx ny grad (tt, ttsgn) ->
       SafetySolve3d.tinv3 nz nx ny grad (sweep3d tt ttsgn slow dz dx dy nz nx ny grad).
Proof. exact @SafetySolve3d.sweep3d_preserves_tinv3. Qed.

(* 3D gradient assembly reads in range under it *)
Theorem C12_gradient_assembly_ok_3d :
  forall (T : Type) (H : Num T) (dx dy dz : T) (grad : bool) (i j k nx ny nz : Z) (tt ttgrad : arr T)
         (ttsgn : arr Z),
       shape tt = [nz; nx; ny] ->
       (grad = true -> SafetySolve3d.sgn_inv3 nz nx ny ttsgn /\ shape ttgrad = [nz; nx; ny; 3]) ->
       fteik3d_p1_ok true false dx dy dz grad i j k nx ny nz tt ttgrad ttsgn = true.
Proof. exact @SafetySolve3d.fteik3d_p1_ok_true. Qed.

(* the precondition of the interpolator safety theorems, on the API side (extracted from _base.py on every run): the axis handed to the kernels has one node per sample of the grid's CURRENT shape along that axis (origin + spacing * k, k < shape[0]) ... *)
Theorem C12_axes_have_the_length_of_the_current_shape_2d_z :
  forall (T : Type) (N : Num T) (origin gridsize : list T) (shape : list Z),
       ApiGen.axis_2d_zaxis origin gridsize shape =
       axis_nodes (nth 0 origin (nofZ 0)) (nth 0 gridsize (nofZ 0)) (nth 0 shape 0).
Proof. exact @ApiGenEq.gen_axis_2d_zaxis_eq_gen. Qed.

(* second axis *)
Theorem C12_axes_have_the_length_of_the_current_shape_2d_x :
  forall (T : Type) (N : Num T) (origin gridsize : list T) (shape : list Z),
       ApiGen.axis_2d_xaxis origin gridsize shape =
       axis_nodes (nth 1 origin (nofZ 0)) (nth 1 gridsize (nofZ 0)) (nth 1 shape 0).
Proof. exact @ApiGenEq.gen_axis_2d_xaxis_eq_gen. Qed.

(* 3D, third axis *)
Theorem C12_axes_have_the_length_of_the_current_shape_3d_y :
  forall (T : Type) (N : Num T) (origin gridsize : list T) (shape : list Z),
       ApiGen.axis_3d_yaxis origin gridsize shape =
       axis_nodes (nth 2 origin (nofZ 0)) (nth 2 gridsize (nofZ 0)) (nth 2 shape 0).
Proof. exact @ApiGenEq.gen_axis_3d_yaxis_eq_gen. Qed.

(* ... and is computed from the stored attributes on every access (no cached copy that could survive resample) *)
Theorem C12_axes_are_computed_from_stored_attributes_on_every_access :
  ApiGen.basegrid_init =
       [(String.String (Ascii.Ascii true true true true true false true false)
           (String.String (Ascii.Ascii true true true false false true true false)
              (String.String (Ascii.Ascii false true false false true true true false)
                 (String.String (Ascii.Ascii true false false true false true true false)
                    (String.String (Ascii.Ascii false false true false false true true false) String.EmptyString)))),
         String.String (Ascii.Ascii false true true true false true true false)
           (String.String (Ascii.Ascii false false false false true true true false)
              (String.String (Ascii.Ascii false true true true false true false false)
                 (String.String (Ascii.Ascii true false false false false true true false)
                    (String.String (Ascii.Ascii true true false false true true true false)
                       (String.String (Ascii.Ascii true false false false false true true false)
                          (String.String (Ascii.Ascii false true false false true true true false)
                             (String.String (Ascii.Ascii false true false false true true true false)
                                (String.String (Ascii.Ascii true false false false false true true false)
                                   (String.String (Ascii.Ascii true false false true true true true false)
                                      (String.String (Ascii.Ascii false false false true false true false false)
                                         (String.String (Ascii.Ascii true true true false false true true false)
                                            (String.String (Ascii.Ascii false true false false true true true false)
                                               (String.String (Ascii.Ascii true false false true false true true false)
                                                  (String.String
                                                     (Ascii.Ascii false false true false false true true false)
                                                     (String.String
                                                        (Ascii.Ascii false false true true false true false false)
                                                        (String.String
                                                           (Ascii.Ascii false false false false false true false false)
                                                           (String.String
                                                              (Ascii.Ascii false false true false false true true false)
                                                              (String.String
                                                                 (Ascii.Ascii false false true false true true true
                                                                    false)
                                                                 (String.String
                                                                    (Ascii.Ascii true false false true true true true
                                                                       false)
                                                                    (String.String
                                                                       (Ascii.Ascii false false false false true true
                                                                          true false)
                                                                       (String.String
                                                                          (Ascii.Ascii true false true false false true
                                                                             true false)
                                                                          (String.String
                                                                             (Ascii.Ascii true false true true true
                                                                                true false false)
                                                                             (String.String
                                                                                (Ascii.Ascii false true true true false
                                                                                   true true false)
                                                                                (String.String
                                                                                   (Ascii.Ascii false false false false
                                                                                      true true true false)
                                                                                   (String.String
                                                                                      (Ascii.Ascii false true true true
                                                                                         false true false false)
                                                                                      (String.String
                                                                                         (Ascii.Ascii false true true
                                                                                          false false true true false)
                                                                                         (String.String
                                                                                          (Ascii.Ascii false false true
                                                                                          true false true true false)
                                                                                          (String.String
                                                                                          (Ascii.Ascii true true true
                                                                                          true false true true false)
                                                                                          (String.String
                                                                                          (Ascii.Ascii true false false
                                                                                          false false true true false)
                                                                                          (String.String
                                                                                          (Ascii.Ascii false false true
                                                                                          false true true true false)
                                                                                          (String.String
                                                                                          (Ascii.Ascii false true true
                                                                                          false true true false false)
                                                                                          (String.String
                                                                                          (Ascii.Ascii false false true
                                                                                          false true true false false)
                                                                                          (String.String
                                                                                          (Ascii.Ascii true false false
                                                                                          true false true false false)
                                                                                          String.EmptyString))))))))))))))))))))))))))))))))));
        (String.String (Ascii.Ascii true true true true true false true false)
           (String.String (Ascii.Ascii true true true false false true true false)
              (String.String (Ascii.Ascii false true false false true true true false)
                 (String.String (Ascii.Ascii true false false true false true true false)
                    (String.String (Ascii.Ascii false false true false false true true false)
                       (String.String (Ascii.Ascii true true false false true true true false)
                          (String.String (Ascii.Ascii true false false true false true true false)
                             (String.String (Ascii.Ascii false true false true true true true false)
                                (String.String (Ascii.Ascii true false true false false true true false)
                                   String.EmptyString)))))))),
         String.String (Ascii.Ascii false false true false true true true false)
           (String.String (Ascii.Ascii true false true false true true true false)
              (String.String (Ascii.Ascii false false false false true true true false)
                 (String.String (Ascii.Ascii false false true true false true true false)
                    (String.String (Ascii.Ascii true false true false false true true false)
                       (String.String (Ascii.Ascii false false false true false true false false)
                          (String.String (Ascii.Ascii false false false true false true false false)
                             (String.String (Ascii.Ascii false true true false false true true false)
                                (String.String (Ascii.Ascii false false true true false true true false)
                                   (String.String (Ascii.Ascii true true true true false true true false)
                                      (String.String (Ascii.Ascii true false false false false true true false)
                                         (String.String (Ascii.Ascii false false true false true true true false)
                                            (String.String (Ascii.Ascii false false false true false true false false)
                                               (String.String (Ascii.Ascii false false false true true true true false)
                                                  (String.String
                                                     (Ascii.Ascii true false false true false true false false)
                                                     (String.String
                                                        (Ascii.Ascii false false false false false true false false)
                                                        (String.String
                                                           (Ascii.Ascii false true true false false true true false)
                                                           (String.String
                                                              (Ascii.Ascii true true true true false true true false)
                                                              (String.String
                                                                 (Ascii.Ascii false true false false true true true
                                                                    false)
                                                                 (String.String
                                                                    (Ascii.Ascii false false false false false true
                                                                       false false)
                                                                    (String.String
                                                                       (Ascii.Ascii false false false true true true
                                                                          true false)
                                                                       (String.String
                                                                          (Ascii.Ascii false false false false false
                                                                             true false false)
                                                                          (String.String
                                                                             (Ascii.Ascii true false false true false
                                                                                true true false)
                                                                             (String.String
                                                                                (Ascii.Ascii false true true true false
                                                                                   true true false)
                                                                                (String.String
                                                                                   (Ascii.Ascii false false false false
                                                                                      false true false false)
                                                                                   (String.String
                                                                                      (Ascii.Ascii true true true false
                                                                                         false true true false)
                                                                                      (String.String
                                                                                         (Ascii.Ascii false true false
                                                                                          false true true true false)
                                                                                         (String.String
                                                                                          (Ascii.Ascii true false false
                                                                                          true false true true false)
                                                                                          (String.String
                                                                                          (Ascii.Ascii false false true
                                                                                          false false true true false)
                                                                                          (String.String
                                                                                          (Ascii.Ascii true true false
                                                                                          false true true true false)
                                                                                          (String.String
                                                                                          (Ascii.Ascii true false false
                                                                                          true false true true false)
                                                                                          (String.String
                                                                                          (Ascii.Ascii false true false
                                                                                          true true true true false)
                                                                                          (String.String
                                                                                          (Ascii.Ascii true false true
                                                                                          false false true true false)
                                                                                          (String.String
                                                                                          (Ascii.Ascii true false false
                                                                                          true false true false false)
                                                                                          (String.String
                                                                                          (Ascii.Ascii true false false
                                                                                          true false true false false)
                                                                                          String.EmptyString)))))))))))))))))))))))))))))))))));
        (String.String (Ascii.Ascii true true true true true false true false)
           (String.String (Ascii.Ascii true true true true false true true false)
              (String.String (Ascii.Ascii false true false false true true true false)
                 (String.String (Ascii.Ascii true false false true false true true false)
                    (String.String (Ascii.Ascii true true true false false true true false)
                       (String.String (Ascii.Ascii true false false true false true true false)
                          (String.String (Ascii.Ascii false true true true false true true false) String.EmptyString)))))),
         String.String (Ascii.Ascii false true true true false true true false)
           (String.String (Ascii.Ascii false false false false true true true false)
              (String.String (Ascii.Ascii false true true true false true false false)
                 (String.String (Ascii.Ascii true false false false false true true false)
                    (String.String (Ascii.Ascii true true false false true true true false)
                       (String.String (Ascii.Ascii true false false false false true true false)
                          (String.String (Ascii.Ascii false true false false true true true false)
                             (String.String (Ascii.Ascii false true false false true true true false)
                                (String.String (Ascii.Ascii true false false false false true true false)
                                   (String.String (Ascii.Ascii true false false true true true true false)
                                      (String.String (Ascii.Ascii false false false true false true false false)
                                         (String.String (Ascii.Ascii true true true true false true true false)
                                            (String.String (Ascii.Ascii false true false false true true true false)
                                               (String.String (Ascii.Ascii true false false true false true true false)
                                                  (String.String
                                                     (Ascii.Ascii true true true false false true true false)
                                                     (String.String
                                                        (Ascii.Ascii true false false true false true true false)
                                                        (String.String
                                                           (Ascii.Ascii false true true true false true true false)
                                                           (String.String
                                                              (Ascii.Ascii false false true true false true false false)
                                                              (String.String
                                                                 (Ascii.Ascii false false false false false true false
                                                                    false)
                                                                 (String.String
                                                                    (Ascii.Ascii false false true false false true true
                                                                       false)
                                                                    (String.String
                                                                       (Ascii.Ascii false false true false true true
                                                                          true false)
                                                                       (String.String
                                                                          (Ascii.Ascii true false false true true true
                                                                             true false)
                                                                          (String.String
                                                                             (Ascii.Ascii false false false false true
                                                                                true true false)
                                                                             (String.String
                                                                                (Ascii.Ascii true false true false
                                                                                   false true true false)
                                                                                (String.String
                                                                                   (Ascii.Ascii true false true true
                                                                                      true true false false)
                                                                                   (String.String
                                                                                      (Ascii.Ascii false true true true
                                                                                         false true true false)
                                                                                      (String.String
                                                                                         (Ascii.Ascii false false false
                                                                                          false true true true false)
                                                                                         (String.String
                                                                                          (Ascii.Ascii false true true
                                                                                          true false true false false)
                                                                                          (String.String
                                                                                          (Ascii.Ascii false true true
                                                                                          false false true true false)
                                                                                          (String.String
                                                                                          (Ascii.Ascii false false true
                                                                                          true false true true false)
                                                                                          (String.String
                                                                                          (Ascii.Ascii true true true
                                                                                          true false true true false)
                                                                                          (String.String
                                                                                          (Ascii.Ascii true false false
                                                                                          false false true true false)
                                                                                          (String.String
                                                                                          (Ascii.Ascii false false true
                                                                                          false true true true false)
                                                                                          (String.String
                                                                                          (Ascii.Ascii false true true
                                                                                          false true true false false)
                                                                                          (String.String
                                                                                          (Ascii.Ascii false false true
                                                                                          false true true false false)
                                                                                          (String.String
                                                                                          (Ascii.Ascii true false false
                                                                                          true false true false false)
                                                                                          String.EmptyString))))))))))))))))))))))))))))))))))))] /\
       ApiGen.basegrid_props =
       [(String.String (Ascii.Ascii true true true false false true true false)
           (String.String (Ascii.Ascii false true false false true true true false)
              (String.String (Ascii.Ascii true false false true false true true false)
                 (String.String (Ascii.Ascii false false true false false true true false) String.EmptyString))),
         String.String (Ascii.Ascii true true false false true true true false)
           (String.String (Ascii.Ascii true false true false false true true false)
              (String.String (Ascii.Ascii false false true true false true true false)
                 (String.String (Ascii.Ascii false true true false false true true false)
                    (String.String (Ascii.Ascii false true true true false true false false)
                       (String.String (Ascii.Ascii true true true true true false true false)
                          (String.String (Ascii.Ascii true true true false false true true false)
                             (String.String (Ascii.Ascii false true false false true true true false)
                                (String.String (Ascii.Ascii true false false true false true true false)
                                   (String.String (Ascii.Ascii false false true false false true true false)
                                      String.EmptyString))))))))));
        (String.String (Ascii.Ascii true true true false false true true false)
           (String.String (Ascii.Ascii false true false false true true true false)
              (String.String (Ascii.Ascii true false false true false true true false)
                 (String.String (Ascii.Ascii false false true false false true true false)
                    (String.String (Ascii.Ascii true true false false true true true false)
                       (String.String (Ascii.Ascii true false false true false true true false)
                          (String.String (Ascii.Ascii false true false true true true true false)
                             (String.String (Ascii.Ascii true false true false false true true false)
                                String.EmptyString))))))),
         String.String (Ascii.Ascii true true false false true true true false)
           (String.String (Ascii.Ascii true false true false false true true false)
              (String.String (Ascii.Ascii false false true true false true true false)
                 (String.String (Ascii.Ascii false true true false false true true false)
                    (String.String (Ascii.Ascii false true true true false true false false)
                       (String.String (Ascii.Ascii true true true true true false true false)
                          (String.String (Ascii.Ascii true true true false false true true false)
                             (String.String (Ascii.Ascii false true false false true true true false)
                                (String.String (Ascii.Ascii true false false true false true true false)
                                   (String.String (Ascii.Ascii false false true false false true true false)
                                      (String.String (Ascii.Ascii true true false false true true true false)
                                         (String.String (Ascii.Ascii true false false true false true true false)
                                            (String.String (Ascii.Ascii false true false true true true true false)
                                               (String.String (Ascii.Ascii true false true false false true true false)
                                                  String.EmptyString))))))))))))));
        (String.String (Ascii.Ascii true true true true false true true false)
           (String.String (Ascii.Ascii false true false false true true true false)
              (String.String (Ascii.Ascii true false false true false true true false)
                 (String.String (Ascii.Ascii true true true false false true true false)
                    (String.String (Ascii.Ascii true false false true false true true false)
                       (String.String (Ascii.Ascii false true true true false true true false) String.EmptyString))))),
         String.String (Ascii.Ascii true true false false true true true false)
           (String.String (Ascii.Ascii true false true false false true true false)
              (String.String (Ascii.Ascii false false true true false true true false)
                 (String.String (Ascii.Ascii false true true false false true true false)
                    (String.String (Ascii.Ascii false true true true false true false false)
                       (String.String (Ascii.Ascii true true true true true false true false)
                          (String.String (Ascii.Ascii true true true true false true true false)
                             (String.String (Ascii.Ascii false true false false true true true false)
                                (String.String (Ascii.Ascii true false false true false true true false)
                                   (String.String (Ascii.Ascii true true true false false true true false)
                                      (String.String (Ascii.Ascii true false false true false true true false)
                                         (String.String (Ascii.Ascii false true true true false true true false)
                                            String.EmptyString))))))))))));
        (String.String (Ascii.Ascii true true false false true true true false)
           (String.String (Ascii.Ascii false false false true false true true false)
              (String.String (Ascii.Ascii true false false false false true true false)
                 (String.String (Ascii.Ascii false false false false true true true false)
                    (String.String (Ascii.Ascii true false true false false true true false) String.EmptyString)))),
         String.String (Ascii.Ascii true true false false true true true false)
           (String.String (Ascii.Ascii true false true false false true true false)
              (String.String (Ascii.Ascii false false true true false true true false)
                 (String.String (Ascii.Ascii false true true false false true true false)
                    (String.String (Ascii.Ascii false true true true false true false false)
                       (String.String (Ascii.Ascii true true true true true false true false)
                          (String.String (Ascii.Ascii true true true false false true true false)
                             (String.String (Ascii.Ascii false true false false true true true false)
                                (String.String (Ascii.Ascii true false false true false true true false)
                                   (String.String (Ascii.Ascii false false true false false true true false)
                                      (String.String (Ascii.Ascii false true true true false true false false)
                                         (String.String (Ascii.Ascii true true false false true true true false)
                                            (String.String (Ascii.Ascii false false false true false true true false)
                                               (String.String
                                                  (Ascii.Ascii true false false false false true true false)
                                                  (String.String
                                                     (Ascii.Ascii false false false false true true true false)
                                                     (String.String
                                                        (Ascii.Ascii true false true false false true true false)
                                                        String.EmptyString))))))))))))))))].
Proof. exact @ApiGenEq.gen_basegrid_storage. Qed.

(* the call hands these axes together with the object's own grid *)
Theorem C12_evaluation_hands_axes_and_grid_of_the_same_object_2d :
  ApiGen.call_2d_binding =
       [(String.String (Ascii.Ascii false false false true true true true false) String.EmptyString,
         String.String (Ascii.Ascii true true false false true true true false)
           (String.String (Ascii.Ascii true false true false false true true false)
              (String.String (Ascii.Ascii false false true true false true true false)
                 (String.String (Ascii.Ascii false true true false false true true false)
                    (String.String (Ascii.Ascii false true true true false true false false)
                       (String.String (Ascii.Ascii false true false true true true true false)
                          (String.String (Ascii.Ascii true false false false false true true false)
                             (String.String (Ascii.Ascii false false false true true true true false)
                                (String.String (Ascii.Ascii true false false true false true true false)
                                   (String.String (Ascii.Ascii true true false false true true true false)
                                      String.EmptyString))))))))));
        (String.String (Ascii.Ascii true false false true true true true false) String.EmptyString,
         String.String (Ascii.Ascii true true false false true true true false)
           (String.String (Ascii.Ascii true false true false false true true false)
              (String.String (Ascii.Ascii false false true true false true true false)
                 (String.String (Ascii.Ascii false true true false false true true false)
                    (String.String (Ascii.Ascii false true true true false true false false)
                       (String.String (Ascii.Ascii false false false true true true true false)
                          (String.String (Ascii.Ascii true false false false false true true false)
                             (String.String (Ascii.Ascii false false false true true true true false)
                                (String.String (Ascii.Ascii true false false true false true true false)
                                   (String.String (Ascii.Ascii true true false false true true true false)
                                      String.EmptyString))))))))));
        (String.String (Ascii.Ascii false true true false true true true false) String.EmptyString,
         String.String (Ascii.Ascii true true false false true true true false)
           (String.String (Ascii.Ascii true false true false false true true false)
              (String.String (Ascii.Ascii false false true true false true true false)
                 (String.String (Ascii.Ascii false true true false false true true false)
                    (String.String (Ascii.Ascii false true true true false true false false)
                       (String.String (Ascii.Ascii true true true true true false true false)
                          (String.String (Ascii.Ascii true true true false false true true false)
                             (String.String (Ascii.Ascii false true false false true true true false)
                                (String.String (Ascii.Ascii true false false true false true true false)
                                   (String.String (Ascii.Ascii false false true false false true true false)
                                      String.EmptyString))))))))));
        (String.String (Ascii.Ascii true false false false true true true false) String.EmptyString,
         String.String (Ascii.Ascii false true true true false true true false)
           (String.String (Ascii.Ascii false false false false true true true false)
              (String.String (Ascii.Ascii false true true true false true false false)
                 (String.String (Ascii.Ascii true false false false false true true false)
                    (String.String (Ascii.Ascii true true false false true true true false)
                       (String.String (Ascii.Ascii true false false false false true true false)
                          (String.String (Ascii.Ascii false true false false true true true false)
                             (String.String (Ascii.Ascii false true false false true true true false)
                                (String.String (Ascii.Ascii true false false false false true true false)
                                   (String.String (Ascii.Ascii true false false true true true true false)
                                      (String.String (Ascii.Ascii false false false true false true false false)
                                         (String.String (Ascii.Ascii false false false false true true true false)
                                            (String.String (Ascii.Ascii true true true true false true true false)
                                               (String.String (Ascii.Ascii true false false true false true true false)
                                                  (String.String
                                                     (Ascii.Ascii false true true true false true true false)
                                                     (String.String
                                                        (Ascii.Ascii false false true false true true true false)
                                                        (String.String
                                                           (Ascii.Ascii true true false false true true true false)
                                                           (String.String
                                                              (Ascii.Ascii false false true true false true false false)
                                                              (String.String
                                                                 (Ascii.Ascii false false false false false true false
                                                                    false)
                                                                 (String.String
                                                                    (Ascii.Ascii false false true false false true true
                                                                       false)
                                                                    (String.String
                                                                       (Ascii.Ascii false false true false true true
                                                                          true false)
                                                                       (String.String
                                                                          (Ascii.Ascii true false false true true true
                                                                             true false)
                                                                          (String.String
                                                                             (Ascii.Ascii false false false false true
                                                                                true true false)
                                                                             (String.String
                                                                                (Ascii.Ascii true false true false
                                                                                   false true true false)
                                                                                (String.String
                                                                                   (Ascii.Ascii true false true true
                                                                                      true true false false)
                                                                                   (String.String
                                                                                      (Ascii.Ascii false true true true
                                                                                         false true true false)
                                                                                      (String.String
                                                                                         (Ascii.Ascii false false false
                                                                                          false true true true false)
                                                                                         (String.String
                                                                                          (Ascii.Ascii false true true
                                                                                          true false true false false)
                                                                                          (String.String
                                                                                          (Ascii.Ascii false true true
                                                                                          false false true true false)
                                                                                          (String.String
                                                                                          (Ascii.Ascii false false true
                                                                                          true false true true false)
                                                                                          (String.String
                                                                                          (Ascii.Ascii true true true
                                                                                          true false true true false)
                                                                                          (String.String
                                                                                          (Ascii.Ascii true false false
                                                                                          false false true true false)
                                                                                          (String.String
                                                                                          (Ascii.Ascii false false true
                                                                                          false true true true false)
                                                                                          (String.String
                                                                                          (Ascii.Ascii false true true
                                                                                          false true true false false)
                                                                                          (String.String
                                                                                          (Ascii.Ascii false false true
                                                                                          false true true false false)
                                                                                          (String.String
                                                                                          (Ascii.Ascii true false false
                                                                                          true false true false false)
                                                                                          String.EmptyString))))))))))))))))))))))))))))))))))));
        (String.String (Ascii.Ascii false true true false false true true false)
           (String.String (Ascii.Ascii false true true false true true true false)
              (String.String (Ascii.Ascii true false false false false true true false)
                 (String.String (Ascii.Ascii false false true true false true true false) String.EmptyString))),
         String.String (Ascii.Ascii false true true false false true true false)
           (String.String (Ascii.Ascii true false false true false true true false)
              (String.String (Ascii.Ascii false false true true false true true false)
                 (String.String (Ascii.Ascii false false true true false true true false)
                    (String.String (Ascii.Ascii true true true true true false true false)
                       (String.String (Ascii.Ascii false true true false true true true false)
                          (String.String (Ascii.Ascii true false false false false true true false)
                             (String.String (Ascii.Ascii false false true true false true true false)
                                (String.String (Ascii.Ascii true false true false true true true false)
                                   (String.String (Ascii.Ascii true false true false false true true false)
                                      String.EmptyString))))))))))] /\
       fst ApiGen.call_2d_call =
       String.String (Ascii.Ascii true false false true false true true false)
         (String.String (Ascii.Ascii false true true true false true true false)
            (String.String (Ascii.Ascii false false true false true true true false)
               (String.String (Ascii.Ascii true false true false false true true false)
                  (String.String (Ascii.Ascii false true false false true true true false)
                     (String.String (Ascii.Ascii false false false false true true true false)
                        (String.String (Ascii.Ascii false true false false true true false false)
                           (String.String (Ascii.Ascii false false true false false true true false) String.EmptyString))))))) /\
       map fst ApiGen.call_2d_binding = ApiGen.interp2d_params /\
       map snd ApiGen.call_2d_binding = snd ApiGen.call_2d_call /\
       ApiGen.call_2d_params =
       [String.String (Ascii.Ascii false false false false true true true false)
          (String.String (Ascii.Ascii true true true true false true true false)
             (String.String (Ascii.Ascii true false false true false true true false)
                (String.String (Ascii.Ascii false true true true false true true false)
                   (String.String (Ascii.Ascii false false true false true true true false)
                      (String.String (Ascii.Ascii true true false false true true true false) String.EmptyString)))));
        String.String (Ascii.Ascii false true true false false true true false)
          (String.String (Ascii.Ascii true false false true false true true false)
             (String.String (Ascii.Ascii false false true true false true true false)
                (String.String (Ascii.Ascii false false true true false true true false)
                   (String.String (Ascii.Ascii true true true true true false true false)
                      (String.String (Ascii.Ascii false true true false true true true false)
                         (String.String (Ascii.Ascii true false false false false true true false)
                            (String.String (Ascii.Ascii false false true true false true true false)
                               (String.String (Ascii.Ascii true false true false true true true false)
                                  (String.String (Ascii.Ascii true false true false false true true false)
                                     (String.String (Ascii.Ascii true false true true true true false false)
                                        (String.String (Ascii.Ascii false true true true false true true false)
                                           (String.String (Ascii.Ascii false false false false true true true false)
                                              (String.String (Ascii.Ascii false true true true false true false false)
                                                 (String.String
                                                    (Ascii.Ascii false true true true false true true false)
                                                    (String.String
                                                       (Ascii.Ascii true false false false false true true false)
                                                       (String.String
                                                          (Ascii.Ascii false true true true false true true false)
                                                          String.EmptyString))))))))))))))))] /\
       ApiGen.interp2d_defaults =
       [(String.String (Ascii.Ascii false true true false false true true false)
           (String.String (Ascii.Ascii false true true false true true true false)
              (String.String (Ascii.Ascii true false false false false true true false)
                 (String.String (Ascii.Ascii false false true true false true true false) String.EmptyString))),
         String.String (Ascii.Ascii false true true true false true true false)
           (String.String (Ascii.Ascii false false false false true true true false)
              (String.String (Ascii.Ascii false true true true false true false false)
                 (String.String (Ascii.Ascii false true true true false true true false)
                    (String.String (Ascii.Ascii true false false false false true true false)
                       (String.String (Ascii.Ascii false true true true false true true false) String.EmptyString))))))].
Proof. exact @ApiGenEq.gen_call_2d_wiring. Qed.

(* 3D *)
Theorem C12_evaluation_hands_axes_and_grid_of_the_same_object_3d :
  ApiGen.call_3d_binding =
       [(String.String (Ascii.Ascii false false false true true true true false) String.EmptyString,
         String.String (Ascii.Ascii true true false false true true true false)
           (String.String (Ascii.Ascii true false true false false true true false)
              (String.String (Ascii.Ascii false false true true false true true false)
                 (String.String (Ascii.Ascii false true true false false true true false)
                    (String.String (Ascii.Ascii false true true true false true false false)
                       (String.String (Ascii.Ascii false true false true true true true false)
                          (String.String (Ascii.Ascii true false false false false true true false)
                             (String.String (Ascii.Ascii false false false true true true true false)
                                (String.String (Ascii.Ascii true false false true false true true false)
                                   (String.String (Ascii.Ascii true true false false true true true false)
                                      String.EmptyString))))))))));
        (String.String (Ascii.Ascii true false false true true true true false) String.EmptyString,
         String.String (Ascii.Ascii true true false false true true true false)
           (String.String (Ascii.Ascii true false true false false true true false)
              (String.String (Ascii.Ascii false false true true false true true false)
                 (String.String (Ascii.Ascii false true true false false true true false)
                    (String.String (Ascii.Ascii false true true true false true false false)
                       (String.String (Ascii.Ascii false false false true true true true false)
                          (String.String (Ascii.Ascii true false false false false true true false)
                             (String.String (Ascii.Ascii false false false true true true true false)
                                (String.String (Ascii.Ascii true false false true false true true false)
                                   (String.String (Ascii.Ascii true true false false true true true false)
                                      String.EmptyString))))))))));
        (String.String (Ascii.Ascii false true false true true true true false) String.EmptyString,
         String.String (Ascii.Ascii true true false false true true true false)
           (String.String (Ascii.Ascii true false true false false true true false)
              (String.String (Ascii.Ascii false false true true false true true false)
                 (String.String (Ascii.Ascii false true true false false true true false)
                    (String.String (Ascii.Ascii false true true true false true false false)
                       (String.String (Ascii.Ascii true false false true true true true false)
                          (String.String (Ascii.Ascii true false false false false true true false)
                             (String.String (Ascii.Ascii false false false true true true true false)
                                (String.String (Ascii.Ascii true false false true false true true false)
                                   (String.String (Ascii.Ascii true true false false true true true false)
                                      String.EmptyString))))))))));
        (String.String (Ascii.Ascii false true true false true true true false) String.EmptyString,
         String.String (Ascii.Ascii true true false false true true true false)
           (String.String (Ascii.Ascii true false true false false true true false)
              (String.String (Ascii.Ascii false false true true false true true false)
                 (String.String (Ascii.Ascii false true true false false true true false)
                    (String.String (Ascii.Ascii false true true true false true false false)
                       (String.String (Ascii.Ascii true true true true true false true false)
                          (String.String (Ascii.Ascii true true true false false true true false)
                             (String.String (Ascii.Ascii false true false false true true true false)
                                (String.String (Ascii.Ascii true false false true false true true false)
                                   (String.String (Ascii.Ascii false false true false false true true false)
                                      String.EmptyString))))))))));
        (String.String (Ascii.Ascii true false false false true true true false) String.EmptyString,
         String.String (Ascii.Ascii false true true true false true true false)
           (String.String (Ascii.Ascii false false false false true true true false)
              (String.String (Ascii.Ascii false true true true false true false false)
                 (String.String (Ascii.Ascii true false false false false true true false)
                    (String.String (Ascii.Ascii true true false false true true true false)
                       (String.String (Ascii.Ascii true false false false false true true false)
                          (String.String (Ascii.Ascii false true false false true true true false)
                             (String.String (Ascii.Ascii false true false false true true true false)
                                (String.String (Ascii.Ascii true false false false false true true false)
                                   (String.String (Ascii.Ascii true false false true true true true false)
                                      (String.String (Ascii.Ascii false false false true false true false false)
                                         (String.String (Ascii.Ascii false false false false true true true false)
                                            (String.String (Ascii.Ascii true true true true false true true false)
                                               (String.String (Ascii.Ascii true false false true false true true false)
                                                  (String.String
                                                     (Ascii.Ascii false true true true false true true false)
                                                     (String.String
                                                        (Ascii.Ascii false false true false true true true false)
                                                        (String.String
                                                           (Ascii.Ascii true true false false true true true false)
                                                           (String.String
                                                              (Ascii.Ascii false false true true false true false false)
                                                              (String.String
                                                                 (Ascii.Ascii false false false false false true false
                                                                    false)
                                                                 (String.String
                                                                    (Ascii.Ascii false false true false false true true
                                                                       false)
                                                                    (String.String
                                                                       (Ascii.Ascii false false true false true true
                                                                          true false)
                                                                       (String.String
                                                                          (Ascii.Ascii true false false true true true
                                                                             true false)
                                                                          (String.String
                                                                             (Ascii.Ascii false false false false true
                                                                                true true false)
                                                                             (String.String
                                                                                (Ascii.Ascii true false true false
                                                                                   false true true false)
                                                                                (String.String
                                                                                   (Ascii.Ascii true false true true
                                                                                      true true false false)
                                                                                   (String.String
                                                                                      (Ascii.Ascii false true true true
                                                                                         false true true false)
                                                                                      (String.String
                                                                                         (Ascii.Ascii false false false
                                                                                          false true true true false)
                                                                                         (String.String
                                                                                          (Ascii.Ascii false true true
                                                                                          true false true false false)
                                                                                          (String.String
                                                                                          (Ascii.Ascii false true true
                                                                                          false false true true false)
                                                                                          (String.String
                                                                                          (Ascii.Ascii false false true
                                                                                          true false true true false)
                                                                                          (String.String
                                                                                          (Ascii.Ascii true true true
                                                                                          true false true true false)
                                                                                          (String.String
                                                                                          (Ascii.Ascii true false false
                                                                                          false false true true false)
                                                                                          (String.String
                                                                                          (Ascii.Ascii false false true
                                                                                          false true true true false)
                                                                                          (String.String
                                                                                          (Ascii.Ascii false true true
                                                                                          false true true false false)
                                                                                          (String.String
                                                                                          (Ascii.Ascii false false true
                                                                                          false true true false false)
                                                                                          (String.String
                                                                                          (Ascii.Ascii true false false
                                                                                          true false true false false)
                                                                                          String.EmptyString))))))))))))))))))))))))))))))))))));
        (String.String (Ascii.Ascii false true true false false true true false)
           (String.String (Ascii.Ascii false true true false true true true false)
              (String.String (Ascii.Ascii true false false false false true true false)
                 (String.String (Ascii.Ascii false false true true false true true false) String.EmptyString))),
         String.String (Ascii.Ascii false true true false false true true false)
           (String.String (Ascii.Ascii true false false true false true true false)
              (String.String (Ascii.Ascii false false true true false true true false)
                 (String.String (Ascii.Ascii false false true true false true true false)
                    (String.String (Ascii.Ascii true true true true true false true false)
                       (String.String (Ascii.Ascii false true true false true true true false)
                          (String.String (Ascii.Ascii true false false false false true true false)
                             (String.String (Ascii.Ascii false false true true false true true false)
                                (String.String (Ascii.Ascii true false true false true true true false)
                                   (String.String (Ascii.Ascii true false true false false true true false)
                                      String.EmptyString))))))))))] /\
       fst ApiGen.call_3d_call =
       String.String (Ascii.Ascii true false false true false true true false)
         (String.String (Ascii.Ascii false true true true false true true false)
            (String.String (Ascii.Ascii false false true false true true true false)
               (String.String (Ascii.Ascii true false true false false true true false)
                  (String.String (Ascii.Ascii false true false false true true true false)
                     (String.String (Ascii.Ascii false false false false true true true false)
                        (String.String (Ascii.Ascii true true false false true true false false)
                           (String.String (Ascii.Ascii false false true false false true true false) String.EmptyString))))))) /\
       map fst ApiGen.call_3d_binding = ApiGen.interp3d_params /\
       map snd ApiGen.call_3d_binding = snd ApiGen.call_3d_call /\
       ApiGen.call_3d_params =
       [String.String (Ascii.Ascii false false false false true true true false)
          (String.String (Ascii.Ascii true true true true false true true false)
             (String.String (Ascii.Ascii true false false true false true true false)
                (String.String (Ascii.Ascii false true true true false true true false)
                   (String.String (Ascii.Ascii false false true false true true true false)
                      (String.String (Ascii.Ascii true true false false true true true false) String.EmptyString)))));
        String.String (Ascii.Ascii false true true false false true true false)
          (String.String (Ascii.Ascii true false false true false true true false)
             (String.String (Ascii.Ascii false false true true false true true false)
                (String.String (Ascii.Ascii false false true true false true true false)
                   (String.String (Ascii.Ascii true true true true true false true false)
                      (String.String (Ascii.Ascii false true true false true true true false)
                         (String.String (Ascii.Ascii true false false false false true true false)
                            (String.String (Ascii.Ascii false false true true false true true false)
                               (String.String (Ascii.Ascii true false true false true true true false)
                                  (String.String (Ascii.Ascii true false true false false true true false)
                                     (String.String (Ascii.Ascii true false true true true true false false)
                                        (String.String (Ascii.Ascii false true true true false true true false)
                                           (String.String (Ascii.Ascii false false false false true true true false)
                                              (String.String (Ascii.Ascii false true true true false true false false)
                                                 (String.String
                                                    (Ascii.Ascii false true true true false true true false)
                                                    (String.String
                                                       (Ascii.Ascii true false false false false true true false)
                                                       (String.String
                                                          (Ascii.Ascii false true true true false true true false)
                                                          String.EmptyString))))))))))))))))] /\
       ApiGen.interp3d_defaults =
       [(String.String (Ascii.Ascii false true true false false true true false)
           (String.String (Ascii.Ascii false true true false true true true false)
              (String.String (Ascii.Ascii true false false false false true true false)
                 (String.String (Ascii.Ascii false false true true false true true false) String.EmptyString))),
         String.String (Ascii.Ascii false true true true false true true false)
           (String.String (Ascii.Ascii false false false false true true true false)
              (String.String (Ascii.Ascii false true true true false true false false)
                 (String.String (Ascii.Ascii false true true true false true true false)
                    (String.String (Ascii.Ascii true false false false false true true false)
                       (String.String (Ascii.Ascii false true true true false true true false) String.EmptyString))))))].
Proof. exact @ApiGenEq.gen_call_3d_wiring. Qed.

Print Assumptions C12_sweep_ok_2d.
Print Assumptions C12_sweep2d_ok.
Print Assumptions C12_sweep_ok_3d.
Print Assumptions C12_sweep3d_ok.
Print Assumptions C12_sign_invariant_initially.
Print Assumptions C12_sign_invariant_through_initialisation.
Print Assumptions C12_sign_invariant_through_sweeps.
Print Assumptions C12_gradient_assembly_ok.
Print Assumptions C12_assembly_is_the_generated_code.
Print Assumptions C12_sweeps_and_assembly_ok.
Print Assumptions C12_interp2d_ok.
Print Assumptions C12_interp3d_ok.
Print Assumptions C12_vinterp2d_ok.
Print Assumptions C12_vinterp3d_ok.
Print Assumptions C12_le_lt_law_binary64.
Print Assumptions C12_single_node_axis_refuted.
Print Assumptions C12_ray_buffer_2d.
Print Assumptions C12_ray_buffer_3d.
Print Assumptions C12_shrink_ok.
Print Assumptions C12_ray2d_core_ok.
Print Assumptions C12_ray2d_ok.
Print Assumptions C12_ray3d_core_ok.
Print Assumptions C12_ray3d_ok.
Print Assumptions C12_ray_ok_binary64_2d.
Print Assumptions C12_ray_ok_binary64_3d.
Print Assumptions C12_ray_axis_min_needed.
Print Assumptions C12_ray_max_step_0_refuted.
Print Assumptions C12_ray2d_list_ok.
Print Assumptions C12_ray3d_list_ok.
Print Assumptions C12_ray_list_shape_needed.
Print Assumptions C12_solve2d_ok.
Print Assumptions C12_solve2d_ok_reals.
Print Assumptions C12_solve3d_ok.
Print Assumptions C12_solve3d_ok_binary64.
Print Assumptions C12_trunc_div_law_binary64.
Print Assumptions C12_on_node_branch_needs_bounded_grid.
Print Assumptions C12_on_node_law_binary64.
Print Assumptions C12_solve2d_ok_binary64.
Print Assumptions C12_sign_invariant_3d.
Print Assumptions C12_gradient_assembly_ok_3d.
Print Assumptions C12_axes_have_the_length_of_the_current_shape_2d_z.
Print Assumptions C12_axes_have_the_length_of_the_current_shape_2d_x.
Print Assumptions C12_axes_have_the_length_of_the_current_shape_3d_y.
Print Assumptions C12_axes_are_computed_from_stored_attributes_on_every_access.
Print Assumptions C12_evaluation_hands_axes_and_grid_of_the_same_object_2d.
Print Assumptions C12_evaluation_hands_axes_and_grid_of_the_same_object_3d.
