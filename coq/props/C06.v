(* C06  Origin invariance: translating the axes, the source and the query points by one common vector leaves interpolated values unchanged (exact arithmetic over the generated interpolators); the solver kernels only ever receive source - origin.
   Only statements and `exact`: the proofs are in proofs/.  Written by tools/mkprops.py from Coq's own printing of the
   lemma statements; every statement is in full below so that it cannot be weakened without this file changing. *)
From Coq Require Import ZArith List Bool Reals Lia Lra.
From FT.lib Require Import Num Arr ArrLemmas Lower NumArr.
From FT.gen Require Import Common Interp2d Interp3d Vinterp2d Vinterp3d FteikCommon Fteik2d Fteik3d Ray2d Ray3d.
From FT.model Require Import Api.
From FT.proofs Require Import SSR InterpR Interp3R VinterpR Vinterp3R TranslateR ApiProofs.
From FT.proofs Require ApiGenEq RayTranslate.
Import ListNotations.
Open Scope R_scope.

(* a translated axis is an axis *)
Theorem C06_axis_shift :
  forall (o : R) (x : arr R) (n : Z), axis x n -> axis (shift_axis o x) n.
Proof. exact @TranslateR.axis_shift. Qed.

(* cell location commutes with translation, for any array *)
Theorem C06_searchsorted_commutes_with_translation :
  forall (o : R) (x : arr R) (q : R), searchsorted_right (shift_axis o x) (o + q) = searchsorted_right x q.
Proof. exact @TranslateR.ssr_shift. Qed.

(* model / gradient-grid evaluation: every query point, inside or outside the hull *)
Theorem C06_interp2d_translate :
  forall (ox oy : R) (x y v : arr R) (nx ny : Z) (xq yq fval : R),
       axis x nx ->
       axis y ny ->
       shape v = [nx; ny] ->
       u_interp2d_v (shift_axis ox x) (shift_axis oy y) v (ox + xq) (oy + yq) fval = u_interp2d_v x y v xq yq fval.
Proof. exact @TranslateR.interp2d_translate. Qed.

(* 3D *)
Theorem C06_interp3d_translate :
  forall (ox oy oz : R) (x y z v : arr R) (nx ny nz : Z) (xq yq zq fval : R),
       axis x nx ->
       axis y ny ->
       axis z nz ->
       shape v = [nx; ny; nz] ->
       u_interp3d_v (shift_axis ox x) (shift_axis oy y) (shift_axis oz z) v (ox + xq) (oy + yq) (oz + zq) fval =
       u_interp3d_v x y z v xq yq zq fval.
Proof. exact @TranslateR.interp3d_translate. Qed.

(* traveltime evaluation (source translated too): every case - outside, source cell, zero corner, far faces, generic *)
Theorem C06_vinterp2d_translate :
  forall (ox oy : R) (x y v : arr R) (nx ny : Z) (xq yq xsrc ysrc vzero fval : R),
       axis x nx ->
       axis y ny ->
       shape v = [nx; ny] ->
       u_vinterp2d_v (shift_axis ox x) (shift_axis oy y) v (ox + xq) (oy + yq) (ox + xsrc) (oy + ysrc) vzero fval =
       u_vinterp2d_v x y v xq yq xsrc ysrc vzero fval.
Proof. exact @TranslateR.vinterp2d_translate. Qed.

(* 3D *)
Theorem C06_vinterp3d_translate :
  forall (ox oy oz : R) (x y z v : arr R) (nx ny nz : Z) (xq yq zq xsrc ysrc zsrc vzero fval : R),
       axis x nx ->
       axis y ny ->
       axis z nz ->
       shape v = [nx; ny; nz] ->
       u_vinterp3d_v (shift_axis ox x) (shift_axis oy y) (shift_axis oz z) v (ox + xq) (oy + yq) 
         (oz + zq) (ox + xsrc) (oy + ysrc) (oz + zsrc) vzero fval =
       u_vinterp3d_v x y z v xq yq zq xsrc ysrc zsrc vzero fval.
Proof. exact @TranslateR.vinterp3d_translate. Qed.

(* translating by zero changes nothing *)
Theorem C06_omitting_origin_is_zero_origin :
  forall x : arr R, shift_axis 0 x = x.
Proof. exact @TranslateR.shift_axis_0. Qed.

(* API layer (hand model coq/model/Api.v, tied by harness/corr_api.py run_api): the solver kernel is handed (1/grid, spacing, source - origin), which does not change when origin and source are translated together *)
Theorem C06_solver_receives_source_minus_origin :
  forall grid gs o src t : list R,
       length src = length o ->
       length o = length t -> solve_args grid gs (zip_add o t) (zip_add src t) = solve_args grid gs o src.
Proof. exact @ApiProofs.solve_args_origin_invariant. Qed.

(* API layer: the node axes origin + spacing*k of a translated origin are the translated axes *)
Theorem C06_node_axes_translate :
  forall (t o d : R) (n : Z), axis_nodes (t + o) d n = map (Rplus t) (axis_nodes o d n).
Proof. exact @ApiProofs.axis_nodes_translate. Qed.

(* the same, with the left-hand side EXTRACTED from _solver.py on every run (gen/ApiGen.v): the arguments of the kernel call are the hand model's (1/grid, spacing components in order, sources - origin, nsweep, flag) *)
Theorem C06_solver_receives_source_minus_origin_from_source_2d :
  forall (T : Type) (N : Num T) (grid gridsize origin src : list T) (nsweep : Z) (rg : bool),
       ApiGen.solve_args_2d grid gridsize origin src nsweep rg = (solve_args grid gridsize origin src, nsweep, rg).
Proof. exact @ApiGenEq.gen_solve_args_2d_eq. Qed.

(* 3D *)
Theorem C06_solver_receives_source_minus_origin_from_source_3d :
  forall (T : Type) (N : Num T) (grid gridsize origin src : list T) (nsweep : Z) (rg : bool),
       ApiGen.solve_args_3d grid gridsize origin src nsweep rg = (solve_args grid gridsize origin src, nsweep, rg).
Proof. exact @ApiGenEq.gen_solve_args_3d_eq. Qed.

(* the returned grid objects receive the origin and the ABSOLUTE source (single and list branch alike) *)
Theorem C06_solve_result_carries_absolute_source_and_origin_2d :
  ApiGen.solve_2d_targets =
       [String.String (Ascii.Ascii false false true false true true true false)
          (String.String (Ascii.Ascii false false true false true true true false) String.EmptyString);
        String.String (Ascii.Ascii false false true false true true true false)
          (String.String (Ascii.Ascii false false true false true true true false)
             (String.String (Ascii.Ascii true true true false false true true false)
                (String.String (Ascii.Ascii false true false false true true true false)
                   (String.String (Ascii.Ascii true false false false false true true false)
                      (String.String (Ascii.Ascii false false true false false true true false) String.EmptyString)))));
        String.String (Ascii.Ascii false true true false true true true false)
          (String.String (Ascii.Ascii false true false true true true true false)
             (String.String (Ascii.Ascii true false true false false true true false)
                (String.String (Ascii.Ascii false true false false true true true false)
                   (String.String (Ascii.Ascii true true true true false true true false) String.EmptyString))))] /\
       ApiGen.solve_2d_result_ctor =
       (String.String (Ascii.Ascii false false true false true false true false)
          (String.String (Ascii.Ascii false true false false true true true false)
             (String.String (Ascii.Ascii true false false false false true true false)
                (String.String (Ascii.Ascii false true true false true true true false)
                   (String.String (Ascii.Ascii true false true false false true true false)
                      (String.String (Ascii.Ascii false false true true false true true false)
                         (String.String (Ascii.Ascii false false true false true true true false)
                            (String.String (Ascii.Ascii true false false true false true true false)
                               (String.String (Ascii.Ascii true false true true false true true false)
                                  (String.String (Ascii.Ascii true false true false false true true false)
                                     (String.String (Ascii.Ascii true true true false false false true false)
                                        (String.String (Ascii.Ascii false true false false true true true false)
                                           (String.String (Ascii.Ascii true false false true false true true false)
                                              (String.String (Ascii.Ascii false false true false false true true false)
                                                 (String.String
                                                    (Ascii.Ascii false true false false true true false false)
                                                    (String.String
                                                       (Ascii.Ascii false false true false false false true false)
                                                       String.EmptyString))))))))))))))),
        [String.String (Ascii.Ascii true true true false false true true false)
           (String.String (Ascii.Ascii false true false false true true true false)
              (String.String (Ascii.Ascii true false false true false true true false)
                 (String.String (Ascii.Ascii false false true false false true true false) String.EmptyString)));
         String.String (Ascii.Ascii true true true false false true true false)
           (String.String (Ascii.Ascii false true false false true true true false)
              (String.String (Ascii.Ascii true false false true false true true false)
                 (String.String (Ascii.Ascii false false true false false true true false)
                    (String.String (Ascii.Ascii true true false false true true true false)
                       (String.String (Ascii.Ascii true false false true false true true false)
                          (String.String (Ascii.Ascii false true false true true true true false)
                             (String.String (Ascii.Ascii true false true false false true true false)
                                String.EmptyString)))))));
         String.String (Ascii.Ascii true true true true false true true false)
           (String.String (Ascii.Ascii false true false false true true true false)
              (String.String (Ascii.Ascii true false false true false true true false)
                 (String.String (Ascii.Ascii true true true false false true true false)
                    (String.String (Ascii.Ascii true false false true false true true false)
                       (String.String (Ascii.Ascii false true true true false true true false) String.EmptyString)))));
         String.String (Ascii.Ascii true true false false true true true false)
           (String.String (Ascii.Ascii true true true true false true true false)
              (String.String (Ascii.Ascii true false true false true true true false)
                 (String.String (Ascii.Ascii false true false false true true true false)
                    (String.String (Ascii.Ascii true true false false false true true false)
                       (String.String (Ascii.Ascii true false true false false true true false) String.EmptyString)))));
         String.String (Ascii.Ascii true true true false false true true false)
           (String.String (Ascii.Ascii false true false false true true true false)
              (String.String (Ascii.Ascii true false false false false true true false)
                 (String.String (Ascii.Ascii false false true false false true true false)
                    (String.String (Ascii.Ascii true false false true false true true false)
                       (String.String (Ascii.Ascii true false true false false true true false)
                          (String.String (Ascii.Ascii false true true true false true true false)
                             (String.String (Ascii.Ascii false false true false true true true false)
                                String.EmptyString)))))));
         String.String (Ascii.Ascii false true true false true true true false)
           (String.String (Ascii.Ascii false true false true true true true false)
              (String.String (Ascii.Ascii true false true false false true true false)
                 (String.String (Ascii.Ascii false true false false true true true false)
                    (String.String (Ascii.Ascii true true true true false true true false) String.EmptyString))))]) /\
       ApiGen.solve_2d_result_single =
       [(String.String (Ascii.Ascii true true true false false true true false)
           (String.String (Ascii.Ascii false true false false true true true false)
              (String.String (Ascii.Ascii true false false true false true true false)
                 (String.String (Ascii.Ascii false false true false false true true false) String.EmptyString))),
         String.String (Ascii.Ascii false false true false true true true false)
           (String.String (Ascii.Ascii false false true false true true true false) String.EmptyString));
        (String.String (Ascii.Ascii true true true false false true true false)
           (String.String (Ascii.Ascii false true false false true true true false)
              (String.String (Ascii.Ascii true false false true false true true false)
                 (String.String (Ascii.Ascii false false true false false true true false)
                    (String.String (Ascii.Ascii true true false false true true true false)
                       (String.String (Ascii.Ascii true false false true false true true false)
                          (String.String (Ascii.Ascii false true false true true true true false)
                             (String.String (Ascii.Ascii true false true false false true true false)
                                String.EmptyString))))))),
         String.String (Ascii.Ascii true true false false true true true false)
           (String.String (Ascii.Ascii true false true false false true true false)
              (String.String (Ascii.Ascii false false true true false true true false)
                 (String.String (Ascii.Ascii false true true false false true true false)
                    (String.String (Ascii.Ascii false true true true false true false false)
                       (String.String (Ascii.Ascii true true true true true false true false)
                          (String.String (Ascii.Ascii true true true false false true true false)
                             (String.String (Ascii.Ascii false true false false true true true false)
                                (String.String (Ascii.Ascii true false false true false true true false)
                                   (String.String (Ascii.Ascii false false true false false true true false)
                                      (String.String (Ascii.Ascii true true false false true true true false)
                                         (String.String (Ascii.Ascii true false false true false true true false)
                                            (String.String (Ascii.Ascii false true false true true true true false)
                                               (String.String (Ascii.Ascii true false true false false true true false)
                                                  String.EmptyString))))))))))))));
        (String.String (Ascii.Ascii true true true true false true true false)
           (String.String (Ascii.Ascii false true false false true true true false)
              (String.String (Ascii.Ascii true false false true false true true false)
                 (String.String (Ascii.Ascii true true true false false true true false)
                    (String.String (Ascii.Ascii true false false true false true true false)
                       (String.String (Ascii.Ascii false true true true false true true false) String.EmptyString))))),
         String.String (Ascii.Ascii true true false false true true true false)
           (String.String (Ascii.Ascii true false true false false true true false)
              (String.String (Ascii.Ascii false false true true false true true false)
                 (String.String (Ascii.Ascii false true true false false true true false)
                    (String.String (Ascii.Ascii false true true true false true false false)
                       (String.String (Ascii.Ascii true true true true true false true false)
                          (String.String (Ascii.Ascii true true true true false true true false)
                             (String.String (Ascii.Ascii false true false false true true true false)
                                (String.String (Ascii.Ascii true false false true false true true false)
                                   (String.String (Ascii.Ascii true true true false false true true false)
                                      (String.String (Ascii.Ascii true false false true false true true false)
                                         (String.String (Ascii.Ascii false true true true false true true false)
                                            String.EmptyString))))))))))));
        (String.String (Ascii.Ascii true true false false true true true false)
           (String.String (Ascii.Ascii true true true true false true true false)
              (String.String (Ascii.Ascii true false true false true true true false)
                 (String.String (Ascii.Ascii false true false false true true true false)
                    (String.String (Ascii.Ascii true true false false false true true false)
                       (String.String (Ascii.Ascii true false true false false true true false) String.EmptyString))))),
         String.String (Ascii.Ascii true true false false true true true false)
           (String.String (Ascii.Ascii true true true true false true true false)
              (String.String (Ascii.Ascii true false true false true true true false)
                 (String.String (Ascii.Ascii false true false false true true true false)
                    (String.String (Ascii.Ascii true true false false false true true false)
                       (String.String (Ascii.Ascii true false true false false true true false)
                          (String.String (Ascii.Ascii true true false false true true true false) String.EmptyString)))))));
        (String.String (Ascii.Ascii true true true false false true true false)
           (String.String (Ascii.Ascii false true false false true true true false)
              (String.String (Ascii.Ascii true false false false false true true false)
                 (String.String (Ascii.Ascii false false true false false true true false)
                    (String.String (Ascii.Ascii true false false true false true true false)
                       (String.String (Ascii.Ascii true false true false false true true false)
                          (String.String (Ascii.Ascii false true true true false true true false)
                             (String.String (Ascii.Ascii false false true false true true true false)
                                String.EmptyString))))))),
         String.String (Ascii.Ascii false false true false true true true false)
           (String.String (Ascii.Ascii false false true false true true true false)
              (String.String (Ascii.Ascii true true true false false true true false)
                 (String.String (Ascii.Ascii false true false false true true true false)
                    (String.String (Ascii.Ascii true false false false false true true false)
                       (String.String (Ascii.Ascii false false true false false true true false)
                          (String.String (Ascii.Ascii false false false false false true false false)
                             (String.String (Ascii.Ascii true false false true false true true false)
                                (String.String (Ascii.Ascii false true true false false true true false)
                                   (String.String (Ascii.Ascii false false false false false true false false)
                                      (String.String (Ascii.Ascii false true false false true true true false)
                                         (String.String (Ascii.Ascii true false true false false true true false)
                                            (String.String (Ascii.Ascii false false true false true true true false)
                                               (String.String (Ascii.Ascii true false true false true true true false)
                                                  (String.String
                                                     (Ascii.Ascii false true false false true true true false)
                                                     (String.String
                                                        (Ascii.Ascii false true true true false true true false)
                                                        (String.String
                                                           (Ascii.Ascii true true true true true false true false)
                                                           (String.String
                                                              (Ascii.Ascii true true true false false true true false)
                                                              (String.String
                                                                 (Ascii.Ascii false true false false true true true
                                                                    false)
                                                                 (String.String
                                                                    (Ascii.Ascii true false false false false true true
                                                                       false)
                                                                    (String.String
                                                                       (Ascii.Ascii false false true false false true
                                                                          true false)
                                                                       (String.String
                                                                          (Ascii.Ascii true false false true false true
                                                                             true false)
                                                                          (String.String
                                                                             (Ascii.Ascii true false true false false
                                                                                true true false)
                                                                             (String.String
                                                                                (Ascii.Ascii false true true true false
                                                                                   true true false)
                                                                                (String.String
                                                                                   (Ascii.Ascii false false true false
                                                                                      true true true false)
                                                                                   (String.String
                                                                                      (Ascii.Ascii false false false
                                                                                         false false true false false)
                                                                                      (String.String
                                                                                         (Ascii.Ascii true false true
                                                                                          false false true true false)
                                                                                         (String.String
                                                                                          (Ascii.Ascii false false true
                                                                                          true false true true false)
                                                                                          (String.String
                                                                                          (Ascii.Ascii true true false
                                                                                          false true true true false)
                                                                                          (String.String
                                                                                          (Ascii.Ascii true false true
                                                                                          false false true true false)
                                                                                          (String.String
                                                                                          (Ascii.Ascii false false
                                                                                          false false false true false
                                                                                          false)
                                                                                          (String.String
                                                                                          (Ascii.Ascii false true true
                                                                                          true false false true false)
                                                                                          (String.String
                                                                                          (Ascii.Ascii true true true
                                                                                          true false true true false)
                                                                                          (String.String
                                                                                          (Ascii.Ascii false true true
                                                                                          true false true true false)
                                                                                          (String.String
                                                                                          (Ascii.Ascii true false true
                                                                                          false false true true false)
                                                                                          String.EmptyString)))))))))))))))))))))))))))))))))));
        (String.String (Ascii.Ascii false true true false true true true false)
           (String.String (Ascii.Ascii false true false true true true true false)
              (String.String (Ascii.Ascii true false true false false true true false)
                 (String.String (Ascii.Ascii false true false false true true true false)
                    (String.String (Ascii.Ascii true true true true false true true false) String.EmptyString)))),
         String.String (Ascii.Ascii false true true false true true true false)
           (String.String (Ascii.Ascii false true false true true true true false)
              (String.String (Ascii.Ascii true false true false false true true false)
                 (String.String (Ascii.Ascii false true false false true true true false)
                    (String.String (Ascii.Ascii true true true true false true true false) String.EmptyString)))))] /\
       ApiGen.solve_2d_result_multi =
       [(String.String (Ascii.Ascii true true true false false true true false)
           (String.String (Ascii.Ascii false true false false true true true false)
              (String.String (Ascii.Ascii true false false true false true true false)
                 (String.String (Ascii.Ascii false false true false false true true false) String.EmptyString))),
         String.String (Ascii.Ascii false false true false true true true false)
           (String.String (Ascii.Ascii false false true false true true true false)
              (String.String (Ascii.Ascii true true false true true false true false)
                 (String.String (Ascii.Ascii true false false true false true true false)
                    (String.String (Ascii.Ascii true false true true true false true false) String.EmptyString)))));
        (String.String (Ascii.Ascii true true true false false true true false)
           (String.String (Ascii.Ascii false true false false true true true false)
              (String.String (Ascii.Ascii true false false true false true true false)
                 (String.String (Ascii.Ascii false false true false false true true false)
                    (String.String (Ascii.Ascii true true false false true true true false)
                       (String.String (Ascii.Ascii true false false true false true true false)
                          (String.String (Ascii.Ascii false true false true true true true false)
                             (String.String (Ascii.Ascii true false true false false true true false)
                                String.EmptyString))))))),
         String.String (Ascii.Ascii true true false false true true true false)
           (String.String (Ascii.Ascii true false true false false true true false)
              (String.String (Ascii.Ascii false false true true false true true false)
                 (String.String (Ascii.Ascii false true true false false true true false)
                    (String.String (Ascii.Ascii false true true true false true false false)
                       (String.String (Ascii.Ascii true true true true true false true false)
                          (String.String (Ascii.Ascii true true true false false true true false)
                             (String.String (Ascii.Ascii false true false false true true true false)
                                (String.String (Ascii.Ascii true false false true false true true false)
                                   (String.String (Ascii.Ascii false false true false false true true false)
                                      (String.String (Ascii.Ascii true true false false true true true false)
                                         (String.String (Ascii.Ascii true false false true false true true false)
                                            (String.String (Ascii.Ascii false true false true true true true false)
                                               (String.String (Ascii.Ascii true false true false false true true false)
                                                  String.EmptyString))))))))))))));
        (String.String (Ascii.Ascii true true true true false true true false)
           (String.String (Ascii.Ascii false true false false true true true false)
              (String.String (Ascii.Ascii true false false true false true true false)
                 (String.String (Ascii.Ascii true true true false false true true false)
                    (String.String (Ascii.Ascii true false false true false true true false)
                       (String.String (Ascii.Ascii false true true true false true true false) String.EmptyString))))),
         String.String (Ascii.Ascii true true false false true true true false)
           (String.String (Ascii.Ascii true false true false false true true false)
              (String.String (Ascii.Ascii false false true true false true true false)
                 (String.String (Ascii.Ascii false true true false false true true false)
                    (String.String (Ascii.Ascii false true true true false true false false)
                       (String.String (Ascii.Ascii true true true true true false true false)
                          (String.String (Ascii.Ascii true true true true false true true false)
                             (String.String (Ascii.Ascii false true false false true true true false)
                                (String.String (Ascii.Ascii true false false true false true true false)
                                   (String.String (Ascii.Ascii true true true false false true true false)
                                      (String.String (Ascii.Ascii true false false true false true true false)
                                         (String.String (Ascii.Ascii false true true true false true true false)
                                            String.EmptyString))))))))))));
        (String.String (Ascii.Ascii true true false false true true true false)
           (String.String (Ascii.Ascii true true true true false true true false)
              (String.String (Ascii.Ascii true false true false true true true false)
                 (String.String (Ascii.Ascii false true false false true true true false)
                    (String.String (Ascii.Ascii true true false false false true true false)
                       (String.String (Ascii.Ascii true false true false false true true false) String.EmptyString))))),
         String.String (Ascii.Ascii true true false false true true true false)
           (String.String (Ascii.Ascii true true true true false true true false)
              (String.String (Ascii.Ascii true false true false true true true false)
                 (String.String (Ascii.Ascii false true false false true true true false)
                    (String.String (Ascii.Ascii true true false false false true true false)
                       (String.String (Ascii.Ascii true false true false false true true false)
                          (String.String (Ascii.Ascii true true false false true true true false)
                             (String.String (Ascii.Ascii true true false true true false true false)
                                (String.String (Ascii.Ascii true false false true false true true false)
                                   (String.String (Ascii.Ascii true false true true true false true false)
                                      String.EmptyString))))))))));
        (String.String (Ascii.Ascii true true true false false true true false)
           (String.String (Ascii.Ascii false true false false true true true false)
              (String.String (Ascii.Ascii true false false false false true true false)
                 (String.String (Ascii.Ascii false false true false false true true false)
                    (String.String (Ascii.Ascii true false false true false true true false)
                       (String.String (Ascii.Ascii true false true false false true true false)
                          (String.String (Ascii.Ascii false true true true false true true false)
                             (String.String (Ascii.Ascii false false true false true true true false)
                                String.EmptyString))))))),
         String.String (Ascii.Ascii false false true false true true true false)
           (String.String (Ascii.Ascii false false true false true true true false)
              (String.String (Ascii.Ascii true true true false false true true false)
                 (String.String (Ascii.Ascii false true false false true true true false)
                    (String.String (Ascii.Ascii true false false false false true true false)
                       (String.String (Ascii.Ascii false false true false false true true false)
                          (String.String (Ascii.Ascii true true false true true false true false)
                             (String.String (Ascii.Ascii true false false true false true true false)
                                (String.String (Ascii.Ascii true false true true true false true false)
                                   (String.String (Ascii.Ascii false false false false false true false false)
                                      (String.String (Ascii.Ascii true false false true false true true false)
                                         (String.String (Ascii.Ascii false true true false false true true false)
                                            (String.String (Ascii.Ascii false false false false false true false false)
                                               (String.String (Ascii.Ascii false true false false true true true false)
                                                  (String.String
                                                     (Ascii.Ascii true false true false false true true false)
                                                     (String.String
                                                        (Ascii.Ascii false false true false true true true false)
                                                        (String.String
                                                           (Ascii.Ascii true false true false true true true false)
                                                           (String.String
                                                              (Ascii.Ascii false true false false true true true false)
                                                              (String.String
                                                                 (Ascii.Ascii false true true true false true true
                                                                    false)
                                                                 (String.String
                                                                    (Ascii.Ascii true true true true true false true
                                                                       false)
                                                                    (String.String
                                                                       (Ascii.Ascii true true true false false true
                                                                          true false)
                                                                       (String.String
                                                                          (Ascii.Ascii false true false false true true
                                                                             true false)
                                                                          (String.String
                                                                             (Ascii.Ascii true false false false false
                                                                                true true false)
                                                                             (String.String
                                                                                (Ascii.Ascii false false true false
                                                                                   false true true false)
                                                                                (String.String
                                                                                   (Ascii.Ascii true false false true
                                                                                      false true true false)
                                                                                   (String.String
                                                                                      (Ascii.Ascii true false true
                                                                                         false false true true false)
                                                                                      (String.String
                                                                                         (Ascii.Ascii false true true
                                                                                          true false true true false)
                                                                                         (String.String
                                                                                          (Ascii.Ascii false false true
                                                                                          false true true true false)
                                                                                          (String.String
                                                                                          (Ascii.Ascii false false
                                                                                          false false false true false
                                                                                          false)
                                                                                          (String.String
                                                                                          (Ascii.Ascii true false true
                                                                                          false false true true false)
                                                                                          (String.String
                                                                                          (Ascii.Ascii false false true
                                                                                          true false true true false)
                                                                                          (String.String
                                                                                          (Ascii.Ascii true true false
                                                                                          false true true true false)
                                                                                          (String.String
                                                                                          (Ascii.Ascii true false true
                                                                                          false false true true false)
                                                                                          (String.String
                                                                                          (Ascii.Ascii false false
                                                                                          false false false true false
                                                                                          false)
                                                                                          (String.String
                                                                                          (Ascii.Ascii false true true
                                                                                          true false false true false)
                                                                                          (String.String
                                                                                          (Ascii.Ascii true true true
                                                                                          true false true true false)
                                                                                          (String.String
                                                                                          (Ascii.Ascii false true true
                                                                                          true false true true false)
                                                                                          (String.String
                                                                                          (Ascii.Ascii true false true
                                                                                          false false true true false)
                                                                                          String.EmptyString))))))))))))))))))))))))))))))))))))));
        (String.String (Ascii.Ascii false true true false true true true false)
           (String.String (Ascii.Ascii false true false true true true true false)
              (String.String (Ascii.Ascii true false true false false true true false)
                 (String.String (Ascii.Ascii false true false false true true true false)
                    (String.String (Ascii.Ascii true true true true false true true false) String.EmptyString)))),
         String.String (Ascii.Ascii false true true false true true true false)
           (String.String (Ascii.Ascii false true false true true true true false)
              (String.String (Ascii.Ascii true false true false false true true false)
                 (String.String (Ascii.Ascii false true false false true true true false)
                    (String.String (Ascii.Ascii true true true true false true true false)
                       (String.String (Ascii.Ascii true true false true true false true false)
                          (String.String (Ascii.Ascii true false false true false true true false)
                             (String.String (Ascii.Ascii true false true true true false true false) String.EmptyString))))))))] /\
       map fst ApiGen.solve_2d_result_single = snd ApiGen.solve_2d_result_ctor /\
       map fst ApiGen.solve_2d_result_multi = snd ApiGen.solve_2d_result_ctor.
Proof. exact @ApiGenEq.gen_solve_2d_result. Qed.

(* 3D *)
Theorem C06_solve_result_carries_absolute_source_and_origin_3d :
  ApiGen.solve_3d_targets =
       [String.String (Ascii.Ascii false false true false true true true false)
          (String.String (Ascii.Ascii false false true false true true true false) String.EmptyString);
        String.String (Ascii.Ascii false false true false true true true false)
          (String.String (Ascii.Ascii false false true false true true true false)
             (String.String (Ascii.Ascii true true true false false true true false)
                (String.String (Ascii.Ascii false true false false true true true false)
                   (String.String (Ascii.Ascii true false false false false true true false)
                      (String.String (Ascii.Ascii false false true false false true true false) String.EmptyString)))));
        String.String (Ascii.Ascii false true true false true true true false)
          (String.String (Ascii.Ascii false true false true true true true false)
             (String.String (Ascii.Ascii true false true false false true true false)
                (String.String (Ascii.Ascii false true false false true true true false)
                   (String.String (Ascii.Ascii true true true true false true true false) String.EmptyString))))] /\
       ApiGen.solve_3d_result_ctor =
       (String.String (Ascii.Ascii false false true false true false true false)
          (String.String (Ascii.Ascii false true false false true true true false)
             (String.String (Ascii.Ascii true false false false false true true false)
                (String.String (Ascii.Ascii false true true false true true true false)
                   (String.String (Ascii.Ascii true false true false false true true false)
                      (String.String (Ascii.Ascii false false true true false true true false)
                         (String.String (Ascii.Ascii false false true false true true true false)
                            (String.String (Ascii.Ascii true false false true false true true false)
                               (String.String (Ascii.Ascii true false true true false true true false)
                                  (String.String (Ascii.Ascii true false true false false true true false)
                                     (String.String (Ascii.Ascii true true true false false false true false)
                                        (String.String (Ascii.Ascii false true false false true true true false)
                                           (String.String (Ascii.Ascii true false false true false true true false)
                                              (String.String (Ascii.Ascii false false true false false true true false)
                                                 (String.String
                                                    (Ascii.Ascii true true false false true true false false)
                                                    (String.String
                                                       (Ascii.Ascii false false true false false false true false)
                                                       String.EmptyString))))))))))))))),
        [String.String (Ascii.Ascii true true true false false true true false)
           (String.String (Ascii.Ascii false true false false true true true false)
              (String.String (Ascii.Ascii true false false true false true true false)
                 (String.String (Ascii.Ascii false false true false false true true false) String.EmptyString)));
         String.String (Ascii.Ascii true true true false false true true false)
           (String.String (Ascii.Ascii false true false false true true true false)
              (String.String (Ascii.Ascii true false false true false true true false)
                 (String.String (Ascii.Ascii false false true false false true true false)
                    (String.String (Ascii.Ascii true true false false true true true false)
                       (String.String (Ascii.Ascii true false false true false true true false)
                          (String.String (Ascii.Ascii false true false true true true true false)
                             (String.String (Ascii.Ascii true false true false false true true false)
                                String.EmptyString)))))));
         String.String (Ascii.Ascii true true true true false true true false)
           (String.String (Ascii.Ascii false true false false true true true false)
              (String.String (Ascii.Ascii true false false true false true true false)
                 (String.String (Ascii.Ascii true true true false false true true false)
                    (String.String (Ascii.Ascii true false false true false true true false)
                       (String.String (Ascii.Ascii false true true true false true true false) String.EmptyString)))));
         String.String (Ascii.Ascii true true false false true true true false)
           (String.String (Ascii.Ascii true true true true false true true false)
              (String.String (Ascii.Ascii true false true false true true true false)
                 (String.String (Ascii.Ascii false true false false true true true false)
                    (String.String (Ascii.Ascii true true false false false true true false)
                       (String.String (Ascii.Ascii true false true false false true true false) String.EmptyString)))));
         String.String (Ascii.Ascii true true true false false true true false)
           (String.String (Ascii.Ascii false true false false true true true false)
              (String.String (Ascii.Ascii true false false false false true true false)
                 (String.String (Ascii.Ascii false false true false false true true false)
                    (String.String (Ascii.Ascii true false false true false true true false)
                       (String.String (Ascii.Ascii true false true false false true true false)
                          (String.String (Ascii.Ascii false true true true false true true false)
                             (String.String (Ascii.Ascii false false true false true true true false)
                                String.EmptyString)))))));
         String.String (Ascii.Ascii false true true false true true true false)
           (String.String (Ascii.Ascii false true false true true true true false)
              (String.String (Ascii.Ascii true false true false false true true false)
                 (String.String (Ascii.Ascii false true false false true true true false)
                    (String.String (Ascii.Ascii true true true true false true true false) String.EmptyString))))]) /\
       ApiGen.solve_3d_result_single =
       [(String.String (Ascii.Ascii true true true false false true true false)
           (String.String (Ascii.Ascii false true false false true true true false)
              (String.String (Ascii.Ascii true false false true false true true false)
                 (String.String (Ascii.Ascii false false true false false true true false) String.EmptyString))),
         String.String (Ascii.Ascii false false true false true true true false)
           (String.String (Ascii.Ascii false false true false true true true false) String.EmptyString));
        (String.String (Ascii.Ascii true true true false false true true false)
           (String.String (Ascii.Ascii false true false false true true true false)
              (String.String (Ascii.Ascii true false false true false true true false)
                 (String.String (Ascii.Ascii false false true false false true true false)
                    (String.String (Ascii.Ascii true true false false true true true false)
                       (String.String (Ascii.Ascii true false false true false true true false)
                          (String.String (Ascii.Ascii false true false true true true true false)
                             (String.String (Ascii.Ascii true false true false false true true false)
                                String.EmptyString))))))),
         String.String (Ascii.Ascii true true false false true true true false)
           (String.String (Ascii.Ascii true false true false false true true false)
              (String.String (Ascii.Ascii false false true true false true true false)
                 (String.String (Ascii.Ascii false true true false false true true false)
                    (String.String (Ascii.Ascii false true true true false true false false)
                       (String.String (Ascii.Ascii true true true true true false true false)
                          (String.String (Ascii.Ascii true true true false false true true false)
                             (String.String (Ascii.Ascii false true false false true true true false)
                                (String.String (Ascii.Ascii true false false true false true true false)
                                   (String.String (Ascii.Ascii false false true false false true true false)
                                      (String.String (Ascii.Ascii true true false false true true true false)
                                         (String.String (Ascii.Ascii true false false true false true true false)
                                            (String.String (Ascii.Ascii false true false true true true true false)
                                               (String.String (Ascii.Ascii true false true false false true true false)
                                                  String.EmptyString))))))))))))));
        (String.String (Ascii.Ascii true true true true false true true false)
           (String.String (Ascii.Ascii false true false false true true true false)
              (String.String (Ascii.Ascii true false false true false true true false)
                 (String.String (Ascii.Ascii true true true false false true true false)
                    (String.String (Ascii.Ascii true false false true false true true false)
                       (String.String (Ascii.Ascii false true true true false true true false) String.EmptyString))))),
         String.String (Ascii.Ascii true true false false true true true false)
           (String.String (Ascii.Ascii true false true false false true true false)
              (String.String (Ascii.Ascii false false true true false true true false)
                 (String.String (Ascii.Ascii false true true false false true true false)
                    (String.String (Ascii.Ascii false true true true false true false false)
                       (String.String (Ascii.Ascii true true true true true false true false)
                          (String.String (Ascii.Ascii true true true true false true true false)
                             (String.String (Ascii.Ascii false true false false true true true false)
                                (String.String (Ascii.Ascii true false false true false true true false)
                                   (String.String (Ascii.Ascii true true true false false true true false)
                                      (String.String (Ascii.Ascii true false false true false true true false)
                                         (String.String (Ascii.Ascii false true true true false true true false)
                                            String.EmptyString))))))))))));
        (String.String (Ascii.Ascii true true false false true true true false)
           (String.String (Ascii.Ascii true true true true false true true false)
              (String.String (Ascii.Ascii true false true false true true true false)
                 (String.String (Ascii.Ascii false true false false true true true false)
                    (String.String (Ascii.Ascii true true false false false true true false)
                       (String.String (Ascii.Ascii true false true false false true true false) String.EmptyString))))),
         String.String (Ascii.Ascii true true false false true true true false)
           (String.String (Ascii.Ascii true true true true false true true false)
              (String.String (Ascii.Ascii true false true false true true true false)
                 (String.String (Ascii.Ascii false true false false true true true false)
                    (String.String (Ascii.Ascii true true false false false true true false)
                       (String.String (Ascii.Ascii true false true false false true true false)
                          (String.String (Ascii.Ascii true true false false true true true false) String.EmptyString)))))));
        (String.String (Ascii.Ascii true true true false false true true false)
           (String.String (Ascii.Ascii false true false false true true true false)
              (String.String (Ascii.Ascii true false false false false true true false)
                 (String.String (Ascii.Ascii false false true false false true true false)
                    (String.String (Ascii.Ascii true false false true false true true false)
                       (String.String (Ascii.Ascii true false true false false true true false)
                          (String.String (Ascii.Ascii false true true true false true true false)
                             (String.String (Ascii.Ascii false false true false true true true false)
                                String.EmptyString))))))),
         String.String (Ascii.Ascii false false true false true true true false)
           (String.String (Ascii.Ascii false false true false true true true false)
              (String.String (Ascii.Ascii true true true false false true true false)
                 (String.String (Ascii.Ascii false true false false true true true false)
                    (String.String (Ascii.Ascii true false false false false true true false)
                       (String.String (Ascii.Ascii false false true false false true true false)
                          (String.String (Ascii.Ascii false false false false false true false false)
                             (String.String (Ascii.Ascii true false false true false true true false)
                                (String.String (Ascii.Ascii false true true false false true true false)
                                   (String.String (Ascii.Ascii false false false false false true false false)
                                      (String.String (Ascii.Ascii false true false false true true true false)
                                         (String.String (Ascii.Ascii true false true false false true true false)
                                            (String.String (Ascii.Ascii false false true false true true true false)
                                               (String.String (Ascii.Ascii true false true false true true true false)
                                                  (String.String
                                                     (Ascii.Ascii false true false false true true true false)
                                                     (String.String
                                                        (Ascii.Ascii false true true true false true true false)
                                                        (String.String
                                                           (Ascii.Ascii true true true true true false true false)
                                                           (String.String
                                                              (Ascii.Ascii true true true false false true true false)
                                                              (String.String
                                                                 (Ascii.Ascii false true false false true true true
                                                                    false)
                                                                 (String.String
                                                                    (Ascii.Ascii true false false false false true true
                                                                       false)
                                                                    (String.String
                                                                       (Ascii.Ascii false false true false false true
                                                                          true false)
                                                                       (String.String
                                                                          (Ascii.Ascii true false false true false true
                                                                             true false)
                                                                          (String.String
                                                                             (Ascii.Ascii true false true false false
                                                                                true true false)
                                                                             (String.String
                                                                                (Ascii.Ascii false true true true false
                                                                                   true true false)
                                                                                (String.String
                                                                                   (Ascii.Ascii false false true false
                                                                                      true true true false)
                                                                                   (String.String
                                                                                      (Ascii.Ascii false false false
                                                                                         false false true false false)
                                                                                      (String.String
                                                                                         (Ascii.Ascii true false true
                                                                                          false false true true false)
                                                                                         (String.String
                                                                                          (Ascii.Ascii false false true
                                                                                          true false true true false)
                                                                                          (String.String
                                                                                          (Ascii.Ascii true true false
                                                                                          false true true true false)
                                                                                          (String.String
                                                                                          (Ascii.Ascii true false true
                                                                                          false false true true false)
                                                                                          (String.String
                                                                                          (Ascii.Ascii false false
                                                                                          false false false true false
                                                                                          false)
                                                                                          (String.String
                                                                                          (Ascii.Ascii false true true
                                                                                          true false false true false)
                                                                                          (String.String
                                                                                          (Ascii.Ascii true true true
                                                                                          true false true true false)
                                                                                          (String.String
                                                                                          (Ascii.Ascii false true true
                                                                                          true false true true false)
                                                                                          (String.String
                                                                                          (Ascii.Ascii true false true
                                                                                          false false true true false)
                                                                                          String.EmptyString)))))))))))))))))))))))))))))))))));
        (String.String (Ascii.Ascii false true true false true true true false)
           (String.String (Ascii.Ascii false true false true true true true false)
              (String.String (Ascii.Ascii true false true false false true true false)
                 (String.String (Ascii.Ascii false true false false true true true false)
                    (String.String (Ascii.Ascii true true true true false true true false) String.EmptyString)))),
         String.String (Ascii.Ascii false true true false true true true false)
           (String.String (Ascii.Ascii false true false true true true true false)
              (String.String (Ascii.Ascii true false true false false true true false)
                 (String.String (Ascii.Ascii false true false false true true true false)
                    (String.String (Ascii.Ascii true true true true false true true false) String.EmptyString)))))] /\
       ApiGen.solve_3d_result_multi =
       [(String.String (Ascii.Ascii true true true false false true true false)
           (String.String (Ascii.Ascii false true false false true true true false)
              (String.String (Ascii.Ascii true false false true false true true false)
                 (String.String (Ascii.Ascii false false true false false true true false) String.EmptyString))),
         String.String (Ascii.Ascii false false true false true true true false)
           (String.String (Ascii.Ascii false false true false true true true false)
              (String.String (Ascii.Ascii true true false true true false true false)
                 (String.String (Ascii.Ascii true false false true false true true false)
                    (String.String (Ascii.Ascii true false true true true false true false) String.EmptyString)))));
        (String.String (Ascii.Ascii true true true false false true true false)
           (String.String (Ascii.Ascii false true false false true true true false)
              (String.String (Ascii.Ascii true false false true false true true false)
                 (String.String (Ascii.Ascii false false true false false true true false)
                    (String.String (Ascii.Ascii true true false false true true true false)
                       (String.String (Ascii.Ascii true false false true false true true false)
                          (String.String (Ascii.Ascii false true false true true true true false)
                             (String.String (Ascii.Ascii true false true false false true true false)
                                String.EmptyString))))))),
         String.String (Ascii.Ascii true true false false true true true false)
           (String.String (Ascii.Ascii true false true false false true true false)
              (String.String (Ascii.Ascii false false true true false true true false)
                 (String.String (Ascii.Ascii false true true false false true true false)
                    (String.String (Ascii.Ascii false true true true false true false false)
                       (String.String (Ascii.Ascii true true true true true false true false)
                          (String.String (Ascii.Ascii true true true false false true true false)
                             (String.String (Ascii.Ascii false true false false true true true false)
                                (String.String (Ascii.Ascii true false false true false true true false)
                                   (String.String (Ascii.Ascii false false true false false true true false)
                                      (String.String (Ascii.Ascii true true false false true true true false)
                                         (String.String (Ascii.Ascii true false false true false true true false)
                                            (String.String (Ascii.Ascii false true false true true true true false)
                                               (String.String (Ascii.Ascii true false true false false true true false)
                                                  String.EmptyString))))))))))))));
        (String.String (Ascii.Ascii true true true true false true true false)
           (String.String (Ascii.Ascii false true false false true true true false)
              (String.String (Ascii.Ascii true false false true false true true false)
                 (String.String (Ascii.Ascii true true true false false true true false)
                    (String.String (Ascii.Ascii true false false true false true true false)
                       (String.String (Ascii.Ascii false true true true false true true false) String.EmptyString))))),
         String.String (Ascii.Ascii true true false false true true true false)
           (String.String (Ascii.Ascii true false true false false true true false)
              (String.String (Ascii.Ascii false false true true false true true false)
                 (String.String (Ascii.Ascii false true true false false true true false)
                    (String.String (Ascii.Ascii false true true true false true false false)
                       (String.String (Ascii.Ascii true true true true true false true false)
                          (String.String (Ascii.Ascii true true true true false true true false)
                             (String.String (Ascii.Ascii false true false false true true true false)
                                (String.String (Ascii.Ascii true false false true false true true false)
                                   (String.String (Ascii.Ascii true true true false false true true false)
                                      (String.String (Ascii.Ascii true false false true false true true false)
                                         (String.String (Ascii.Ascii false true true true false true true false)
                                            String.EmptyString))))))))))));
        (String.String (Ascii.Ascii true true false false true true true false)
           (String.String (Ascii.Ascii true true true true false true true false)
              (String.String (Ascii.Ascii true false true false true true true false)
                 (String.String (Ascii.Ascii false true false false true true true false)
                    (String.String (Ascii.Ascii true true false false false true true false)
                       (String.String (Ascii.Ascii true false true false false true true false) String.EmptyString))))),
         String.String (Ascii.Ascii true true false false true true true false)
           (String.String (Ascii.Ascii true true true true false true true false)
              (String.String (Ascii.Ascii true false true false true true true false)
                 (String.String (Ascii.Ascii false true false false true true true false)
                    (String.String (Ascii.Ascii true true false false false true true false)
                       (String.String (Ascii.Ascii true false true false false true true false)
                          (String.String (Ascii.Ascii true true false false true true true false)
                             (String.String (Ascii.Ascii true true false true true false true false)
                                (String.String (Ascii.Ascii true false false true false true true false)
                                   (String.String (Ascii.Ascii true false true true true false true false)
                                      String.EmptyString))))))))));
        (String.String (Ascii.Ascii true true true false false true true false)
           (String.String (Ascii.Ascii false true false false true true true false)
              (String.String (Ascii.Ascii true false false false false true true false)
                 (String.String (Ascii.Ascii false false true false false true true false)
                    (String.String (Ascii.Ascii true false false true false true true false)
                       (String.String (Ascii.Ascii true false true false false true true false)
                          (String.String (Ascii.Ascii false true true true false true true false)
                             (String.String (Ascii.Ascii false false true false true true true false)
                                String.EmptyString))))))),
         String.String (Ascii.Ascii false false true false true true true false)
           (String.String (Ascii.Ascii false false true false true true true false)
              (String.String (Ascii.Ascii true true true false false true true false)
                 (String.String (Ascii.Ascii false true false false true true true false)
                    (String.String (Ascii.Ascii true false false false false true true false)
                       (String.String (Ascii.Ascii false false true false false true true false)
                          (String.String (Ascii.Ascii true true false true true false true false)
                             (String.String (Ascii.Ascii true false false true false true true false)
                                (String.String (Ascii.Ascii true false true true true false true false)
                                   (String.String (Ascii.Ascii false false false false false true false false)
                                      (String.String (Ascii.Ascii true false false true false true true false)
                                         (String.String (Ascii.Ascii false true true false false true true false)
                                            (String.String (Ascii.Ascii false false false false false true false false)
                                               (String.String (Ascii.Ascii false true false false true true true false)
                                                  (String.String
                                                     (Ascii.Ascii true false true false false true true false)
                                                     (String.String
                                                        (Ascii.Ascii false false true false true true true false)
                                                        (String.String
                                                           (Ascii.Ascii true false true false true true true false)
                                                           (String.String
                                                              (Ascii.Ascii false true false false true true true false)
                                                              (String.String
                                                                 (Ascii.Ascii false true true true false true true
                                                                    false)
                                                                 (String.String
                                                                    (Ascii.Ascii true true true true true false true
                                                                       false)
                                                                    (String.String
                                                                       (Ascii.Ascii true true true false false true
                                                                          true false)
                                                                       (String.String
                                                                          (Ascii.Ascii false true false false true true
                                                                             true false)
                                                                          (String.String
                                                                             (Ascii.Ascii true false false false false
                                                                                true true false)
                                                                             (String.String
                                                                                (Ascii.Ascii false false true false
                                                                                   false true true false)
                                                                                (String.String
                                                                                   (Ascii.Ascii true false false true
                                                                                      false true true false)
                                                                                   (String.String
                                                                                      (Ascii.Ascii true false true
                                                                                         false false true true false)
                                                                                      (String.String
                                                                                         (Ascii.Ascii false true true
                                                                                          true false true true false)
                                                                                         (String.String
                                                                                          (Ascii.Ascii false false true
                                                                                          false true true true false)
                                                                                          (String.String
                                                                                          (Ascii.Ascii false false
                                                                                          false false false true false
                                                                                          false)
                                                                                          (String.String
                                                                                          (Ascii.Ascii true false true
                                                                                          false false true true false)
                                                                                          (String.String
                                                                                          (Ascii.Ascii false false true
                                                                                          true false true true false)
                                                                                          (String.String
                                                                                          (Ascii.Ascii true true false
                                                                                          false true true true false)
                                                                                          (String.String
                                                                                          (Ascii.Ascii true false true
                                                                                          false false true true false)
                                                                                          (String.String
                                                                                          (Ascii.Ascii false false
                                                                                          false false false true false
                                                                                          false)
                                                                                          (String.String
                                                                                          (Ascii.Ascii false true true
                                                                                          true false false true false)
                                                                                          (String.String
                                                                                          (Ascii.Ascii true true true
                                                                                          true false true true false)
                                                                                          (String.String
                                                                                          (Ascii.Ascii false true true
                                                                                          true false true true false)
                                                                                          (String.String
                                                                                          (Ascii.Ascii true false true
                                                                                          false false true true false)
                                                                                          String.EmptyString))))))))))))))))))))))))))))))))))))));
        (String.String (Ascii.Ascii false true true false true true true false)
           (String.String (Ascii.Ascii false true false true true true true false)
              (String.String (Ascii.Ascii true false true false false true true false)
                 (String.String (Ascii.Ascii false true false false true true true false)
                    (String.String (Ascii.Ascii true true true true false true true false) String.EmptyString)))),
         String.String (Ascii.Ascii false true true false true true true false)
           (String.String (Ascii.Ascii false true false true true true true false)
              (String.String (Ascii.Ascii true false true false false true true false)
                 (String.String (Ascii.Ascii false true false false true true true false)
                    (String.String (Ascii.Ascii true true true true false true true false)
                       (String.String (Ascii.Ascii true true false true true false true false)
                          (String.String (Ascii.Ascii true false false true false true true false)
                             (String.String (Ascii.Ascii true false true true true false true false) String.EmptyString))))))))] /\
       map fst ApiGen.solve_3d_result_single = snd ApiGen.solve_3d_result_ctor /\
       map fst ApiGen.solve_3d_result_multi = snd ApiGen.solve_3d_result_ctor.
Proof. exact @ApiGenEq.gen_solve_3d_result. Qed.

(* axes extracted from _base.py *)
Theorem C06_node_axes_from_source_2d_z :
  forall (T : Type) (N : Num T) (origin gridsize : list T) (shape : list Z),
       ApiGen.axis_2d_zaxis origin gridsize shape =
       axis_nodes (nth 0 origin (nofZ 0)) (nth 0 gridsize (nofZ 0)) (nth 0 shape 0%Z).
Proof. exact @ApiGenEq.gen_axis_2d_zaxis_eq_gen. Qed.

(* 3D, third axis *)
Theorem C06_node_axes_from_source_3d_y :
  forall (T : Type) (N : Num T) (origin gridsize : list T) (shape : list Z),
       ApiGen.axis_3d_yaxis origin gridsize shape =
       axis_nodes (nth 2 origin (nofZ 0)) (nth 2 gridsize (nofZ 0)) (nth 2 shape 0%Z).
Proof. exact @ApiGenEq.gen_axis_3d_yaxis_eq_gen. Qed.

(* extracted from Eikonal2D.__init__ (`origin if origin is not None else np.zeros(2)`): omitting the origin IS passing the zero vector, every numeric instance *)
Theorem C06_omitted_origin_is_zero_vector_2d :
  forall (T : Type) (N : Num T), ApiGen.eikonal_origin_2d None = ApiGen.eikonal_origin_2d (Some [nofZ 0; nofZ 0]).
Proof. exact @ApiGenEq.gen_eikonal_origin_2d_default. Qed.

(* 3D *)
Theorem C06_omitted_origin_is_zero_vector_3d :
  forall (T : Type) (N : Num T),
       ApiGen.eikonal_origin_3d None = ApiGen.eikonal_origin_3d (Some [nofZ 0; nofZ 0; nofZ 0]).
Proof. exact @ApiGenEq.gen_eikonal_origin_3d_default. Qed.

(* and the kernel then receives the hand model's arguments for the zero origin *)
Theorem C06_solver_arguments_with_omitted_origin_2d :
  forall (T : Type) (N : Num T) (grid gridsize src : list T) (nsweep : Z) (rg : bool),
       ApiGen.solve_args_2d grid gridsize (ApiGen.eikonal_origin_2d None) src nsweep rg =
       (solve_args grid gridsize [nofZ 0; nofZ 0] src, nsweep, rg).
Proof. exact @ApiGenEq.gen_solve_args_2d_default_origin. Qed.

(* 3D *)
Theorem C06_solver_arguments_with_omitted_origin_3d :
  forall (T : Type) (N : Num T) (grid gridsize src : list T) (nsweep : Z) (rg : bool),
       ApiGen.solve_args_3d grid gridsize (ApiGen.eikonal_origin_3d None) src nsweep rg =
       (solve_args grid gridsize [nofZ 0; nofZ 0; nofZ 0] src, nsweep, rg).
Proof. exact @ApiGenEq.gen_solve_args_3d_default_origin. Qed.

(* exact arithmetic, both modes, every end point, source, step, budget and fuel: tracing on translated axes with translated end point and source returns the same count (-1, -2 included) and every stored row is the original row plus the vector (hull test, cell location, clamps, shrink factor, grid magnetism, stopping test and nfree_max are all translation invariant) *)
Theorem C06_ray_core_translates_with_the_frame_2d :
  forall (a b : R) (z x zgrad xgrad : arr R) (nz nx : Z) (zend xend zsrc xsrc stepsize : R) (M : Z) (hg : bool),
       axis z nz ->
       axis x nx ->
       shape zgrad = [nz; nx] ->
       shape xgrad = [nz; nx] ->
       forall (fuel : nat) (ray : arr R) (c : Z),
       u_ray2d_core_v fuel z x zgrad xgrad zend xend zsrc xsrc stepsize M hg = Ok (ray, c) ->
       exists ray' : arr R,
         u_ray2d_core_v fuel (shift_axis a z) (shift_axis b x) zgrad xgrad (a + zend) (b + xend) 
           (a + zsrc) (b + xsrc) stepsize M hg = Ok (ray', c) /\
         shape ray' = shape ray /\
         length (dat ray') = length (dat ray) /\
         (forall k j : Z,
          (0 <= k <= c)%Z -> (0 <= j < 2)%Z -> get 0 ray' [k; j] = nth (Z.to_nat j) [a; b] 0 + get 0 ray [k; j]) /\
         ((-1 <= c)%Z -> forall k j : Z, (c < k < M)%Z -> (0 <= j < 2)%Z -> get 0 ray' [k; j] = get 0 ray [k; j]).
Proof. exact @RayTranslate.ray2d_core_translate_rows. Qed.

(* entry point ray2d: the returned polyline is the original plus the vector, or the same exception *)
Theorem C06_ray_polyline_translates_with_the_frame_2d :
  forall (a b : R) (z x zgrad xgrad : arr R) (nz nx : Z) (p src : arr R) (stepsize : R) 
         (M : Z) (hg : bool) (fuel : nat),
       axis z nz ->
       axis x nx ->
       shape zgrad = [nz; nx] ->
       shape xgrad = [nz; nx] ->
       Ray2dProofs.vec2 p ->
       Ray2dProofs.vec2 src ->
       match ray2d_1 fuel z x zgrad xgrad p src stepsize M hg with
       | Ok r =>
           ray2d_1 fuel (shift_axis a z) (shift_axis b x) zgrad xgrad (RayTranslate.vsh [a; b] p)
             (RayTranslate.vsh [a; b] src) stepsize M hg = Ok (RayTranslate.addvec [a; b] r)
       | Raise e =>
           ray2d_1 fuel (shift_axis a z) (shift_axis b x) zgrad xgrad (RayTranslate.vsh [a; b] p)
             (RayTranslate.vsh [a; b] src) stepsize M hg = Raise e
       | OutOfFuel =>
           ray2d_1 fuel (shift_axis a z) (shift_axis b x) zgrad xgrad (RayTranslate.vsh [a; b] p)
             (RayTranslate.vsh [a; b] src) stepsize M hg = OutOfFuel
       end.
Proof. exact @RayTranslate.ray2d_1_translate. Qed.

(* 3D *)
Theorem C06_ray_core_translates_with_the_frame_3d :
  forall (a b c : R) (z x y zgrad xgrad ygrad : arr R) (nz nx ny : Z) (zend xend yend zsrc xsrc ysrc stepsize : R)
         (M : Z) (hg : bool),
       axis z nz ->
       axis x nx ->
       axis y ny ->
       shape zgrad = [nz; nx; ny] ->
       shape xgrad = [nz; nx; ny] ->
       shape ygrad = [nz; nx; ny] ->
       forall (fuel : nat) (ray : arr R) (k : Z),
       u_ray3d_core_v fuel z x y zgrad xgrad ygrad zend xend yend zsrc xsrc ysrc stepsize M hg = Ok (ray, k) ->
       exists ray' : arr R,
         u_ray3d_core_v fuel (shift_axis a z) (shift_axis b x) (shift_axis c y) zgrad xgrad ygrad 
           (a + zend) (b + xend) (c + yend) (a + zsrc) (b + xsrc) (c + ysrc) stepsize M hg = 
         Ok (ray', k) /\
         shape ray' = shape ray /\
         length (dat ray') = length (dat ray) /\
         (forall i j : Z,
          (0 <= i <= k)%Z -> (0 <= j < 3)%Z -> get 0 ray' [i; j] = nth (Z.to_nat j) [a; b; c] 0 + get 0 ray [i; j]) /\
         ((-1 <= k)%Z -> forall i j : Z, (k < i < M)%Z -> (0 <= j < 3)%Z -> get 0 ray' [i; j] = get 0 ray [i; j]).
Proof. exact @RayTranslate.ray3d_core_translate_rows. Qed.

(* 3D *)
Theorem C06_ray_polyline_translates_with_the_frame_3d :
  forall (a b c : R) (z x y zgrad xgrad ygrad : arr R) (nz nx ny : Z) (p src : arr R) 
         (stepsize : R) (M : Z) (hg : bool) (fuel : nat),
       axis z nz ->
       axis x nx ->
       axis y ny ->
       shape zgrad = [nz; nx; ny] ->
       shape xgrad = [nz; nx; ny] ->
       shape ygrad = [nz; nx; ny] ->
       Ray3dProofs.vec3 p ->
       Ray3dProofs.vec3 src ->
       match ray3d_1 fuel z x y zgrad xgrad ygrad p src stepsize M hg with
       | Ok r =>
           ray3d_1 fuel (shift_axis a z) (shift_axis b x) (shift_axis c y) zgrad xgrad ygrad
             (RayTranslate.vsh [a; b; c] p) (RayTranslate.vsh [a; b; c] src) stepsize M hg =
           Ok (RayTranslate.addvec [a; b; c] r)
       | Raise e =>
           ray3d_1 fuel (shift_axis a z) (shift_axis b x) (shift_axis c y) zgrad xgrad ygrad
             (RayTranslate.vsh [a; b; c] p) (RayTranslate.vsh [a; b; c] src) stepsize M hg = 
           Raise e
       | OutOfFuel =>
           ray3d_1 fuel (shift_axis a z) (shift_axis b x) (shift_axis c y) zgrad xgrad ygrad
             (RayTranslate.vsh [a; b; c] p) (RayTranslate.vsh [a; b; c] src) stepsize M hg = OutOfFuel
       end.
Proof. exact @RayTranslate.ray3d_1_translate. Qed.

Print Assumptions C06_axis_shift.
Print Assumptions C06_searchsorted_commutes_with_translation.
Print Assumptions C06_interp2d_translate.
Print Assumptions C06_interp3d_translate.
Print Assumptions C06_vinterp2d_translate.
Print Assumptions C06_vinterp3d_translate.
Print Assumptions C06_omitting_origin_is_zero_origin.
Print Assumptions C06_solver_receives_source_minus_origin.
Print Assumptions C06_node_axes_translate.
Print Assumptions C06_solver_receives_source_minus_origin_from_source_2d.
Print Assumptions C06_solver_receives_source_minus_origin_from_source_3d.
Print Assumptions C06_solve_result_carries_absolute_source_and_origin_2d.
Print Assumptions C06_solve_result_carries_absolute_source_and_origin_3d.
Print Assumptions C06_node_axes_from_source_2d_z.
Print Assumptions C06_node_axes_from_source_3d_y.
Print Assumptions C06_omitted_origin_is_zero_vector_2d.
Print Assumptions C06_omitted_origin_is_zero_vector_3d.
Print Assumptions C06_solver_arguments_with_omitted_origin_2d.
Print Assumptions C06_solver_arguments_with_omitted_origin_3d.
Print Assumptions C06_ray_core_translates_with_the_frame_2d.
Print Assumptions C06_ray_polyline_translates_with_the_frame_2d.
Print Assumptions C06_ray_core_translates_with_the_frame_3d.
Print Assumptions C06_ray_polyline_translates_with_the_frame_3d.
