(* C06  Origin invariance: translating the axes, the source and the query points by one common vector leaves interpolated values unchanged (exact arithmetic over the generated interpolators); the solver kernels only ever receive source - origin.
   Only statements and `exact`: the proofs are in proofs/.  Written by tools/mkprops.py from Coq's own printing of the
   lemma statements; every statement is in full below so that it cannot be weakened without this file changing. *)
From Coq Require Import ZArith List Bool Reals Lia Lra.
From FT.lib Require Import Num Arr ArrLemmas Lower NumArr.
From FT.gen Require Import Common Interp2d Interp3d Vinterp2d Vinterp3d FteikCommon Fteik2d Fteik3d Ray2d Ray3d.
From FT.model Require Import Api.
From FT.proofs Require Import SSR InterpR Interp3R VinterpR Vinterp3R TranslateR ApiProofs.
Import ListNotations.
Open Scope R_scope.

(* a translated axis is an axis *)
Theorem C06_axis_shift :
  forall (o : R) (x : arr R) (n : Z), axis x n -> axis (shift_axis o x) n.
Proof. exact @TranslateR.axis_shift. Qed.

(* cell location commutes with translation, for any array *)
Theorem C06_searchsorted_commutes_with_translation :
  forall (o : R) (x : arr R) (q : R), searchsorted_right (shift_axis o x) (o + q) = searchsorted_right x q.
Proof. exact @TranslateR.ssr_shift. Qed.

(* model / gradient-grid evaluation: every query point, inside or outside the hull *)
Theorem C06_interp2d_translate :
  forall (ox oy : R) (x y v : arr R) (nx ny : Z) (xq yq fval : R),
       axis x nx ->
       axis y ny ->
       shape v = [nx; ny] ->
       u_interp2d_v (shift_axis ox x) (shift_axis oy y) v (ox + xq) (oy + yq) fval = u_interp2d_v x y v xq yq fval.
Proof. exact @TranslateR.interp2d_translate. Qed.

(* 3D *)
Theorem C06_interp3d_translate :
  forall (ox oy oz : R) (x y z v : arr R) (nx ny nz : Z) (xq yq zq fval : R),
       axis x nx ->
       axis y ny ->
       axis z nz ->
       shape v = [nx; ny; nz] ->
       u_interp3d_v (shift_axis ox x) (shift_axis oy y) (shift_axis oz z) v (ox + xq) (oy + yq) (oz + zq) fval =
       u_interp3d_v x y z v xq yq zq fval.
Proof. exact @TranslateR.interp3d_translate. Qed.

(* traveltime evaluation (source translated too): every case - outside, source cell, zero corner, far faces, generic *)
Theorem C06_vinterp2d_translate :
  forall (ox oy : R) (x y v : arr R) (nx ny : Z) (xq yq xsrc ysrc vzero fval : R),
       axis x nx ->
       axis y ny ->
       shape v = [nx; ny] ->
       u_vinterp2d_v (shift_axis ox x) (shift_axis oy y) v (ox + xq) (oy + yq) (ox + xsrc) (oy + ysrc) vzero fval =
       u_vinterp2d_v x y v xq yq xsrc ysrc vzero fval.
Proof. exact @TranslateR.vinterp2d_translate. Qed.

(* 3D *)
Theorem C06_vinterp3d_translate :
  forall (ox oy oz : R) (x y z v : arr R) (nx ny nz : Z) (xq yq zq xsrc ysrc zsrc vzero fval : R),
       axis x nx ->
       axis y ny ->
       axis z nz ->
       shape v = [nx; ny; nz] ->
       u_vinterp3d_v (shift_axis ox x) (shift_axis oy y) (shift_axis oz z) v (ox + xq) (oy + yq) 
         (oz + zq) (ox + xsrc) (oy + ysrc) (oz + zsrc) vzero fval =
       u_vinterp3d_v x y z v xq yq zq xsrc ysrc zsrc vzero fval.
Proof. exact @TranslateR.vinterp3d_translate. Qed.

(* translating by zero changes nothing *)
Theorem C06_omitting_origin_is_zero_origin :
  forall x : arr R, shift_axis 0 x = x.
Proof. exact @TranslateR.shift_axis_0. Qed.

(* API layer (hand model coq/model/Api.v, tied by harness/corr_api.py run_api): the solver kernel is handed (1/grid, spacing, source - origin), which does not change when origin and source are translated together *)
Theorem C06_solver_receives_source_minus_origin :
  forall grid gs o src t : list R,
       length src = length o ->
       length o = length t -> solve_args grid gs (zip_add o t) (zip_add src t) = solve_args grid gs o src.
Proof. exact @ApiProofs.solve_args_origin_invariant. Qed.

(* API layer: the node axes origin + spacing*k of a translated origin are the translated axes *)
Theorem C06_node_axes_translate :
  forall (t o d : R) (n : Z), axis_nodes (t + o) d n = map (Rplus t) (axis_nodes o d n).
Proof. exact @ApiProofs.axis_nodes_translate. Qed.

Print Assumptions C06_axis_shift.
Print Assumptions C06_searchsorted_commutes_with_translation.
Print Assumptions C06_interp2d_translate.
Print Assumptions C06_interp3d_translate.
Print Assumptions C06_vinterp2d_translate.
Print Assumptions C06_vinterp3d_translate.
Print Assumptions C06_omitting_origin_is_zero_origin.
Print Assumptions C06_solver_receives_source_minus_origin.
Print Assumptions C06_node_axes_translate.
