(* C17  Results depend only on argument values, not on history or representation.
   What can be stated as theorems: the effect summary of the API layer, extracted from the source by
   tools/py2coq/effects.py (a conservative syntactic scan: attributes of `self` assigned, parameters possibly updated
   in place through any alias, globals rebound) and regenerated on every run as gen/Effects.v, shows that
     - no function or method of the API layer updates any of its arguments in place or rebinds a global, and
     - only constructors, `resample` and `smooth` assign attributes of the object, and the latter two only the grid
       (and spacing): solve, point evaluation, gradient access, raytrace and the axes leave the object untouched.
   Aliasing of NumPy buffers inside library calls, dtype/layout dispatch and the on-disk JIT cache are outside this
   scan; they are observed by the history oracle (harness/oracles2.py, oracle_C17). *)
From Coq Require Import String List Bool.
From FT.gen Require Import Effects.
Import ListNotations.
Open Scope string_scope.

Definition fname (r : string * list string * list string * list string) := fst (fst (fst r)).
Definition attrs (r : string * list string * list string * list string) := snd (fst (fst r)).
Definition params (r : string * list string * list string * list string) := snd (fst r).
Definition globals (r : string * list string * list string * list string) := snd r.
Definition is_nil {A} (l : list A) : bool := match l with [] => true | _ => false end.
Definition mem (s : string) (l : list string) : bool := existsb (String.eqb s) l.
Definition subset (a b : list string) : bool := forallb (fun x => mem x b) a.
Definition ends_with_init (s : string) : bool :=
  let n := String.length s in String.eqb (String.substring (n - 8) 8 s) "__init__".

Theorem C17_no_argument_is_updated_in_place_and_no_global_rebound :
  forallb (fun r => is_nil (params r) && is_nil (globals r)) effects = true.
Proof. vm_compute. reflexivity. Qed.

Theorem C17_only_constructors_resample_smooth_assign_attributes :
  forallb (fun r =>
    is_nil (attrs r)
    || ends_with_init (fname r)
    || (mem (fname r) ["_base.BaseGrid2D.resample"; "_base.BaseGrid3D.resample"] && subset (attrs r) ["_grid"; "_gridsize"])
    || (mem (fname r) ["_base.BaseGrid2D.smooth"; "_base.BaseGrid3D.smooth"] && subset (attrs r) ["_grid"])) effects = true.
Proof. vm_compute. reflexivity. Qed.

(* the read-only operations named by the property are present in the summary (non-vacuity) *)
Theorem C17_read_only_operations_listed :
  forallb (fun f => existsb (fun r => String.eqb (fname r) f && is_nil (attrs r)) effects)
    ["_solver.Eikonal2D.solve"; "_solver.Eikonal3D.solve"; "_base.BaseGrid2D.__call__"; "_base.BaseGrid3D.__call__";
     "_grid.TraveltimeGrid2D.__call__"; "_grid.TraveltimeGrid3D.__call__"; "_grid.TraveltimeGrid2D.raytrace";
     "_grid.TraveltimeGrid3D.raytrace"; "_grid.TraveltimeGrid2D.gradient"; "_grid.TraveltimeGrid3D.gradient";
     "_base.BaseGrid2D.zaxis"; "_base.BaseGrid3D.yaxis"] = true.
Proof. vm_compute. reflexivity. Qed.

Print Assumptions C17_no_argument_is_updated_in_place_and_no_global_rebound.
Print Assumptions C17_only_constructors_resample_smooth_assign_attributes.
Print Assumptions C17_read_only_operations_listed.
