(* C17  Results depend only on argument values, not on history or representation.
   What can be stated as theorems: the effect summary of the API layer, extracted from the source by
   tools/py2coq/effects.py (a conservative syntactic scan: attributes of `self` assigned, parameters possibly updated
   in place through any alias, globals rebound) and regenerated on every run as gen/Effects.v, shows that
     - no function or method of the API layer updates any of its arguments in place or rebinds a global, and
     - only constructors, `resample` and `smooth` assign attributes of the object, and the latter two only the grid
       (and spacing): solve, point evaluation, gradient access, raytrace and the axes leave the object untouched.
   Aliasing of NumPy buffers inside library calls, dtype/layout dispatch and the on-disk JIT cache are outside this
   scan; they are observed by the history oracle (harness/oracles2.py, oracle_C17). *)
From Coq Require Import String List Bool.
From FT.gen Require Import Effects.
From FT.gen Require ApiGen.
From FT.proofs Require ApiGenEq.
Import ListNotations.
Open Scope string_scope.

Definition fname (r : string * list string * list string * list string) := fst (fst (fst r)).
Definition attrs (r : string * list string * list string * list string) := snd (fst (fst r)).
Definition params (r : string * list string * list string * list string) := snd (fst r).
Definition globals (r : string * list string * list string * list string) := snd r.
Definition is_nil {A} (l : list A) : bool := match l with [] => true | _ => false end.
Definition mem (s : string) (l : list string) : bool := existsb (String.eqb s) l.
Definition subset (a b : list string) : bool := forallb (fun x => mem x b) a.
Definition ends_with_init (s : string) : bool :=
  let n := String.length s in String.eqb (String.substring (n - 8) 8 s) "__init__".

Theorem C17_no_argument_is_updated_in_place_and_no_global_rebound :
  forallb (fun r => is_nil (params r) && is_nil (globals r)) effects = true.
Proof. vm_compute. reflexivity. Qed.

Theorem C17_only_constructors_resample_smooth_assign_attributes :
  forallb (fun r =>
    is_nil (attrs r)
    || ends_with_init (fname r)
    || (mem (fname r) ["_base.BaseGrid2D.resample"; "_base.BaseGrid3D.resample"] && subset (attrs r) ["_grid"; "_gridsize"])
    || (mem (fname r) ["_base.BaseGrid2D.smooth"; "_base.BaseGrid3D.smooth"] && subset (attrs r) ["_grid"])) effects = true.
Proof. vm_compute. reflexivity. Qed.

(* the read-only operations named by the property are present in the summary (non-vacuity) *)
Theorem C17_read_only_operations_listed :
  forallb (fun f => existsb (fun r => String.eqb (fname r) f && is_nil (attrs r)) effects)
    ["_solver.Eikonal2D.solve"; "_solver.Eikonal3D.solve"; "_base.BaseGrid2D.__call__"; "_base.BaseGrid3D.__call__";
     "_grid.TraveltimeGrid2D.__call__"; "_grid.TraveltimeGrid3D.__call__"; "_grid.TraveltimeGrid2D.raytrace";
     "_grid.TraveltimeGrid3D.raytrace"; "_grid.TraveltimeGrid2D.gradient"; "_grid.TraveltimeGrid3D.gradient";
     "_base.BaseGrid2D.zaxis"; "_base.BaseGrid3D.yaxis"] = true.
Proof. vm_compute. reflexivity. Qed.

(* The package surface, extracted by tools/py2coq/apigen.py on every run (gen/ApiGen.v; anything else at module level - a
   call, a monkeypatch assignment, a try/except, a decorator, a new module file that no translator reads - is REJECTED):
   the package consists of exactly these 19 files, the __init__ files only import and list names, every exported name
   comes from its expected module, the two thread helpers only forward to Numba, and _base/_grid/_solver contain only
   their imports and the known classes (no module-level state).  Proofs in proofs/ApiGenEq.v. *)
Theorem C17_package_is_exactly_these_files :
  ApiGen.pkg_files
  = ["__about__.py"; "__init__.py"; "_base.py"; "_common.py";
     "_fteik/__init__.py"; "_fteik/_common.py"; "_fteik/_fteik2d.py"; "_fteik/_fteik3d.py"; "_fteik/_ray2d.py";
     "_fteik/_ray3d.py"; "_grid.py"; "_helpers.py";
     "_interp/__init__.py"; "_interp/_interp2d.py"; "_interp/_interp3d.py"; "_interp/_vinterp2d.py";
     "_interp/_vinterp3d.py"; "_io.py"; "_solver.py"]
  /\ length ApiGen.pkg_files = 19%nat.
Proof. exact ApiGenEq.gen_pkg_files. Qed.

Theorem C17_thread_helpers_only_forward_to_numba :
  ApiGen.helpers_imports = [("import", ["numba"])]
  /\ ApiGen.helpers_funcs = [("get_num_threads", ([], "return numba.get_num_threads()"));
                             ("set_num_threads", (["n"], "numba.set_num_threads(n)"))].
Proof. exact ApiGenEq.gen_helpers. Qed.

Theorem C17_package_exports :
  ApiGen.pkg_init_all
  = ["Eikonal2D"; "Eikonal3D"; "Grid2D"; "Grid3D"; "TraveltimeGrid2D"; "TraveltimeGrid3D"; "get_num_threads";
     "set_num_threads"; "grid_to_meshio"; "ray_to_meshio"; "__version__"]
  /\ ApiGen.pkg_init_imports
     = [(".__about__", ["__version__"]); ("._grid", ["Grid2D"; "Grid3D"; "TraveltimeGrid2D"; "TraveltimeGrid3D"]);
        ("._helpers", ["get_num_threads"; "set_num_threads"]); ("._io", ["grid_to_meshio"; "ray_to_meshio"]);
        ("._solver", ["Eikonal2D"; "Eikonal3D"])]
  /\ map (ApiGenEq.imported_from ApiGen.pkg_init_imports) ApiGen.pkg_init_all
     = [Some "._solver"; Some "._solver"; Some "._grid"; Some "._grid"; Some "._grid"; Some "._grid";
        Some "._helpers"; Some "._helpers"; Some "._io"; Some "._io"; Some ".__about__"]
  /\ map fst ApiGen.pkg_about = ["__version__"].
Proof. exact ApiGenEq.gen_pkg_exports. Qed.

Theorem C17_module_surface :
  ApiGen.mod_base_imports
  = [("abc", ["ABC"]); ("import", ["numpy as np"]); ("scipy.interpolate", ["RegularGridInterpolator"]);
     ("scipy.ndimage", ["gaussian_filter"]); ("._interp", ["interp2d"; "interp3d"])]
  /\ ApiGen.mod_base_classes = ["BaseGrid"; "BaseGrid2D"; "BaseGrid3D"; "BaseTraveltime"]
  /\ ApiGen.mod_grid_imports
     = [("import", ["numpy as np"]); ("._base", ["BaseGrid2D"; "BaseGrid3D"; "BaseTraveltime"]);
        ("._fteik", ["ray2d"; "ray3d"]); ("._interp", ["vinterp2d"; "vinterp3d"])]
  /\ ApiGen.mod_grid_classes = ["Grid2D"; "Grid3D"; "TraveltimeGrid2D"; "TraveltimeGrid3D"]
  /\ ApiGen.mod_solver_imports
     = [("import", ["numpy as np"]); ("._base", ["BaseGrid2D"; "BaseGrid3D"]); ("._fteik", ["solve2d"; "solve3d"]);
        ("._grid", ["TraveltimeGrid2D"; "TraveltimeGrid3D"])]
  /\ ApiGen.mod_solver_classes = ["Eikonal2D"; "Eikonal3D"].
Proof. exact ApiGenEq.gen_module_surface. Qed.

Print Assumptions C17_no_argument_is_updated_in_place_and_no_global_rebound.
Print Assumptions C17_only_constructors_resample_smooth_assign_attributes.
Print Assumptions C17_read_only_operations_listed.
Print Assumptions C17_package_is_exactly_these_files.
Print Assumptions C17_thread_helpers_only_forward_to_numba.
Print Assumptions C17_package_exports.
Print Assumptions C17_module_surface.
