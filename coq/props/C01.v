(* C01  Homogeneous media: traveltime equals distance over velocity - the exact-arithmetic mechanisms (model: gen/Fteik2d.v, gen/Fteik3d.v).  The global tolerances are examined on the implementation by the oracle.
   Only statements and `exact`: the proofs are in proofs/.  Written by tools/mkprops.py from Coq's own printing of the
   lemma statements; every statement is in full below so that it cannot be weakened without this file changing. *)
From Coq Require Import ZArith List Bool Reals Lia Lra.
From FT.lib Require Import Num Arr ArrLemmas Lower NumArr.
From FT.gen Require Import Common Interp2d Interp3d Vinterp2d Vinterp3d FteikCommon Fteik2d Fteik3d Ray2d Ray3d.
From FT.proofs Require Import Sweep2dProofs OperatorsR SweepDargs.
From FT.proofs Require Operators3R InitSym InitExact.
Import ListNotations.
Open Scope R_scope.

(* a 2D pass hands every node update the tuple (dz, dx, 1/dz, 1/dx, 1/dz^2, 1/dx^2) and depends on the spacings only through it (every numeric instance) *)
Theorem C01_sweep2d_constants :
  forall (T : Type) (H : Num T),
       exists
         F : T * T * T * T * T * T ->
             arr T -> arr Z -> arr T -> T -> T -> T -> T -> T -> Z -> Z -> bool -> arr T * arr Z,
         forall (tt : arr T) (ttsgn : arr Z) (slow : arr T) (dz dx zsi xsi zsa xsa vzero : T) (nz nx : Z) (grad : bool),
         sweep2d tt ttsgn slow dz dx zsi xsi zsa xsa vzero nz nx grad =
         F (dargs2 dz dx) tt ttsgn slow zsi xsi zsa xsa vzero nz nx grad.
Proof. exact @SweepDargs.sweep2d_through_dargs2. Qed.

(* a 3D pass hands every node update (dz, dx, dy, 1/dz^2, 1/dx^2, 1/dy^2, their pairwise products in the order zx, zy, xy, and their sum) - the constants the plane-wave exactness theorems below are stated for *)
Theorem C01_sweep3d_constants :
  forall (T : Type) (H : Num T),
       exists
         F : T * T * T * T * T * T * T * T * T * T -> arr T -> arr Z -> arr T -> Z -> Z -> Z -> bool -> arr T * arr Z,
         forall (tt : arr T) (ttsgn : arr Z) (slow : arr T) (dz dx dy : T) (nz nx ny : Z) (grad : bool),
         sweep3d tt ttsgn slow dz dx dy nz nx ny grad = F (dargs3 dz dx dy) tt ttsgn slow nz nx ny grad.
Proof. exact @SweepDargs.sweep3d_through_dargs3. Qed.

(* the analytic seed: slowness x Euclidean distance from node (i,j) to the source at (zsa,xsa) in grid units, with per-axis spacings *)
Theorem C01_t_ana_is_distance_times_slowness :
  forall (i j : Z) (dz dx zsa xsa v : R),
       Fteik2d.t_ana i j dz dx zsa xsa v = v * sqrt ((dz * (IZR i - zsa)) ^ 2 + (dx * (IZR j - xsa)) ^ 2).
Proof. exact @OperatorsR.t_ana_exact. Qed.

(* its derivatives are the analytic gradient *)
Theorem C01_t_anad_is_its_gradient :
  forall (i j : Z) (dz dx zsa xsa v : R),
       let Z := dz * (IZR i - zsa) in
       let X := dx * (IZR j - xsa) in
       let r := sqrt (Z ^ 2 + X ^ 2) in
       0 < v -> 0 < r -> Fteik2d.t_anad i j dz dx zsa xsa v = (v * r, v * (Z / r), v * (X / r)).
Proof. exact @OperatorsR.t_anad_is_gradient. Qed.

(* the spherical operator returns the analytic time when its neighbours carry the analytic time (zero perturbations) and the sweep looks away from the source *)
Theorem C01_spherical_operator_exact :
  forall (t1 t0c tzc txc dzi dxi dz2i dx2i vzero : R) (sgntz sgntx : Z),
       0 <= IZR sgntx * txc * dxi + IZR sgntz * tzc * dzi ->
       delta t1 0 0 0 t0c tzc txc dzi dxi dz2i dx2i vzero vzero sgntz sgntx = t0c.
Proof. exact @OperatorsR.delta_spherical_exact. Qed.

(* inside the 5-cell box one update with exact upwind values writes min(old, 1D candidates, analytic time) *)
Theorem C01_sweep_near_source_exact :
  forall (tt : arr R) (ttsgn : arr Z) (slow : arr R) (dz dx dzi dxi dz2i dx2i zsi xsi zsa xsa vzero : R)
         (i j sgnvz sgnvx sgntz sgntx nz nx : Z) (grad : bool),
       let tv := Fteik2d.t_ana (i - sgntz) j dz dx zsa xsa vzero in
       let te := Fteik2d.t_ana i (j - sgntx) dz dx zsa xsa vzero in
       let tev := Fteik2d.t_ana (i - sgntz) (j - sgntx) dz dx zsa xsa vzero in
       let tn := Fteik2d.t_ana i j dz dx zsa xsa vzero in
       0 <= dz ->
       0 <= dx ->
       0 <= dzi ->
       0 <= dxi ->
       0 <= IZR sgntz * (IZR i - zsa) ->
       0 <= IZR sgntx * (IZR j - xsa) ->
       ~ (IZR epsin < Rabs (IZR i - zsi) \/ IZR epsin < Rabs (IZR j - xsi)) ->
       nb_v tt i j sgntz = tv ->
       nb_e tt i j sgntx = te ->
       nb_ev tt i j sgntz sgntx = tev ->
       cell_s slow i j sgnvz sgnvx = vzero ->
       tv < te + dx * vzero ->
       te < tv + dz * vzero ->
       tev <= te ->
       tev <= tv ->
       tv <= tn ->
       te <= tn ->
       fst
         (Fteik2d.sweep tt ttsgn slow (dz, dx, dzi, dxi, dz2i, dx2i) zsi xsi zsa xsa vzero i j sgnvz sgnvx sgntz sgntx
            nz nx grad) =
       set tt [i; j] (pymin3 (get 0 tt [i; j]) (t1d tt slow dz dx i j sgnvz sgnvx sgntz sgntx nz nx) tn).
Proof. exact @OperatorsR.sweep_spherical_homogeneous. Qed.

(* far from the source: the 4-point operator is exact on a plane wave, any per-axis spacing *)
Theorem C01_four_point_exact_on_plane_wave :
  forall T0 s a b dz dx : R,
       0 < dz ->
       0 < dx ->
       0 <= s ->
       0 <= a ->
       0 <= b ->
       a * a + b * b = 1 ->
       four_point (T0 + s * b * dx) (T0 + s * a * dz) T0 s (1 / dz / dz) (1 / dx / dx) = T0 + s * (a * dz + b * dx).
Proof. exact @OperatorsR.four_point_exact_on_plane_wave. Qed.

(* the 3-point operator is exact on a plane wave *)
Theorem C01_three_point_exact_on_plane_wave :
  forall T0 s a b dz dx : R,
       dz <> 0 ->
       0 <= s -> 0 <= b -> a * a + b * b = 1 -> three_point_e (T0 + s * a * dz) T0 s dz dx = T0 + s * (a * dz + b * dx).
Proof. exact @OperatorsR.three_point_e_exact_on_plane_wave. Qed.

(* the generated sweep, outside the box, applies exactly that operator to the upwind values *)
Theorem C01_sweep_far_field_plane_wave :
  forall (tt : arr R) (ttsgn : arr Z) (slow : arr R) (dz dx zsi xsi zsa xsa vzero : R)
         (i j sgnvz sgnvx sgntz sgntx nz nx : Z) (grad : bool) (T0 s a b : R),
       0 < dz ->
       0 < dx ->
       0 <= s ->
       0 <= a ->
       0 <= b ->
       a * a + b * b = 1 ->
       IZR epsin < Rabs (IZR i - zsi) \/ IZR epsin < Rabs (IZR j - xsi) ->
       nb_ev tt i j sgntz sgntx = T0 ->
       nb_v tt i j sgntz = T0 + s * b * dx ->
       nb_e tt i j sgntx = T0 + s * a * dz ->
       cell_s slow i j sgnvz sgnvx = s ->
       fst (Fteik2d.sweep tt ttsgn slow (dargs_of dz dx) zsi xsi zsa xsa vzero i j sgnvz sgnvx sgntz sgntx nz nx grad) =
       set tt [i; j]
         (pymin3 (get 0 tt [i; j]) (t1d tt slow dz dx i j sgnvz sgnvx sgntz sgntx nz nx) (T0 + s * (a * dz + b * dx))).
Proof. exact @OperatorsR.sweep_four_point_plane_wave. Qed.

(* 3D analytic seed *)
Theorem C01_t_ana_3d :
  forall (i j k : Z) (dz dx dy zsa xsa ysa v : R),
       t_ana i j k dz dx dy zsa xsa ysa v =
       v * sqrt ((dz * (IZR i - zsa)) ^ 2 + (dx * (IZR j - xsa)) ^ 2 + (dy * (IZR k - ysa)) ^ 2).
Proof. exact @Operators3R.t_ana_exact. Qed.

(* the 3D operator is exact on every plane wave with non-negative direction cosines *)
Theorem C01_op3_exact_on_plane_wave :
  forall T0 s a b c dz dx dy : R,
       0 < dz ->
       0 < dx ->
       0 < dy ->
       0 <= s ->
       0 <= a ->
       0 <= b ->
       0 <= c ->
       a * a + b * b + c * c = 1 ->
       Operators3R.op3 (T0 + s * (b * dx + c * dy)) (T0 + s * (a * dz + c * dy)) (T0 + s * (a * dz + b * dx))
         (T0 + s * c * dy) (T0 + s * a * dz) (T0 + s * b * dx) T0 s (1 / dz / dz) (1 / dx / dx) 
         (1 / dy / dy) (1 / dz / dz * (1 / dx / dx)) (1 / dz / dz * (1 / dy / dy)) (1 / dx / dx * (1 / dy / dy))
         (1 / dz / dz + 1 / dx / dx + 1 / dy / dy) = T0 + s * (a * dz + b * dx + c * dy).
Proof. exact @Operators3R.op3_exact_on_plane_wave. Qed.

(* the generated 3D sweep applies it *)
Theorem C01_sweep3d_plane_wave :
  forall (tt : arr R) (ttsgn : arr Z) (slow : arr R) (dz dx dy : R)
         (i j k sgnvz sgnvx sgnvy sgntz sgntx sgnty nz nx ny : Z) (grad : bool) (T0 s a b c : R),
       let t1 := Operators3R.t1d tt slow dz dx dy i j k sgnvz sgnvx sgnvy sgntz sgntx sgnty nz nx ny in
       let t2 :=
         Operators3R.sweep_t2d tt slow dz dx dy (1 / dz / dz) (1 / dx / dx) (1 / dy / dy) i j k sgnvz sgnvx sgnvy sgntz
           sgntx sgnty nz nx ny in
       0 < dz ->
       0 < dx ->
       0 < dy ->
       0 <= s ->
       0 <= a ->
       0 <= b ->
       0 <= c ->
       a * a + b * b + c * c = 1 ->
       Operators3R.nb_nve tt i j k sgntz sgntx sgnty = T0 ->
       Operators3R.nb_ev tt i j k sgntz sgntx = T0 + s * c * dy ->
       Operators3R.nb_en tt i j k sgntx sgnty = T0 + s * a * dz ->
       Operators3R.nb_nv tt i j k sgntz sgnty = T0 + s * b * dx ->
       Operators3R.nb_v tt i j k sgntz = T0 + s * (b * dx + c * dy) ->
       Operators3R.nb_e tt i j k sgntx = T0 + s * (a * dz + c * dy) ->
       Operators3R.nb_n tt i j k sgnty = T0 + s * (a * dz + b * dx) ->
       Operators3R.cell_s slow i j k sgnvz sgnvx sgnvy = s ->
       pymax3 (T0 + s * (b * dx + c * dy)) (T0 + s * (a * dz + c * dy)) (T0 + s * (a * dz + b * dx)) < pymin2 t1 t2 ->
       fst
         (sweep tt ttsgn slow (Operators3R.dargs_of dz dx dy) i j k sgnvz sgnvx sgnvy sgntz sgntx sgnty nz nx ny grad) =
       set tt [i; j; k] (pymin4 (get 0 tt [i; j; k]) t1 t2 (T0 + s * (a * dz + b * dx + c * dy))).
Proof. exact @Operators3R.sweep_op3_plane_wave. Qed.

(* off-node sources: the generated source-line initialisation is (by conversion) corners + east, west, down, up phases *)
Theorem C01_init_is_four_copies :
  forall (T : Type) (H : Num T) (dx dz : T) (grad : bool) (iflag nx nz : Z) (slow tt_v ttgrad : arr T)
         (ttsgn : arr Z) (vzero xsa : T) (xsi : Z) (zsa : T) (zsi : Z),
       fteik2d_p2 dx dz grad iflag nx nz slow tt_v ttgrad ttsgn vzero xsa xsi zsa zsi =
       (if iflag =? 2
        then
         let td := full [Z.max nz nx] Fteik2d.Big in
         let dzu := nabs (nsub zsa (nofZ zsi)) in
         let dzd := nsub (nofZ 1) dzu in
         let dxw := nabs (nsub xsa (nofZ xsi)) in
         let dxe := nsub (nofZ 1) dxw in
         let c := InitSym.init_corners dx dz grad vzero xsa xsi zsa zsi tt_v ttgrad in
         let st := InitSym.east_phase dx dz grad nx slow vzero xsa xsi zsa zsi dzu dzd dxe (td, fst c, ttsgn) in
         let st0 := InitSym.west_phase dx dz grad slow vzero xsa xsi zsa zsi dzu dzd dxw st in
         let st1 :=
           InitSym.down_phase dx dz grad nz slow vzero xsa xsi zsa zsi dxw dxe dzd
             (fill (fst (fst st0)) Fteik2d.Big, snd (fst st0), snd st0) in
         let st2 := InitSym.up_phase dx dz grad slow vzero xsa xsi zsa zsi dxw dxe dzu st1 in
         (snd (fst st2), snd c, snd st2)
        else (set tt_v [ntrunc zsa; ntrunc xsa] (nofZ 0), ttgrad, ttsgn)).
Proof. exact @InitSym.fteik2d_p2_decompose. Qed.

(* homogeneous medium, source anywhere in its cell, any spacings: after the initialisation every node is either untouched (placeholder) or holds exactly slowness x distance, and the set of written nodes is init_set (corners of the source cell and the reached nodes of the two rows and two columns through it); in particular the admissibility guard of fix fdc5767 always passes there *)
Theorem C01_init_homogeneous_exact :
  forall (nz nx : Z) (dz dx : R) (grad : bool) (slow tt ttgrad : arr R) (ttsgn : arr Z) 
         (vzero zsa xsa : R) (zsi xsi : Z),
       0 < dz ->
       0 < dx ->
       0 <= vzero ->
       (0 <= zsi < nz - 1)%Z ->
       (0 <= xsi < nx - 1)%Z ->
       IZR zsi <= zsa <= IZR zsi + 1 ->
       IZR xsi <= xsa <= IZR xsi + 1 ->
       (forall i j : Z, (0 <= i < nz - 1)%Z -> (0 <= j < nx - 1)%Z -> get 0 slow [i; j] = vzero) ->
       wf tt ->
       shape tt = [nz; nx] ->
       (forall i j : Z, (0 <= i < nz)%Z -> (0 <= j < nx)%Z -> get 0 tt [i; j] = Fteik2d.Big) ->
       let r := fteik2d_p2 dx dz grad 2 nx nz slow tt ttgrad ttsgn vzero xsa xsi zsa zsi in
       forall i j : Z,
       (0 <= i < nz)%Z ->
       (0 <= j < nx)%Z ->
       (InitExact.init_set dz dx vzero zsa xsa zsi xsi i j \/ ~ InitExact.init_set dz dx vzero zsa xsa zsi xsi i j) /\
       (InitExact.init_set dz dx vzero zsa xsa zsi xsi i j ->
        get 0 (fst (fst r)) [i; j] = Fteik2d.t_ana i j dz dx zsa xsa vzero) /\
       (~ InitExact.init_set dz dx vzero zsa xsa zsi xsi i j -> get 0 (fst (fst r)) [i; j] = Fteik2d.Big).
Proof. exact @InitExact.fteik2d_init_homogeneous_exact. Qed.

(* which nodes are written *)
Theorem C01_init_written_nodes :
  forall (dz dx vzero zsa xsa : R) (zsi xsi i j : Z),
       let dzu := Rabs (zsa - IZR zsi) in
       let dzd := 1 - dzu in
       let dxw := Rabs (xsa - IZR xsi) in
       let dxe := 1 - dxw in
       let ta := fun a b : Z => Fteik2d.t_ana a b dz dx zsa xsa vzero in
       let row_ok := i = (zsi + 1)%Z /\ 0 < dzd \/ i = zsi /\ 0 < dzu in
       let col_ok := j = (xsi + 1)%Z /\ 0 < dxe \/ j = xsi /\ 0 < dxw in
       InitExact.init_set dz dx vzero zsa xsa zsi xsi i j <->
       (zsi <= i <= zsi + 1)%Z /\ (xsi <= j <= xsi + 1)%Z \/
       row_ok /\ (xsi + 2 <= j)%Z /\ ta i (j - 1)%Z < Fteik2d.Big \/
       row_ok /\ (j <= xsi - 1)%Z /\ ta i (j + 1)%Z < Fteik2d.Big \/
       col_ok /\ (zsi + 2 <= i)%Z /\ ta (i - 1)%Z j < Fteik2d.Big \/
       col_ok /\ (i <= zsi - 1)%Z /\ ta (i + 1)%Z j < Fteik2d.Big.
Proof. exact @InitExact.init_set_spelled_out. Qed.

(* and the gradient signs recorded for them point away from the source *)
Theorem C01_init_homogeneous_signs :
  forall (nz nx : Z) (dz dx : R) (slow tt ttgrad : arr R) (ttsgn : arr Z) (vzero zsa xsa : R) (zsi xsi : Z),
       0 < dz ->
       0 < dx ->
       0 <= vzero ->
       (0 <= zsi < nz - 1)%Z ->
       (0 <= xsi < nx - 1)%Z ->
       IZR zsi <= zsa <= IZR zsi + 1 ->
       IZR xsi <= xsa <= IZR xsi + 1 ->
       (forall i j : Z, (0 <= i < nz - 1)%Z -> (0 <= j < nx - 1)%Z -> get 0 slow [i; j] = vzero) ->
       wf tt ->
       shape tt = [nz; nx] ->
       (forall i j : Z, (0 <= i < nz)%Z -> (0 <= j < nx)%Z -> get 0 tt [i; j] = Fteik2d.Big) ->
       wf ttsgn ->
       shape ttsgn = [nz; nx; 2%Z] ->
       let r := fteik2d_p2 dx dz true 2 nx nz slow tt ttgrad ttsgn vzero xsa xsi zsa zsi in
       forall i j : Z,
       (0 <= i < nz)%Z ->
       (0 <= j < nx)%Z ->
       InitExact.init_set dz dx vzero zsa xsa zsi xsi i j ->
       ~ ((zsi <= i <= zsi + 1)%Z /\ (xsi <= j <= xsi + 1)%Z) ->
       get 0%Z (snd r) [i; j; 0%Z] = (if i <=? zsi then (-1)%Z else 1%Z) /\
       get 0%Z (snd r) [i; j; 1%Z] = (if j <=? xsi then (-1)%Z else 1%Z).
Proof. exact @InitExact.fteik2d_init_homogeneous_signs. Qed.

Print Assumptions C01_sweep2d_constants.
Print Assumptions C01_sweep3d_constants.
Print Assumptions C01_t_ana_is_distance_times_slowness.
Print Assumptions C01_t_anad_is_its_gradient.
Print Assumptions C01_spherical_operator_exact.
Print Assumptions C01_sweep_near_source_exact.
Print Assumptions C01_four_point_exact_on_plane_wave.
Print Assumptions C01_three_point_exact_on_plane_wave.
Print Assumptions C01_sweep_far_field_plane_wave.
Print Assumptions C01_t_ana_3d.
Print Assumptions C01_op3_exact_on_plane_wave.
Print Assumptions C01_sweep3d_plane_wave.
Print Assumptions C01_init_is_four_copies.
Print Assumptions C01_init_homogeneous_exact.
Print Assumptions C01_init_written_nodes.
Print Assumptions C01_init_homogeneous_signs.
