(* C18  No axis is privileged: the local operators and the interpolators are symmetric under relabelling axes (exact arithmetic)
   Only statements and `exact`: the proofs are in proofs/.  Written by tools/mkprops.py from Coq's own printing of the
   lemma statements; every statement is in full below so that it cannot be weakened without this file changing. *)
From Coq Require Import ZArith List Bool Reals Lia Lra.
From FT.lib Require Import Num Arr ArrLemmas Lower NumArr.
From FT.gen Require Import Common Interp2d Interp3d Vinterp2d Vinterp3d FteikCommon Fteik2d Fteik3d Ray2d Ray3d.
From FT.proofs Require Import SSR InterpR Interp3R Sweep2dProofs OperatorsR.
From FT.gen Require Import Vinterp2d Vinterp3d.
From FT.proofs Require Operators3R InitSym InitEquiv NonNeg3d Sym3d VinterpSwap InterpMirror.
Import ListNotations.
Open Scope R_scope.

(* analytic seed: exchanging the roles of Z and X *)
Theorem C18_t_ana_swap :
  forall (i j : Z) (dz dx zsa xsa v : R), Fteik2d.t_ana i j dz dx zsa xsa v = Fteik2d.t_ana j i dx dz xsa zsa v.
Proof. exact @OperatorsR.t_ana_swap. Qed.

(* local quadratic solver *)
Theorem C18_delta_swap :
  forall (t1 tauv taue tauev t0c tzc txc dzi dxi dz2i dx2i vzero vref : R) (sgntz sgntx : Z),
       delta t1 tauv taue tauev t0c tzc txc dzi dxi dz2i dx2i vzero vref sgntz sgntx =
       delta t1 taue tauv tauev t0c txc tzc dxi dzi dx2i dz2i vzero vref sgntx sgntz.
Proof. exact @OperatorsR.delta_swap. Qed.

(* 4-point operator *)
Theorem C18_four_point_swap :
  forall tv te tev vref dz2i dx2i : R, four_point tv te tev vref dz2i dx2i = four_point te tv tev vref dx2i dz2i.
Proof. exact @OperatorsR.four_point_swap. Qed.

(* the two 3-point operators are exchanged *)
Theorem C18_three_point_swap :
  forall te tev vref dz dx : R, three_point_e te tev vref dz dx = three_point_v te tev vref dx dz.
Proof. exact @OperatorsR.three_point_swap. Qed.

(* the whole far-field operator selection (the order of the two 3-point tests is immaterial) *)
Theorem C18_plane_operator_selection_swap :
  forall tv te tev vref dz dx dz2i dx2i : R,
       0 < dz ->
       0 < dx -> 0 <= vref -> plane_t2d tv te tev vref dz dx dz2i dx2i = plane_t2d te tv tev vref dx dz dx2i dz2i.
Proof. exact @OperatorsR.plane_t2d_swap. Qed.

(* the near-source operator selection *)
Theorem C18_spherical_operator_selection_swap :
  forall (tv te tev vref dz dx dzi dxi dz2i dx2i zsa xsa vzero : R) (i j sgntz sgntx : Z),
       spherical_t2d tv te tev vref dz dx dzi dxi dz2i dx2i zsa xsa vzero i j sgntz sgntx =
       spherical_t2d te tv tev vref dx dz dxi dzi dx2i dz2i xsa zsa vzero j i sgntx sgntz.
Proof. exact @OperatorsR.spherical_t2d_swap. Qed.

(* 3D seed: transposition Z<->X *)
Theorem C18_t_ana_3d_swap_zx :
  forall (i j k : Z) (dz dx dy zsa xsa ysa v : R),
       t_ana i j k dz dx dy zsa xsa ysa v = t_ana j i k dx dz dy xsa zsa ysa v.
Proof. exact @Operators3R.t_ana_swap_zx. Qed.

(* 3D seed: Z<->Y *)
Theorem C18_t_ana_3d_swap_zy :
  forall (i j k : Z) (dz dx dy zsa xsa ysa v : R),
       t_ana i j k dz dx dy zsa xsa ysa v = t_ana k j i dy dx dz ysa xsa zsa v.
Proof. exact @Operators3R.t_ana_swap_zy. Qed.

(* 3D seed: X<->Y *)
Theorem C18_t_ana_3d_swap_xy :
  forall (i j k : Z) (dz dx dy zsa xsa ysa v : R),
       t_ana i j k dz dx dy zsa xsa ysa v = t_ana i k j dz dy dx zsa ysa xsa v.
Proof. exact @Operators3R.t_ana_swap_xy. Qed.

(* bilinear interpolation is equivariant under relabelling *)
Theorem C18_interp2d_axis_swap :
  forall (x y v vt : arr R) (nx ny : Z) (xq yq fval : R),
       axis x nx ->
       axis y ny ->
       shape v = [nx; ny] ->
       shape vt = [ny; nx] ->
       (forall i j : Z, (0 <= i < nx)%Z -> (0 <= j < ny)%Z -> get 0 vt [j; i] = get 0 v [i; j]) ->
       u_interp2d_v x y v xq yq fval = u_interp2d_v y x vt yq xq fval.
Proof. exact @InterpR.interp2d_axis_swap. Qed.

(* trilinear: first two axes *)
Theorem C18_interp3d_axis_swap_xy :
  forall (x y z v vt : arr R) (nx ny nz : Z) (xq yq zq fval : R),
       axis x nx ->
       axis y ny ->
       axis z nz ->
       shape v = [nx; ny; nz] ->
       shape vt = [ny; nx; nz] ->
       (forall i j k : Z,
        (0 <= i < nx)%Z -> (0 <= j < ny)%Z -> (0 <= k < nz)%Z -> get 0 vt [j; i; k] = get 0 v [i; j; k]) ->
       u_interp3d_v x y z v xq yq zq fval = u_interp3d_v y x z vt yq xq zq fval.
Proof. exact @Interp3R.interp3d_axis_swap. Qed.

(* trilinear: last two axes *)
Theorem C18_interp3d_axis_swap_yz :
  forall (x y z v vt : arr R) (nx ny nz : Z) (xq yq zq fval : R),
       axis x nx ->
       axis y ny ->
       axis z nz ->
       shape v = [nx; ny; nz] ->
       shape vt = [nx; nz; ny] ->
       (forall i j k : Z,
        (0 <= i < nx)%Z -> (0 <= j < ny)%Z -> (0 <= k < nz)%Z -> get 0 vt [i; k; j] = get 0 v [i; j; k]) ->
       u_interp3d_v x y z v xq yq zq fval = u_interp3d_v x z y vt xq zq yq fval.
Proof. exact @Interp3R.interp3d_axis_swap_yz. Qed.

(* tie: the generated source initialisation IS (by conversion) corners, then the east, west, down and up phases below - each loop body two instances of one block, every numeric instance *)
Theorem C18_init_is_four_copies :
  forall (T : Type) (H : Num T) (dx dz : T) (grad : bool) (iflag nx nz : Z) (slow tt_v ttgrad : arr T)
         (ttsgn : arr Z) (vzero xsa : T) (xsi : Z) (zsa : T) (zsi : Z),
       fteik2d_p2 dx dz grad iflag nx nz slow tt_v ttgrad ttsgn vzero xsa xsi zsa zsi =
       (if iflag =? 2
        then
         let td := full [Z.max nz nx] Fteik2d.Big in
         let dzu := nabs (nsub zsa (nofZ zsi)) in
         let dzd := nsub (nofZ 1) dzu in
         let dxw := nabs (nsub xsa (nofZ xsi)) in
         let dxe := nsub (nofZ 1) dxw in
         let c := InitSym.init_corners dx dz grad vzero xsa xsi zsa zsi tt_v ttgrad in
         let st := InitSym.east_phase dx dz grad nx slow vzero xsa xsi zsa zsi dzu dzd dxe (td, fst c, ttsgn) in
         let st0 := InitSym.west_phase dx dz grad slow vzero xsa xsi zsa zsi dzu dzd dxw st in
         let st1 :=
           InitSym.down_phase dx dz grad nz slow vzero xsa xsi zsa zsi dxw dxe dzd
             (fill (fst (fst st0)) Fteik2d.Big, snd (fst st0), snd st0) in
         let st2 := InitSym.up_phase dx dz grad slow vzero xsa xsi zsa zsi dxw dxe dzu st1 in
         (snd (fst st2), snd c, snd st2)
        else (set tt_v [ntrunc zsa; ntrunc xsa] (nofZ 0), ttgrad, ttsgn)).
Proof. exact @InitSym.fteik2d_p2_decompose. Qed.

(* the west loop on the x-mirrored problem gives the x-mirror of the east loop (times; sign component 1 negated), heterogeneous media, every shape, untouched cells included *)
Theorem C18_init_west_is_mirror_of_east :
  forall (nz nx M M' : Z) (dx dz : R) (grad : bool) (slow : arr R) (vzero xsa : R) (xsi : Z) 
         (zsa : R) (zsi : Z) (dzu dzd dxe : R) (td td' tt : arr R) (sg : arr Z),
       wf slow ->
       shape slow = [(nz - 1)%Z; (nx - 1)%Z] ->
       wf tt ->
       shape tt = [nz; nx] ->
       (grad = true -> wf sg /\ shape sg = [nz; nx; 2%Z]) ->
       wf td ->
       wf td' ->
       shape td = [M] ->
       shape td' = [M'] ->
       (nx <= M)%Z ->
       (nx <= M')%Z ->
       (0 <= zsi < nz - 1)%Z ->
       (0 <= xsi < nx - 1)%Z ->
       let r := InitSym.east_phase dx dz grad nx slow vzero xsa xsi zsa zsi dzu dzd dxe (td, tt, sg) in
       let r' :=
         InitSym.west_phase dx dz grad (InitSym.mirror_x (nz - 1) (nx - 1) slow) vzero (IZR (nx - 1) - xsa)
           (nx - 2 - xsi) zsa zsi dzu dzd dxe (td', InitSym.mirror_x nz nx tt, InitSym.mirror_sgn_x nz nx sg) in
       (forall i j : Z,
        (0 <= i < nz)%Z -> (0 <= j < nx)%Z -> get 0 (snd (fst r')) [i; j] = get 0 (snd (fst r)) [i; (nx - 1 - j)%Z]) /\
       (grad = true ->
        forall i j : Z,
        (0 <= i < nz)%Z ->
        (0 <= j < nx)%Z ->
        get 0%Z (snd r') [i; j; 0%Z] = get 0%Z (snd r) [i; (nx - 1 - j)%Z; 0%Z] /\
        get 0%Z (snd r') [i; j; 1%Z] = (- get 0 (snd r) [i; nx - 1 - j; 1])%Z).
Proof. exact @InitSym.west_is_mirror_of_east_explicit. Qed.

(* the down loop on the transposed problem (dz and dx exchanged) gives the transpose of the east loop *)
Theorem C18_init_down_is_transpose_of_east :
  forall (nz nx M M' : Z) (dx dz : R) (grad : bool) (slow : arr R) (vzero xsa : R) (xsi : Z) 
         (zsa : R) (zsi : Z) (dzu dzd dxe : R) (td td' tt : arr R) (sg : arr Z),
       wf slow ->
       shape slow = [(nz - 1)%Z; (nx - 1)%Z] ->
       wf tt ->
       shape tt = [nz; nx] ->
       (grad = true -> wf sg /\ shape sg = [nz; nx; 2%Z]) ->
       wf td ->
       wf td' ->
       shape td = [M] ->
       shape td' = [M'] ->
       (nx <= M)%Z ->
       (nx <= M')%Z ->
       (0 <= zsi < nz - 1)%Z ->
       (0 <= xsi < nx - 1)%Z ->
       let r := InitSym.east_phase dx dz grad nx slow vzero xsa xsi zsa zsi dzu dzd dxe (td, tt, sg) in
       let r' :=
         InitSym.down_phase dz dx grad nx (InitSym.transpose (nz - 1) (nx - 1) slow) vzero zsa zsi xsa xsi dzu dzd dxe
           (td', InitSym.transpose nz nx tt, InitSym.transpose_sgn nz nx sg) in
       (forall i j : Z, (0 <= i < nz)%Z -> (0 <= j < nx)%Z -> get 0 (snd (fst r')) [j; i] = get 0 (snd (fst r)) [i; j]) /\
       (grad = true ->
        forall i j : Z,
        (0 <= i < nz)%Z ->
        (0 <= j < nx)%Z ->
        get 0%Z (snd r') [j; i; 1%Z] = get 0%Z (snd r) [i; j; 0%Z] /\
        get 0%Z (snd r') [j; i; 0%Z] = get 0%Z (snd r) [i; j; 1%Z]).
Proof. exact @InitSym.down_is_transpose_of_east_explicit. Qed.

(* up / west *)
Theorem C18_init_up_is_transpose_of_west :
  forall (nz nx M M' : Z) (dx dz : R) (grad : bool) (slow : arr R) (vzero xsa : R) (xsi : Z) 
         (zsa : R) (zsi : Z) (dzu dzd dxw : R) (td td' tt : arr R) (sg : arr Z),
       wf slow ->
       shape slow = [(nz - 1)%Z; (nx - 1)%Z] ->
       wf tt ->
       shape tt = [nz; nx] ->
       (grad = true -> wf sg /\ shape sg = [nz; nx; 2%Z]) ->
       wf td ->
       wf td' ->
       shape td = [M] ->
       shape td' = [M'] ->
       (nx <= M)%Z ->
       (nx <= M')%Z ->
       (0 <= zsi < nz - 1)%Z ->
       (0 <= xsi < nx - 1)%Z ->
       let r := InitSym.west_phase dx dz grad slow vzero xsa xsi zsa zsi dzu dzd dxw (td, tt, sg) in
       let r' :=
         InitSym.up_phase dz dx grad (InitSym.transpose (nz - 1) (nx - 1) slow) vzero zsa zsi xsa xsi dzu dzd dxw
           (td', InitSym.transpose nz nx tt, InitSym.transpose_sgn nz nx sg) in
       (forall i j : Z, (0 <= i < nz)%Z -> (0 <= j < nx)%Z -> get 0 (snd (fst r')) [j; i] = get 0 (snd (fst r)) [i; j]) /\
       (grad = true ->
        forall i j : Z,
        (0 <= i < nz)%Z ->
        (0 <= j < nx)%Z ->
        get 0%Z (snd r') [j; i; 1%Z] = get 0%Z (snd r) [i; j; 0%Z] /\
        get 0%Z (snd r') [j; i; 0%Z] = get 0%Z (snd r) [i; j; 1%Z]).
Proof. exact @InitSym.up_is_transpose_of_west_explicit. Qed.

(* up / down under the z-mirror *)
Theorem C18_init_up_is_mirror_of_down :
  forall (nz nx M M' : Z) (dx dz : R) (grad : bool) (slow : arr R) (vzero xsa : R) (xsi : Z) 
         (zsa : R) (zsi : Z) (dxw dxe dzd : R) (td td' tt : arr R) (sg : arr Z),
       wf slow ->
       shape slow = [(nz - 1)%Z; (nx - 1)%Z] ->
       wf tt ->
       shape tt = [nz; nx] ->
       (grad = true -> wf sg /\ shape sg = [nz; nx; 2%Z]) ->
       wf td ->
       wf td' ->
       shape td = [M] ->
       shape td' = [M'] ->
       (nz <= M)%Z ->
       (nz <= M')%Z ->
       (0 <= zsi < nz - 1)%Z ->
       (0 <= xsi < nx - 1)%Z ->
       let r := InitSym.down_phase dx dz grad nz slow vzero xsa xsi zsa zsi dxw dxe dzd (td, tt, sg) in
       let r' :=
         InitSym.up_phase dx dz grad (InitSym.mirror_z (nz - 1) (nx - 1) slow) vzero xsa xsi 
           (IZR (nz - 1) - zsa) (nz - 2 - zsi) dxw dxe dzd
           (td', InitSym.mirror_z nz nx tt, InitSym.mirror_sgn_z nz nx sg) in
       (forall i j : Z,
        (0 <= i < nz)%Z -> (0 <= j < nx)%Z -> get 0 (snd (fst r')) [i; j] = get 0 (snd (fst r)) [(nz - 1 - i)%Z; j]) /\
       (grad = true ->
        forall i j : Z,
        (0 <= i < nz)%Z ->
        (0 <= j < nx)%Z ->
        get 0%Z (snd r') [i; j; 0%Z] = (- get 0 (snd r) [nz - 1 - i; j; 0])%Z /\
        get 0%Z (snd r') [i; j; 1%Z] = get 0%Z (snd r) [(nz - 1 - i)%Z; j; 1%Z]).
Proof. exact @InitSym.up_is_mirror_of_down_explicit. Qed.

(* the sub-cell offsets the code computes on the mirrored problem are the exchanged ones when the source lies in its cell *)
Theorem C18_init_mirrored_offsets :
  forall (n : Z) (xsa : R) (xsi : Z),
       0 <= xsa - IZR xsi <= 1 ->
       let xsa' := IZR (n - 1) - xsa in
       let xsi' := (n - 2 - xsi)%Z in
       nabs (nsub xsa' (nofZ xsi')) = nsub (nofZ 1) (nabs (nsub xsa (nofZ xsi))) /\
       nsub (nofZ 1) (nabs (nsub xsa' (nofZ xsi'))) = nabs (nsub xsa (nofZ xsi)).
Proof. exact @InitSym.mirrored_dxw_is_dxe. Qed.

(* the x phases (east, west) and the z phases (down, up) of the initialisation commute: each phase writes its own footprint and reads only the source-cell corners, its own footprint, the model and scratch entries it wrote itself *)
Theorem C18_init_phases_commute :
  forall (nz nx M : Z) (grad : bool) (dx dz : R) (slow : arr R) (vzero xsa zsa : R) (zsi xsi : Z)
         (dzu dzd dxw dxe : R),
       (nx <= M)%Z /\ (nz <= M)%Z ->
       (0 <= zsi < nz - 1)%Z ->
       (0 <= xsi < nx - 1)%Z ->
       forall s : arr R * arr R * arr Z,
       InitEquiv.good nz nx M grad s ->
       InitEquiv.agree nz nx grad InitEquiv.Top InitEquiv.Top
         (InitSym.up_phase dx dz grad slow vzero xsa xsi zsa zsi dxw dxe dzu
            (InitSym.down_phase dx dz grad nz slow vzero xsa xsi zsa zsi dxw dxe dzd
               (InitSym.west_phase dx dz grad slow vzero xsa xsi zsa zsi dzu dzd dxw
                  (InitSym.east_phase dx dz grad nx slow vzero xsa xsi zsa zsi dzu dzd dxe s))))
         (InitSym.west_phase dx dz grad slow vzero xsa xsi zsa zsi dzu dzd dxw
            (InitSym.east_phase dx dz grad nx slow vzero xsa xsi zsa zsi dzu dzd dxe
               (InitSym.up_phase dx dz grad slow vzero xsa xsi zsa zsi dxw dxe dzu
                  (InitSym.down_phase dx dz grad nz slow vzero xsa xsi zsa zsi dxw dxe dzd s)))).
Proof. exact @InitEquiv.x_z_commute. Qed.

(* the WHOLE generated source initialisation (every iflag, times, gradient seeds and signs) on the transposed problem is the transpose of the initialisation on the original problem *)
Theorem C18_init_whole_transpose :
  forall (nz nx : Z) (dx dz : R) (grad : bool) (iflag : Z) (slow tt tg tg' : arr R) (sg sg' : arr Z)
         (vzero xsa : R) (xsi : Z) (zsa : R) (zsi : Z),
       (iflag = 2%Z -> (0 <= zsi < nz - 1)%Z /\ (0 <= xsi < nx - 1)%Z) ->
       (iflag <> 2%Z -> (0 <= ntrunc zsa < nz)%Z /\ (0 <= ntrunc xsa < nx)%Z) ->
       wf slow ->
       shape slow = [(nz - 1)%Z; (nx - 1)%Z] ->
       InitEquiv.okT nz nx tt ->
       (grad = true ->
        InitEquiv.okG nz nx tg /\
        InitEquiv.okS nz nx sg /\ tg' = InitEquiv.transpose_grad nz nx tg /\ sg' = InitSym.transpose_sgn nz nx sg) ->
       let r := fteik2d_p2 dx dz grad iflag nx nz slow tt tg sg vzero xsa xsi zsa zsi in
       let r' :=
         fteik2d_p2 dz dx grad iflag nz nx (InitSym.transpose (nz - 1) (nx - 1) slow) (InitSym.transpose nz nx tt) tg'
           sg' vzero zsa zsi xsa xsi in
       (forall i j : Z, (0 <= i < nz)%Z -> (0 <= j < nx)%Z -> get 0 (fst (fst r')) [j; i] = get 0 (fst (fst r)) [i; j]) /\
       (grad = true ->
        forall i j : Z,
        (0 <= i < nz)%Z ->
        (0 <= j < nx)%Z ->
        get 0 (snd (fst r')) [j; i; 1%Z] = get 0 (snd (fst r)) [i; j; 0%Z] /\
        get 0 (snd (fst r')) [j; i; 0%Z] = get 0 (snd (fst r)) [i; j; 1%Z] /\
        get 0%Z (snd r') [j; i; 1%Z] = get 0%Z (snd r) [i; j; 0%Z] /\
        get 0%Z (snd r') [j; i; 0%Z] = get 0%Z (snd r) [i; j; 1%Z]).
Proof. exact @InitEquiv.fteik2d_p2_transpose_explicit. Qed.

(* and on the x-mirrored problem the x-mirror (source in its cell) *)
Theorem C18_init_whole_mirror_x :
  forall (nz nx : Z) (dx dz : R) (grad : bool) (iflag : Z) (slow tt tg tg' : arr R) (sg sg' : arr Z)
         (vzero xsa : R) (xsi : Z) (zsa : R) (zsi : Z),
       (iflag = 2%Z -> (0 <= zsi < nz - 1)%Z /\ (0 <= xsi < nx - 1)%Z /\ 0 <= xsa - IZR xsi <= 1) ->
       (iflag <> 2%Z -> (0 <= ntrunc zsa < nz)%Z /\ (0 <= ntrunc xsa < nx)%Z /\ (exists k : Z, xsa = IZR k)) ->
       wf slow ->
       shape slow = [(nz - 1)%Z; (nx - 1)%Z] ->
       InitEquiv.okT nz nx tt ->
       (grad = true ->
        InitEquiv.okG nz nx tg /\
        InitEquiv.okS nz nx sg /\ tg' = InitEquiv.mirror_grad_x nz nx tg /\ sg' = InitSym.mirror_sgn_x nz nx sg) ->
       let r := fteik2d_p2 dx dz grad iflag nx nz slow tt tg sg vzero xsa xsi zsa zsi in
       let r' :=
         fteik2d_p2 dx dz grad iflag nx nz (InitSym.mirror_x (nz - 1) (nx - 1) slow) (InitSym.mirror_x nz nx tt) tg'
           sg' vzero (IZR (nx - 1) - xsa) (nx - 2 - xsi) zsa zsi in
       (forall i j : Z,
        (0 <= i < nz)%Z -> (0 <= j < nx)%Z -> get 0 (fst (fst r')) [i; j] = get 0 (fst (fst r)) [i; (nx - 1 - j)%Z]) /\
       (grad = true ->
        forall i j : Z,
        (0 <= i < nz)%Z ->
        (0 <= j < nx)%Z ->
        get 0 (snd (fst r')) [i; j; 0%Z] = get 0 (snd (fst r)) [i; (nx - 1 - j)%Z; 0%Z] /\
        get 0 (snd (fst r')) [i; j; 1%Z] = - get 0 (snd (fst r)) [i; (nx - 1 - j)%Z; 1%Z] /\
        get 0%Z (snd r') [i; j; 0%Z] = get 0%Z (snd r) [i; (nx - 1 - j)%Z; 0%Z] /\
        get 0%Z (snd r') [i; j; 1%Z] = (- get 0 (snd r) [i; nx - 1 - j; 1])%Z).
Proof. exact @InitEquiv.fteik2d_p2_mirror_x_explicit. Qed.

(* z-mirror *)
Theorem C18_init_whole_mirror_z :
  forall (nz nx : Z) (dx dz : R) (grad : bool) (iflag : Z) (slow tt tg tg' : arr R) (sg sg' : arr Z)
         (vzero xsa : R) (xsi : Z) (zsa : R) (zsi : Z),
       (iflag = 2%Z -> (0 <= zsi < nz - 1)%Z /\ (0 <= xsi < nx - 1)%Z /\ 0 <= zsa - IZR zsi <= 1) ->
       (iflag <> 2%Z -> (0 <= ntrunc zsa < nz)%Z /\ (0 <= ntrunc xsa < nx)%Z /\ (exists k : Z, zsa = IZR k)) ->
       InitEquiv.okT (nz - 1) (nx - 1) slow ->
       InitEquiv.okT nz nx tt ->
       (grad = true ->
        InitEquiv.okG nz nx tg /\
        InitEquiv.okS nz nx sg /\ tg' = InitEquiv.mirror_grad_z nz nx tg /\ sg' = InitSym.mirror_sgn_z nz nx sg) ->
       let r := fteik2d_p2 dx dz grad iflag nx nz slow tt tg sg vzero xsa xsi zsa zsi in
       let r' :=
         fteik2d_p2 dx dz grad iflag nx nz (InitSym.mirror_z (nz - 1) (nx - 1) slow) (InitSym.mirror_z nz nx tt) tg'
           sg' vzero xsa xsi (IZR (nz - 1) - zsa) (nz - 2 - zsi) in
       (forall i j : Z,
        (0 <= i < nz)%Z -> (0 <= j < nx)%Z -> get 0 (fst (fst r')) [i; j] = get 0 (fst (fst r)) [(nz - 1 - i)%Z; j]) /\
       (grad = true ->
        forall i j : Z,
        (0 <= i < nz)%Z ->
        (0 <= j < nx)%Z ->
        get 0 (snd (fst r')) [i; j; 0%Z] = - get 0 (snd (fst r)) [(nz - 1 - i)%Z; j; 0%Z] /\
        get 0 (snd (fst r')) [i; j; 1%Z] = get 0 (snd (fst r)) [(nz - 1 - i)%Z; j; 1%Z] /\
        get 0%Z (snd r') [i; j; 0%Z] = (- get 0 (snd r) [nz - 1 - i; j; 0])%Z /\
        get 0%Z (snd r') [i; j; 1%Z] = get 0%Z (snd r) [(nz - 1 - i)%Z; j; 1%Z]).
Proof. exact @InitEquiv.fteik2d_p2_mirror_z_explicit. Qed.

(* 3D: the guarded 8-point operator under Z<->X (neighbour times, inverse squared spacings and their pairwise products permuted alike) *)
Theorem C18_eight_point_swap_zx :
  forall tv te tn tev ten tnv tnve vref dz2i dx2i dy2i dzxi dzyi dxyi dsum : R,
       Sym3d.O3.op3 te tv tn tev tnv ten tnve vref dx2i dz2i dy2i dzxi dxyi dzyi dsum =
       Sym3d.O3.op3 tv te tn tev ten tnv tnve vref dz2i dx2i dy2i dzxi dzyi dxyi dsum.
Proof. exact @Sym3d.O3_op3_swap_zx. Qed.

(* under X<->Y (the two transpositions generate all six relabellings) *)
Theorem C18_eight_point_swap_xy :
  forall tv te tn tev ten tnv tnve vref dz2i dx2i dy2i dzxi dzyi dxyi dsum : R,
       Sym3d.O3.op3 tv tn te tnv ten tev tnve vref dz2i dy2i dx2i dzyi dzxi dxyi dsum =
       Sym3d.O3.op3 tv te tn tev ten tnv tnve vref dz2i dx2i dy2i dzxi dzyi dxyi dsum.
Proof. exact @Sym3d.O3_op3_swap_xy. Qed.

(* the value written by one 3D node update on the Z<->X-transposed problem (times, cells, spacings, direction signs, sizes exchanged) equals the value on the original problem: 1D operators with their four adjoining cells, plane operators with their two, clamps of the right axis, 8-point operator *)
Theorem C18_node_update_3d_relabel_zx :
  forall (guarded : bool) (tt tt' slow slow' : arr R) (nz nx ny : Z)
         (dz dx dy dz2i dx2i dy2i dzxi dzyi dxyi dsum : R) (i j k sgnvz sgnvx sgnvy sgntz sgntx sgnty : Z),
       Sym3d.transp_zx nz nx ny tt tt' ->
       Sym3d.transp_zx (nz - 1) (nx - 1) (ny - 1) slow slow' ->
       Sym3d.axis_ok nz i sgnvz sgntz ->
       Sym3d.axis_ok nx j sgnvx sgntx ->
       Sym3d.axis_ok ny k sgnvy sgnty ->
       NonNeg3d.node_value guarded tt' slow' dx dz dy dx2i dz2i dy2i dzxi dxyi dzyi dsum j i k sgnvx sgnvz sgnvy sgntx
         sgntz sgnty nx nz ny =
       NonNeg3d.node_value guarded tt slow dz dx dy dz2i dx2i dy2i dzxi dzyi dxyi dsum i j k sgnvz sgnvx sgnvy sgntz
         sgntx sgnty nz nx ny.
Proof. exact @Sym3d.node_value_zx. Qed.

(* X<->Y *)
Theorem C18_node_update_3d_relabel_xy :
  forall (guarded : bool) (tt tt' slow slow' : arr R) (nz nx ny : Z)
         (dz dx dy dz2i dx2i dy2i dzxi dzyi dxyi dsum : R) (i j k sgnvz sgnvx sgnvy sgntz sgntx sgnty : Z),
       Sym3d.transp_xy nz nx ny tt tt' ->
       Sym3d.transp_xy (nz - 1) (nx - 1) (ny - 1) slow slow' ->
       Sym3d.axis_ok nz i sgnvz sgntz ->
       Sym3d.axis_ok nx j sgnvx sgntx ->
       Sym3d.axis_ok ny k sgnvy sgnty ->
       NonNeg3d.node_value guarded tt' slow' dz dy dx dz2i dy2i dx2i dzyi dzxi dxyi dsum i k j sgnvz sgnvy sgnvx sgntz
         sgnty sgntx nz ny nx =
       NonNeg3d.node_value guarded tt slow dz dx dy dz2i dx2i dy2i dzxi dzyi dxyi dsum i j k sgnvz sgnvx sgnvy sgntz
         sgntx sgnty nz nx ny.
Proof. exact @Sym3d.node_value_xy. Qed.

(* the 3-cycle *)
Theorem C18_node_update_3d_relabel_cycle :
  forall (guarded : bool) (tt tt' slow slow' : arr R) (nz nx ny : Z)
         (dz dx dy dz2i dx2i dy2i dzxi dzyi dxyi dsum : R) (i j k sgnvz sgnvx sgnvy sgntz sgntx sgnty : Z),
       Sym3d.transp_cyc nz nx ny tt tt' ->
       Sym3d.transp_cyc (nz - 1) (nx - 1) (ny - 1) slow slow' ->
       Sym3d.axis_ok nz i sgnvz sgntz ->
       Sym3d.axis_ok nx j sgnvx sgntx ->
       Sym3d.axis_ok ny k sgnvy sgnty ->
       NonNeg3d.node_value guarded tt' slow' dx dy dz dx2i dy2i dz2i dxyi dzxi dzyi dsum j k i sgnvx sgnvy sgnvz sgntx
         sgnty sgntz nx ny nz =
       NonNeg3d.node_value guarded tt slow dz dx dy dz2i dx2i dy2i dzxi dzyi dxyi dsum i j k sgnvz sgnvx sgnvy sgntz
         sgntx sgnty nz nx ny.
Proof. exact @Sym3d.node_value_cyc. Qed.

(* tie to the generated code: the array written by Fteik3d.sweep on the transposed problem is the transpose of the array written on the original problem *)
Theorem C18_sweep_3d_transpose_zx :
  forall (tt tt' : arr R) (ttsgn ttsgn' : arr Z) (slow slow' : arr R) (dz dx dy : R)
         (i j k sgnvz sgnvx sgnvy sgntz sgntx sgnty nz nx ny : Z) (grad grad' : bool),
       wf tt ->
       wf tt' ->
       Sym3d.transp_zx nz nx ny tt tt' ->
       Sym3d.transp_zx (nz - 1) (nx - 1) (ny - 1) slow slow' ->
       Sym3d.axis_ok nz i sgnvz sgntz ->
       Sym3d.axis_ok nx j sgnvx sgntx ->
       Sym3d.axis_ok ny k sgnvy sgnty ->
       Sym3d.transp_zx nz nx ny
         (fst
            (sweep tt ttsgn slow (SweepDargs.dargs3 dz dx dy) i j k sgnvz sgnvx sgnvy sgntz sgntx sgnty nz nx ny grad))
         (fst
            (sweep tt' ttsgn' slow' (SweepDargs.dargs3 dx dz dy) j i k sgnvx sgnvz sgnvy sgntx sgntz sgnty nx nz ny
               grad')).
Proof. exact @Sym3d.sweep_transpose_zx_dargs3. Qed.

(* X<->Y *)
Theorem C18_sweep_3d_transpose_xy :
  forall (tt tt' : arr R) (ttsgn ttsgn' : arr Z) (slow slow' : arr R) (dz dx dy : R)
         (i j k sgnvz sgnvx sgnvy sgntz sgntx sgnty nz nx ny : Z) (grad grad' : bool),
       wf tt ->
       wf tt' ->
       Sym3d.transp_xy nz nx ny tt tt' ->
       Sym3d.transp_xy (nz - 1) (nx - 1) (ny - 1) slow slow' ->
       Sym3d.axis_ok nz i sgnvz sgntz ->
       Sym3d.axis_ok nx j sgnvx sgntx ->
       Sym3d.axis_ok ny k sgnvy sgnty ->
       Sym3d.transp_xy nz nx ny
         (fst
            (sweep tt ttsgn slow (SweepDargs.dargs3 dz dx dy) i j k sgnvz sgnvx sgnvy sgntz sgntx sgnty nz nx ny grad))
         (fst
            (sweep tt' ttsgn' slow' (SweepDargs.dargs3 dz dy dx) i k j sgnvz sgnvy sgnvx sgntz sgnty sgntx nz ny nx
               grad')).
Proof. exact @Sym3d.sweep_transpose_xy_dargs3. Qed.

(* sensitivity: with min(k, nx-2) in place of min(k, ny-2) the law fails on an admissible node *)
Theorem C18_wrong_axis_clamp_refuted :
  Sym3d.transp_xy (2 - 1) (2 - 1) (3 - 1) Sym3d.mut_slow Sym3d.mut_slow' /\
       Sym3d.axis_ok 2 1 1 1 /\
       Sym3d.axis_ok 2 1 1 1 /\
       Sym3d.axis_ok 3 1 1 1 /\
       NonNeg3d.edge_s_z Sym3d.mut_slow' 1 1 1 1 3 2 = NonNeg3d.edge_s_z Sym3d.mut_slow 1 1 1 1 2 3 /\
       Sym3d.edge_s_z_mut Sym3d.mut_slow' 1 1 1 1 3 2 <> Sym3d.edge_s_z_mut Sym3d.mut_slow 1 1 1 1 2 3.
Proof. exact @Sym3d.clamp_mutant_refuted. Qed.

(* traveltime (apparent-velocity) interpolation in 2D: relabelling the two axes (transposed grid, swapped query and source coordinates) does not change the value - every query and source, all seven branches (outside, source cell, zero corner, three far faces, generic) *)
Theorem C18_vinterp2d_axis_swap :
  forall (x y v vt : arr R) (nx ny : Z),
       axis x nx ->
       axis y ny ->
       shape v = [nx; ny] ->
       shape vt = [ny; nx] ->
       (forall i j : Z, (0 <= i < nx)%Z -> (0 <= j < ny)%Z -> get 0 vt [j; i] = get 0 v [i; j]) ->
       forall xq yq xsrc ysrc vzero fval : R,
       u_vinterp2d_v x y v xq yq xsrc ysrc vzero fval = u_vinterp2d_v y x vt yq xq ysrc xsrc vzero fval.
Proof. exact @VinterpSwap.vinterp2d_axis_swap. Qed.

(* 3D: swapping the first two axes *)
Theorem C18_vinterp3d_axis_swap_xy :
  forall (x y z v : arr R) (nx ny nz : Z),
       axis x nx ->
       axis y ny ->
       axis z nz ->
       shape v = [nx; ny; nz] ->
       forall vt : arr R,
       shape vt = [ny; nx; nz] ->
       (forall i j k : Z,
        (0 <= i < nx)%Z -> (0 <= j < ny)%Z -> (0 <= k < nz)%Z -> get 0 vt [j; i; k] = get 0 v [i; j; k]) ->
       forall xq yq zq xsrc ysrc zsrc vzero fval : R,
       u_vinterp3d_v x y z v xq yq zq xsrc ysrc zsrc vzero fval =
       u_vinterp3d_v y x z vt yq xq zq ysrc xsrc zsrc vzero fval.
Proof. exact @VinterpSwap.vinterp3d_axis_swap_xy. Qed.

(* 3D: swapping the last two axes *)
Theorem C18_vinterp3d_axis_swap_yz :
  forall (x y z v : arr R) (nx ny nz : Z),
       axis x nx ->
       axis y ny ->
       axis z nz ->
       shape v = [nx; ny; nz] ->
       forall vt : arr R,
       shape vt = [nx; nz; ny] ->
       (forall i j k : Z,
        (0 <= i < nx)%Z -> (0 <= j < ny)%Z -> (0 <= k < nz)%Z -> get 0 vt [i; k; j] = get 0 v [i; j; k]) ->
       forall xq yq zq xsrc ysrc zsrc vzero fval : R,
       u_vinterp3d_v x y z v xq yq zq xsrc ysrc zsrc vzero fval =
       u_vinterp3d_v x z y vt xq zq yq xsrc zsrc ysrc vzero fval.
Proof. exact @VinterpSwap.vinterp3d_axis_swap_yz. Qed.

(* 3D: swapping the outer axes *)
Theorem C18_vinterp3d_axis_swap_xz :
  forall (x y z v : arr R) (nx ny nz : Z) (xq yq zq xsrc ysrc zsrc vzero fval : R),
       axis x nx ->
       axis y ny ->
       axis z nz ->
       shape v = [nx; ny; nz] ->
       u_vinterp3d_v x y z v xq yq zq xsrc ysrc zsrc vzero fval =
       u_vinterp3d_v z y x (transpose3_xy (transpose3_yz (transpose3_xy v))) zq yq xq zsrc ysrc xsrc vzero fval.
Proof. exact @VinterpSwap.vinterp3d_axis_swap_xz. Qed.

(* 3D: cyclic relabelling *)
Theorem C18_vinterp3d_axis_cycle_yzx :
  forall (x y z v : arr R) (nx ny nz : Z) (xq yq zq xsrc ysrc zsrc vzero fval : R),
       axis x nx ->
       axis y ny ->
       axis z nz ->
       shape v = [nx; ny; nz] ->
       u_vinterp3d_v x y z v xq yq zq xsrc ysrc zsrc vzero fval =
       u_vinterp3d_v y z x (transpose3_yz (transpose3_xy v)) yq zq xq ysrc zsrc xsrc vzero fval.
Proof. exact @VinterpSwap.vinterp3d_axis_cycle_yzx. Qed.

(* 3D: the other cycle - together all six relabellings *)
Theorem C18_vinterp3d_axis_cycle_zxy :
  forall (x y z v : arr R) (nx ny nz : Z) (xq yq zq xsrc ysrc zsrc vzero fval : R),
       axis x nx ->
       axis y ny ->
       axis z nz ->
       shape v = [nx; ny; nz] ->
       u_vinterp3d_v x y z v xq yq zq xsrc ysrc zsrc vzero fval =
       u_vinterp3d_v z x y (transpose3_xy (transpose3_yz v)) zq xq yq zsrc xsrc ysrc vzero fval.
Proof. exact @VinterpSwap.vinterp3d_axis_cycle_zxy. Qed.

(* mirroring an axis (nodes negated and reversed, value grid reversed along it, query coordinate negated) does not change the value of the plain interpolator - EVERY query, including points on node lines, which fall into different cells in the two frames (searchsorted right / far-face branch): equality there comes from continuity across faces *)
Theorem C18_interp2d_mirror_x :
  forall (x y v : arr R) (nx ny : Z) (xq yq fval : R),
       axis x nx ->
       axis y ny ->
       shape v = [nx; ny] ->
       u_interp2d_v (InterpMirror.mirror_axis x) y (InterpMirror.reverse_rows v) (- xq) yq fval =
       u_interp2d_v x y v xq yq fval.
Proof. exact @InterpMirror.interp2d_mirror_x. Qed.

(* second axis *)
Theorem C18_interp2d_mirror_y :
  forall (x y v : arr R) (nx ny : Z) (xq yq fval : R),
       axis x nx ->
       axis y ny ->
       shape v = [nx; ny] ->
       u_interp2d_v x (InterpMirror.mirror_axis y) (InterpMirror.reverse_cols v) xq (- yq) fval =
       u_interp2d_v x y v xq yq fval.
Proof. exact @InterpMirror.interp2d_mirror_y. Qed.

(* 3D, first axis *)
Theorem C18_interp3d_mirror_x :
  forall (x y z v : arr R) (nx ny nz : Z) (xq yq zq fval : R),
       axis x nx ->
       axis y ny ->
       axis z nz ->
       shape v = [nx; ny; nz] ->
       u_interp3d_v (InterpMirror.mirror_axis x) y z (InterpMirror.reverse3_x v) (- xq) yq zq fval =
       u_interp3d_v x y z v xq yq zq fval.
Proof. exact @InterpMirror.interp3d_mirror_x. Qed.

(* 3D, second axis *)
Theorem C18_interp3d_mirror_y :
  forall (x y z v : arr R) (nx ny nz : Z) (xq yq zq fval : R),
       axis x nx ->
       axis y ny ->
       axis z nz ->
       shape v = [nx; ny; nz] ->
       u_interp3d_v x (InterpMirror.mirror_axis y) z (InterpMirror.reverse3_y v) xq (- yq) zq fval =
       u_interp3d_v x y z v xq yq zq fval.
Proof. exact @InterpMirror.interp3d_mirror_y. Qed.

(* 3D, third axis *)
Theorem C18_interp3d_mirror_z :
  forall (x y z v : arr R) (nx ny nz : Z) (xq yq zq fval : R),
       axis x nx ->
       axis y ny ->
       axis z nz ->
       shape v = [nx; ny; nz] ->
       u_interp3d_v x y (InterpMirror.mirror_axis z) (InterpMirror.reverse3_z v) xq yq (- zq) fval =
       u_interp3d_v x y z v xq yq zq fval.
Proof. exact @InterpMirror.interp3d_mirror_z. Qed.

(* traveltime interpolator, source mirrored too: equality for query and source off the node lines of the mirrored axis (everything else arbitrary) *)
Theorem C18_vinterp2d_mirror_x_off_node_lines :
  forall (x y v : arr R) (nx ny : Z) (xq yq xsrc ysrc vzero fval : R),
       axis x nx ->
       axis y ny ->
       shape v = [nx; ny] ->
       InterpMirror.off_nodes x nx xq ->
       InterpMirror.off_nodes x nx xsrc ->
       u_vinterp2d_v (InterpMirror.mirror_axis x) y (InterpMirror.reverse_rows v) (- xq) yq (- xsrc) ysrc vzero fval =
       u_vinterp2d_v x y v xq yq xsrc ysrc vzero fval.
Proof. exact @InterpMirror.vinterp2d_mirror_x_off_nodes. Qed.

(* second axis *)
Theorem C18_vinterp2d_mirror_y_off_node_lines :
  forall (x y v : arr R) (nx ny : Z) (xq yq xsrc ysrc vzero fval : R),
       axis x nx ->
       axis y ny ->
       shape v = [nx; ny] ->
       InterpMirror.off_nodes y ny yq ->
       InterpMirror.off_nodes y ny ysrc ->
       u_vinterp2d_v x (InterpMirror.mirror_axis y) (InterpMirror.reverse_cols v) xq (- yq) xsrc (- ysrc) vzero fval =
       u_vinterp2d_v x y v xq yq xsrc ysrc vzero fval.
Proof. exact @InterpMirror.vinterp2d_mirror_y_off_nodes. Qed.

(* 3D *)
Theorem C18_vinterp3d_mirror_x_off_node_lines :
  forall (x y z v : arr R) (nx ny nz : Z) (xq yq zq xsrc ysrc zsrc vzero fval : R),
       axis x nx ->
       axis y ny ->
       axis z nz ->
       shape v = [nx; ny; nz] ->
       InterpMirror.off_nodes x nx xq ->
       InterpMirror.off_nodes x nx xsrc ->
       u_vinterp3d_v (InterpMirror.mirror_axis x) y z (InterpMirror.reverse3_x v) (- xq) yq zq 
         (- xsrc) ysrc zsrc vzero fval = u_vinterp3d_v x y z v xq yq zq xsrc ysrc zsrc vzero fval.
Proof. exact @InterpMirror.vinterp3d_mirror_x_off_nodes. Qed.

(* 3D *)
Theorem C18_vinterp3d_mirror_y_off_node_lines :
  forall (x y z v : arr R) (nx ny nz : Z) (xq yq zq xsrc ysrc zsrc vzero fval : R),
       axis x nx ->
       axis y ny ->
       axis z nz ->
       shape v = [nx; ny; nz] ->
       InterpMirror.off_nodes y ny yq ->
       InterpMirror.off_nodes y ny ysrc ->
       u_vinterp3d_v x (InterpMirror.mirror_axis y) z (InterpMirror.reverse3_y v) xq (- yq) zq xsrc 
         (- ysrc) zsrc vzero fval = u_vinterp3d_v x y z v xq yq zq xsrc ysrc zsrc vzero fval.
Proof. exact @InterpMirror.vinterp3d_mirror_y_off_nodes. Qed.

(* 3D *)
Theorem C18_vinterp3d_mirror_z_off_node_lines :
  forall (x y z v : arr R) (nx ny nz : Z) (xq yq zq xsrc ysrc zsrc vzero fval : R),
       axis x nx ->
       axis y ny ->
       axis z nz ->
       shape v = [nx; ny; nz] ->
       InterpMirror.off_nodes z nz zq ->
       InterpMirror.off_nodes z nz zsrc ->
       u_vinterp3d_v x y (InterpMirror.mirror_axis z) (InterpMirror.reverse3_z v) xq yq (- zq) xsrc ysrc 
         (- zsrc) vzero fval = u_vinterp3d_v x y z v xq yq zq xsrc ysrc zsrc vzero fval.
Proof. exact @InterpMirror.vinterp3d_mirror_z_off_nodes. Qed.

(* the unrestricted statement is FALSE for arbitrary (directly constructed) grids: the source-cell test compares searchsorted-right indices, so a query ON a node line bounding the source cell is evaluated by the source-cell formula in one frame and by the generic formula in the other (witness: times 1, vzero 0, query (1,0), source (3/2,1/2): 0 vs 1; the Python kernel gives the same pair).  For grids produced by the solver the two formulas agree on that line to rounding (the corners of the source cell are initialised with vzero * distance), which is what the oracle observes *)
Theorem C18_vinterp2d_mirror_on_node_line_refuted :
  exists (x y v : arr R) (nx ny : Z) (xq yq xsrc ysrc vzero fval : R),
         axis x nx /\
         axis y ny /\
         shape v = [nx; ny] /\
         wf v /\
         u_vinterp2d_v (InterpMirror.mirror_axis x) y (InterpMirror.reverse_rows v) (- xq) yq (- xsrc) ysrc vzero fval <>
         u_vinterp2d_v x y v xq yq xsrc ysrc vzero fval.
Proof. exact @InterpMirror.vinterp2d_mirror_x_refuted. Qed.

Print Assumptions C18_t_ana_swap.
Print Assumptions C18_delta_swap.
Print Assumptions C18_four_point_swap.
Print Assumptions C18_three_point_swap.
Print Assumptions C18_plane_operator_selection_swap.
Print Assumptions C18_spherical_operator_selection_swap.
Print Assumptions C18_t_ana_3d_swap_zx.
Print Assumptions C18_t_ana_3d_swap_zy.
Print Assumptions C18_t_ana_3d_swap_xy.
Print Assumptions C18_interp2d_axis_swap.
Print Assumptions C18_interp3d_axis_swap_xy.
Print Assumptions C18_interp3d_axis_swap_yz.
Print Assumptions C18_init_is_four_copies.
Print Assumptions C18_init_west_is_mirror_of_east.
Print Assumptions C18_init_down_is_transpose_of_east.
Print Assumptions C18_init_up_is_transpose_of_west.
Print Assumptions C18_init_up_is_mirror_of_down.
Print Assumptions C18_init_mirrored_offsets.
Print Assumptions C18_init_phases_commute.
Print Assumptions C18_init_whole_transpose.
Print Assumptions C18_init_whole_mirror_x.
Print Assumptions C18_init_whole_mirror_z.
Print Assumptions C18_eight_point_swap_zx.
Print Assumptions C18_eight_point_swap_xy.
Print Assumptions C18_node_update_3d_relabel_zx.
Print Assumptions C18_node_update_3d_relabel_xy.
Print Assumptions C18_node_update_3d_relabel_cycle.
Print Assumptions C18_sweep_3d_transpose_zx.
Print Assumptions C18_sweep_3d_transpose_xy.
Print Assumptions C18_wrong_axis_clamp_refuted.
Print Assumptions C18_vinterp2d_axis_swap.
Print Assumptions C18_vinterp3d_axis_swap_xy.
Print Assumptions C18_vinterp3d_axis_swap_yz.
Print Assumptions C18_vinterp3d_axis_swap_xz.
Print Assumptions C18_vinterp3d_axis_cycle_yzx.
Print Assumptions C18_vinterp3d_axis_cycle_zxy.
Print Assumptions C18_interp2d_mirror_x.
Print Assumptions C18_interp2d_mirror_y.
Print Assumptions C18_interp3d_mirror_x.
Print Assumptions C18_interp3d_mirror_y.
Print Assumptions C18_interp3d_mirror_z.
Print Assumptions C18_vinterp2d_mirror_x_off_node_lines.
Print Assumptions C18_vinterp2d_mirror_y_off_node_lines.
Print Assumptions C18_vinterp3d_mirror_x_off_node_lines.
Print Assumptions C18_vinterp3d_mirror_y_off_node_lines.
Print Assumptions C18_vinterp3d_mirror_z_off_node_lines.
Print Assumptions C18_vinterp2d_mirror_on_node_line_refuted.
