(* C18  No axis is privileged: the local operators and the interpolators are symmetric under relabelling axes (exact arithmetic)
   Only statements and `exact`: the proofs are in proofs/.  Written by tools/mkprops.py from Coq's own printing of the
   lemma statements; every statement is in full below so that it cannot be weakened without this file changing. *)
From Coq Require Import ZArith List Bool Reals Lia Lra.
From FT.lib Require Import Num Arr ArrLemmas Lower NumArr.
From FT.gen Require Import Common Interp2d Interp3d Vinterp2d Vinterp3d FteikCommon Fteik2d Fteik3d Ray2d Ray3d.
From FT.proofs Require Import SSR InterpR Interp3R Sweep2dProofs OperatorsR.
From FT.proofs Require Operators3R.
Import ListNotations.
Open Scope R_scope.

(* analytic seed: exchanging the roles of Z and X *)
Theorem C18_t_ana_swap :
  forall (i j : Z) (dz dx zsa xsa v : R), Fteik2d.t_ana i j dz dx zsa xsa v = Fteik2d.t_ana j i dx dz xsa zsa v.
Proof. exact @OperatorsR.t_ana_swap. Qed.

(* local quadratic solver *)
Theorem C18_delta_swap :
  forall (t1 tauv taue tauev t0c tzc txc dzi dxi dz2i dx2i vzero vref : R) (sgntz sgntx : Z),
       delta t1 tauv taue tauev t0c tzc txc dzi dxi dz2i dx2i vzero vref sgntz sgntx =
       delta t1 taue tauv tauev t0c txc tzc dxi dzi dx2i dz2i vzero vref sgntx sgntz.
Proof. exact @OperatorsR.delta_swap. Qed.

(* 4-point operator *)
Theorem C18_four_point_swap :
  forall tv te tev vref dz2i dx2i : R, four_point tv te tev vref dz2i dx2i = four_point te tv tev vref dx2i dz2i.
Proof. exact @OperatorsR.four_point_swap. Qed.

(* the two 3-point operators are exchanged *)
Theorem C18_three_point_swap :
  forall te tev vref dz dx : R, three_point_e te tev vref dz dx = three_point_v te tev vref dx dz.
Proof. exact @OperatorsR.three_point_swap. Qed.

(* the whole far-field operator selection (the order of the two 3-point tests is immaterial) *)
Theorem C18_plane_operator_selection_swap :
  forall tv te tev vref dz dx dz2i dx2i : R,
       0 < dz ->
       0 < dx -> 0 <= vref -> plane_t2d tv te tev vref dz dx dz2i dx2i = plane_t2d te tv tev vref dx dz dx2i dz2i.
Proof. exact @OperatorsR.plane_t2d_swap. Qed.

(* the near-source operator selection *)
Theorem C18_spherical_operator_selection_swap :
  forall (tv te tev vref dz dx dzi dxi dz2i dx2i zsa xsa vzero : R) (i j sgntz sgntx : Z),
       spherical_t2d tv te tev vref dz dx dzi dxi dz2i dx2i zsa xsa vzero i j sgntz sgntx =
       spherical_t2d te tv tev vref dx dz dxi dzi dx2i dz2i xsa zsa vzero j i sgntx sgntz.
Proof. exact @OperatorsR.spherical_t2d_swap. Qed.

(* 3D seed: transposition Z<->X *)
Theorem C18_t_ana_3d_swap_zx :
  forall (i j k : Z) (dz dx dy zsa xsa ysa v : R),
       t_ana i j k dz dx dy zsa xsa ysa v = t_ana j i k dx dz dy xsa zsa ysa v.
Proof. exact @Operators3R.t_ana_swap_zx. Qed.

(* 3D seed: Z<->Y *)
Theorem C18_t_ana_3d_swap_zy :
  forall (i j k : Z) (dz dx dy zsa xsa ysa v : R),
       t_ana i j k dz dx dy zsa xsa ysa v = t_ana k j i dy dx dz ysa xsa zsa v.
Proof. exact @Operators3R.t_ana_swap_zy. Qed.

(* 3D seed: X<->Y *)
Theorem C18_t_ana_3d_swap_xy :
  forall (i j k : Z) (dz dx dy zsa xsa ysa v : R),
       t_ana i j k dz dx dy zsa xsa ysa v = t_ana i k j dz dy dx zsa ysa xsa v.
Proof. exact @Operators3R.t_ana_swap_xy. Qed.

(* bilinear interpolation is equivariant under relabelling *)
Theorem C18_interp2d_axis_swap :
  forall (x y v vt : arr R) (nx ny : Z) (xq yq fval : R),
       axis x nx ->
       axis y ny ->
       shape v = [nx; ny] ->
       shape vt = [ny; nx] ->
       (forall i j : Z, (0 <= i < nx)%Z -> (0 <= j < ny)%Z -> get 0 vt [j; i] = get 0 v [i; j]) ->
       u_interp2d_v x y v xq yq fval = u_interp2d_v y x vt yq xq fval.
Proof. exact @InterpR.interp2d_axis_swap. Qed.

(* trilinear: first two axes *)
Theorem C18_interp3d_axis_swap_xy :
  forall (x y z v vt : arr R) (nx ny nz : Z) (xq yq zq fval : R),
       axis x nx ->
       axis y ny ->
       axis z nz ->
       shape v = [nx; ny; nz] ->
       shape vt = [ny; nx; nz] ->
       (forall i j k : Z,
        (0 <= i < nx)%Z -> (0 <= j < ny)%Z -> (0 <= k < nz)%Z -> get 0 vt [j; i; k] = get 0 v [i; j; k]) ->
       u_interp3d_v x y z v xq yq zq fval = u_interp3d_v y x z vt yq xq zq fval.
Proof. exact @Interp3R.interp3d_axis_swap. Qed.

(* trilinear: last two axes *)
Theorem C18_interp3d_axis_swap_yz :
  forall (x y z v vt : arr R) (nx ny nz : Z) (xq yq zq fval : R),
       axis x nx ->
       axis y ny ->
       axis z nz ->
       shape v = [nx; ny; nz] ->
       shape vt = [nx; nz; ny] ->
       (forall i j k : Z,
        (0 <= i < nx)%Z -> (0 <= j < ny)%Z -> (0 <= k < nz)%Z -> get 0 vt [i; k; j] = get 0 v [i; j; k]) ->
       u_interp3d_v x y z v xq yq zq fval = u_interp3d_v x z y vt xq zq yq fval.
Proof. exact @Interp3R.interp3d_axis_swap_yz. Qed.

Print Assumptions C18_t_ana_swap.
Print Assumptions C18_delta_swap.
Print Assumptions C18_four_point_swap.
Print Assumptions C18_three_point_swap.
Print Assumptions C18_plane_operator_selection_swap.
Print Assumptions C18_spherical_operator_selection_swap.
Print Assumptions C18_t_ana_3d_swap_zx.
Print Assumptions C18_t_ana_3d_swap_zy.
Print Assumptions C18_t_ana_3d_swap_xy.
Print Assumptions C18_interp2d_axis_swap.
Print Assumptions C18_interp3d_axis_swap_xy.
Print Assumptions C18_interp3d_axis_swap_yz.
