(* C02  Heterogeneous media: the grid-line bound in layered media and the registration of cells to nodes (exact arithmetic over the generated sweep). First-order accuracy and refinement are examined by the oracle against exact solutions.
   Only statements and `exact`: the proofs are in proofs/.  Written by tools/mkprops.py from Coq's own printing of the
   lemma statements; every statement is in full below so that it cannot be weakened without this file changing. *)
From Coq Require Import ZArith List Bool Reals Lia Lra.
From FT.lib Require Import Num Arr ArrLemmas Lower NumArr.
From FT.gen Require Import Common Interp2d Interp3d Vinterp2d Vinterp3d FteikCommon Fteik2d Fteik3d Ray2d Ray3d.
From FT.proofs Require Import Sweep2dProofs LayeredR.
From FT.proofs Require InitSym OperatorsR Operators3R.
Import ListNotations.
Open Scope R_scope.

(* converged solution: going down a column from any row, the time grows by at most dz * (smallest slowness of the cells adjoining each edge crossed) *)
Theorem C02_column_upper_bound_down :
  forall (nz nx : Z) (tt : arr R) (ttsgn : arr Z) (slow : arr R) (dz dx zsi xsi zsa xsa vzero : R) (grad : bool),
       (2 <= nz)%Z ->
       (2 <= nx)%Z ->
       okT nz nx tt ->
       fst (sweep2d tt ttsgn slow dz dx zsi xsi zsa xsa vzero nz nx grad) = tt ->
       forall (i0 j : Z) (n : nat),
       (0 <= i0)%Z ->
       (i0 + Z.of_nat n <= nz - 1)%Z ->
       (0 <= j <= nx - 1)%Z ->
       get 0 tt [(i0 + Z.of_nat n)%Z; j] <= get 0 tt [i0; j] + zsum (fun c : Z => dz * smin_zedge nx slow c j) i0 n.
Proof. exact @LayeredR.column_upper_bound_down. Qed.

(* and going up *)
Theorem C02_column_upper_bound_up :
  forall (nz nx : Z) (tt : arr R) (ttsgn : arr Z) (slow : arr R) (dz dx zsi xsi zsa xsa vzero : R) (grad : bool),
       (2 <= nz)%Z ->
       (2 <= nx)%Z ->
       okT nz nx tt ->
       fst (sweep2d tt ttsgn slow dz dx zsi xsi zsa xsa vzero nz nx grad) = tt ->
       forall (i0 j : Z) (n : nat),
       (0 <= i0 - Z.of_nat n)%Z ->
       (i0 <= nz - 1)%Z ->
       (0 <= j <= nx - 1)%Z ->
       get 0 tt [(i0 - Z.of_nat n)%Z; j] <=
       get 0 tt [i0; j] + zsum (fun c : Z => dz * smin_zedge nx slow c j) (i0 - Z.of_nat n) n.
Proof. exact @LayeredR.column_upper_bound_up. Qed.

(* layered model, node source: the time n rows below the source is at most the cumulative sum of slowness x spacing over the cell rows between them - cell row c lies between node rows c and c+1 *)
Theorem C02_layered_grid_line_upper :
  forall (nz nx : Z) (tt : arr R) (ttsgn : arr Z) (slow : arr R) (dz dx zsi xsi zsa xsa vzero : R) (grad : bool),
       (2 <= nz)%Z ->
       (2 <= nx)%Z ->
       okT nz nx tt ->
       fst (sweep2d tt ttsgn slow dz dx zsi xsi zsa xsa vzero nz nx grad) = tt ->
       forall (s : Z -> R) (i0 j : Z) (n : nat),
       (forall c jc : Z, (0 <= c <= nz - 2)%Z -> (0 <= jc <= nx - 2)%Z -> get 0 slow [c; jc] = s c) ->
       (0 <= i0)%Z ->
       (i0 + Z.of_nat n <= nz - 1)%Z ->
       (0 <= j <= nx - 1)%Z ->
       get 0 tt [i0; j] = 0 -> get 0 tt [(i0 + Z.of_nat n)%Z; j] <= zsum (fun c : Z => dz * s c) i0 n.
Proof. exact @LayeredR.layered_grid_line_upper. Qed.

(* which cell's slowness each operator of the generated 2D node update reads: the written value is min(old, 1D with the minimum over the two cells adjoining the edge, 2D with the upwind cell slow[i1, j1]) - spelled out in terms of named functions of the neighbours and of those cells *)
Theorem C02_node_update_2d_reads_these_cells :
  forall (tt : arr R) (ttsgn : arr Z) (slow : arr R) (dz dx dzi dxi dz2i dx2i zsi xsi zsa xsa vzero : R)
         (i j sgnvz sgnvx sgntz sgntx nz nx : Z) (grad : bool),
       fst
         (Fteik2d.sweep tt ttsgn slow (dz, dx, dzi, dxi, dz2i, dx2i) zsi xsi zsa xsa vzero i j sgnvz sgnvx sgntz sgntx
            nz nx grad) =
       set tt [i; j]
         (pymin3 (get 0 tt [i; j]) (OperatorsR.t1d tt slow dz dx i j sgnvz sgnvx sgntz sgntx nz nx)
            (OperatorsR.sweep_t2d tt slow dz dx dzi dxi dz2i dx2i zsi xsi zsa xsa vzero i j sgnvz sgnvx sgntz sgntx)).
Proof. exact @OperatorsR.sweep_tt_eq. Qed.

(* 3D: 1D operators with the minimum over the four cells adjoining the edge, plane operators with the minimum over the two cells adjoining the face (clamped at the far faces by ny-2 / nx-2 / nz-2 of the RIGHT axis), 8-point operator with the upwind cell *)
Theorem C02_node_update_3d_reads_these_cells :
  forall (tt : arr R) (ttsgn : arr Z) (slow : arr R) (dz dx dy dz2i dx2i dy2i dzxi dzyi dxyi dsum : R)
         (i j k sgnvz sgnvx sgnvy sgntz sgntx sgnty nz nx ny : Z) (grad : bool),
       fst
         (sweep tt ttsgn slow (dz, dx, dy, dz2i, dx2i, dy2i, dzxi, dzyi, dxyi, dsum) i j k sgnvz sgnvx sgnvy sgntz
            sgntx sgnty nz nx ny grad) =
       set tt [i; j; k]
         (pymin4 (get 0 tt [i; j; k])
            (Operators3R.t1d tt slow dz dx dy i j k sgnvz sgnvx sgnvy sgntz sgntx sgnty nz nx ny)
            (Operators3R.sweep_t2d tt slow dz dx dy dz2i dx2i dy2i i j k sgnvz sgnvx sgnvy sgntz sgntx sgnty nz nx ny)
            (Operators3R.sweep_t3d tt slow dz dx dy dz2i dx2i dy2i dzxi dzyi dxyi dsum i j k sgnvz sgnvx sgnvy sgntz
               sgntx sgnty nz nx ny)).
Proof. exact @Operators3R.sweep_tt_eq. Qed.

(* off-node sources: the generated source-line initialisation is (by conversion) corners + east, west, down, up phases; the east phase accumulates slow[zsi, j-1] for the edge between nodes j-1 and j *)
Theorem C02_init_is_four_copies :
  forall (T : Type) (H : Num T) (dx dz : T) (grad : bool) (iflag nx nz : Z) (slow tt_v ttgrad : arr T)
         (ttsgn : arr Z) (vzero xsa : T) (xsi : Z) (zsa : T) (zsi : Z),
       fteik2d_p2 dx dz grad iflag nx nz slow tt_v ttgrad ttsgn vzero xsa xsi zsa zsi =
       (if iflag =? 2
        then
         let td := full [Z.max nz nx] Fteik2d.Big in
         let dzu := nabs (nsub zsa (nofZ zsi)) in
         let dzd := nsub (nofZ 1) dzu in
         let dxw := nabs (nsub xsa (nofZ xsi)) in
         let dxe := nsub (nofZ 1) dxw in
         let c := InitSym.init_corners dx dz grad vzero xsa xsi zsa zsi tt_v ttgrad in
         let st := InitSym.east_phase dx dz grad nx slow vzero xsa xsi zsa zsi dzu dzd dxe (td, fst c, ttsgn) in
         let st0 := InitSym.west_phase dx dz grad slow vzero xsa xsi zsa zsi dzu dzd dxw st in
         let st1 :=
           InitSym.down_phase dx dz grad nz slow vzero xsa xsi zsa zsi dxw dxe dzd
             (fill (fst (fst st0)) Fteik2d.Big, snd (fst st0), snd st0) in
         let st2 := InitSym.up_phase dx dz grad slow vzero xsa xsi zsa zsi dxw dxe dzu st1 in
         (snd (fst st2), snd c, snd st2)
        else (set tt_v [ntrunc zsa; ntrunc xsa] (nofZ 0), ttgrad, ttsgn)).
Proof. exact @InitSym.fteik2d_p2_decompose. Qed.

(* the west phase reads exactly the mirror-image cells of the east phase (so the cell between nodes j and j+1 is cell j there as well), heterogeneous media *)
Theorem C02_init_west_reads_the_mirror_cells :
  forall (nz nx M M' : Z) (dx dz : R) (grad : bool) (slow : arr R) (vzero xsa : R) (xsi : Z) 
         (zsa : R) (zsi : Z) (dzu dzd dxe : R) (td td' tt : arr R) (sg : arr Z),
       wf slow ->
       shape slow = [(nz - 1)%Z; (nx - 1)%Z] ->
       wf tt ->
       shape tt = [nz; nx] ->
       (grad = true -> wf sg /\ shape sg = [nz; nx; 2%Z]) ->
       wf td ->
       wf td' ->
       shape td = [M] ->
       shape td' = [M'] ->
       (nx <= M)%Z ->
       (nx <= M')%Z ->
       (0 <= zsi < nz - 1)%Z ->
       (0 <= xsi < nx - 1)%Z ->
       let r := InitSym.east_phase dx dz grad nx slow vzero xsa xsi zsa zsi dzu dzd dxe (td, tt, sg) in
       let r' :=
         InitSym.west_phase dx dz grad (InitSym.mirror_x (nz - 1) (nx - 1) slow) vzero (IZR (nx - 1) - xsa)
           (nx - 2 - xsi) zsa zsi dzu dzd dxe (td', InitSym.mirror_x nz nx tt, InitSym.mirror_sgn_x nz nx sg) in
       (forall i j : Z,
        (0 <= i < nz)%Z -> (0 <= j < nx)%Z -> get 0 (snd (fst r')) [i; j] = get 0 (snd (fst r)) [i; (nx - 1 - j)%Z]) /\
       (grad = true ->
        forall i j : Z,
        (0 <= i < nz)%Z ->
        (0 <= j < nx)%Z ->
        get 0%Z (snd r') [i; j; 0%Z] = get 0%Z (snd r) [i; (nx - 1 - j)%Z; 0%Z] /\
        get 0%Z (snd r') [i; j; 1%Z] = (- get 0 (snd r) [i; nx - 1 - j; 1])%Z).
Proof. exact @InitSym.west_is_mirror_of_east_explicit. Qed.

(* and the down phase the transposed ones, with dz for dx *)
Theorem C02_init_down_reads_the_transposed_cells :
  forall (nz nx M M' : Z) (dx dz : R) (grad : bool) (slow : arr R) (vzero xsa : R) (xsi : Z) 
         (zsa : R) (zsi : Z) (dzu dzd dxe : R) (td td' tt : arr R) (sg : arr Z),
       wf slow ->
       shape slow = [(nz - 1)%Z; (nx - 1)%Z] ->
       wf tt ->
       shape tt = [nz; nx] ->
       (grad = true -> wf sg /\ shape sg = [nz; nx; 2%Z]) ->
       wf td ->
       wf td' ->
       shape td = [M] ->
       shape td' = [M'] ->
       (nx <= M)%Z ->
       (nx <= M')%Z ->
       (0 <= zsi < nz - 1)%Z ->
       (0 <= xsi < nx - 1)%Z ->
       let r := InitSym.east_phase dx dz grad nx slow vzero xsa xsi zsa zsi dzu dzd dxe (td, tt, sg) in
       let r' :=
         InitSym.down_phase dz dx grad nx (InitSym.transpose (nz - 1) (nx - 1) slow) vzero zsa zsi xsa xsi dzu dzd dxe
           (td', InitSym.transpose nz nx tt, InitSym.transpose_sgn nz nx sg) in
       (forall i j : Z, (0 <= i < nz)%Z -> (0 <= j < nx)%Z -> get 0 (snd (fst r')) [j; i] = get 0 (snd (fst r)) [i; j]) /\
       (grad = true ->
        forall i j : Z,
        (0 <= i < nz)%Z ->
        (0 <= j < nx)%Z ->
        get 0%Z (snd r') [j; i; 1%Z] = get 0%Z (snd r) [i; j; 0%Z] /\
        get 0%Z (snd r') [j; i; 0%Z] = get 0%Z (snd r) [i; j; 1%Z]).
Proof. exact @InitSym.down_is_transpose_of_east_explicit. Qed.

(* up / down *)
Theorem C02_init_up_reads_the_mirror_cells :
  forall (nz nx M M' : Z) (dx dz : R) (grad : bool) (slow : arr R) (vzero xsa : R) (xsi : Z) 
         (zsa : R) (zsi : Z) (dxw dxe dzd : R) (td td' tt : arr R) (sg : arr Z),
       wf slow ->
       shape slow = [(nz - 1)%Z; (nx - 1)%Z] ->
       wf tt ->
       shape tt = [nz; nx] ->
       (grad = true -> wf sg /\ shape sg = [nz; nx; 2%Z]) ->
       wf td ->
       wf td' ->
       shape td = [M] ->
       shape td' = [M'] ->
       (nz <= M)%Z ->
       (nz <= M')%Z ->
       (0 <= zsi < nz - 1)%Z ->
       (0 <= xsi < nx - 1)%Z ->
       let r := InitSym.down_phase dx dz grad nz slow vzero xsa xsi zsa zsi dxw dxe dzd (td, tt, sg) in
       let r' :=
         InitSym.up_phase dx dz grad (InitSym.mirror_z (nz - 1) (nx - 1) slow) vzero xsa xsi 
           (IZR (nz - 1) - zsa) (nz - 2 - zsi) dxw dxe dzd
           (td', InitSym.mirror_z nz nx tt, InitSym.mirror_sgn_z nz nx sg) in
       (forall i j : Z,
        (0 <= i < nz)%Z -> (0 <= j < nx)%Z -> get 0 (snd (fst r')) [i; j] = get 0 (snd (fst r)) [(nz - 1 - i)%Z; j]) /\
       (grad = true ->
        forall i j : Z,
        (0 <= i < nz)%Z ->
        (0 <= j < nx)%Z ->
        get 0%Z (snd r') [i; j; 0%Z] = (- get 0 (snd r) [nz - 1 - i; j; 0])%Z /\
        get 0%Z (snd r') [i; j; 1%Z] = get 0%Z (snd r) [(nz - 1 - i)%Z; j; 1%Z]).
Proof. exact @InitSym.up_is_mirror_of_down_explicit. Qed.

Print Assumptions C02_column_upper_bound_down.
Print Assumptions C02_column_upper_bound_up.
Print Assumptions C02_layered_grid_line_upper.
Print Assumptions C02_node_update_2d_reads_these_cells.
Print Assumptions C02_node_update_3d_reads_these_cells.
Print Assumptions C02_init_is_four_copies.
Print Assumptions C02_init_west_reads_the_mirror_cells.
Print Assumptions C02_init_down_reads_the_transposed_cells.
Print Assumptions C02_init_up_reads_the_mirror_cells.
