(* C02  Heterogeneous media: the grid-line bound in layered media and the registration of cells to nodes (exact arithmetic over the generated sweep). First-order accuracy and refinement are examined by the oracle against exact solutions.
   Only statements and `exact`: the proofs are in proofs/.  Written by tools/mkprops.py from Coq's own printing of the
   lemma statements; every statement is in full below so that it cannot be weakened without this file changing. *)
From Coq Require Import ZArith List Bool Reals Lia Lra.
From FT.lib Require Import Num Arr ArrLemmas Lower NumArr.
From FT.gen Require Import Common Interp2d Interp3d Vinterp2d Vinterp3d FteikCommon Fteik2d Fteik3d Ray2d Ray3d.
From FT.proofs Require Import Sweep2dProofs LayeredR.
Import ListNotations.
Open Scope R_scope.

(* converged solution: going down a column from any row, the time grows by at most dz * (smallest slowness of the cells adjoining each edge crossed) *)
Theorem C02_column_upper_bound_down :
  forall (nz nx : Z) (tt : arr R) (ttsgn : arr Z) (slow : arr R) (dz dx zsi xsi zsa xsa vzero : R) (grad : bool),
       (2 <= nz)%Z ->
       (2 <= nx)%Z ->
       okT nz nx tt ->
       fst (sweep2d tt ttsgn slow dz dx zsi xsi zsa xsa vzero nz nx grad) = tt ->
       forall (i0 j : Z) (n : nat),
       (0 <= i0)%Z ->
       (i0 + Z.of_nat n <= nz - 1)%Z ->
       (0 <= j <= nx - 1)%Z ->
       get 0 tt [(i0 + Z.of_nat n)%Z; j] <= get 0 tt [i0; j] + zsum (fun c : Z => dz * smin_zedge nx slow c j) i0 n.
Proof. exact @LayeredR.column_upper_bound_down. Qed.

(* and going up *)
Theorem C02_column_upper_bound_up :
  forall (nz nx : Z) (tt : arr R) (ttsgn : arr Z) (slow : arr R) (dz dx zsi xsi zsa xsa vzero : R) (grad : bool),
       (2 <= nz)%Z ->
       (2 <= nx)%Z ->
       okT nz nx tt ->
       fst (sweep2d tt ttsgn slow dz dx zsi xsi zsa xsa vzero nz nx grad) = tt ->
       forall (i0 j : Z) (n : nat),
       (0 <= i0 - Z.of_nat n)%Z ->
       (i0 <= nz - 1)%Z ->
       (0 <= j <= nx - 1)%Z ->
       get 0 tt [(i0 - Z.of_nat n)%Z; j] <=
       get 0 tt [i0; j] + zsum (fun c : Z => dz * smin_zedge nx slow c j) (i0 - Z.of_nat n) n.
Proof. exact @LayeredR.column_upper_bound_up. Qed.

(* layered model, node source: the time n rows below the source is at most the cumulative sum of slowness x spacing over the cell rows between them - cell row c lies between node rows c and c+1 *)
Theorem C02_layered_grid_line_upper :
  forall (nz nx : Z) (tt : arr R) (ttsgn : arr Z) (slow : arr R) (dz dx zsi xsi zsa xsa vzero : R) (grad : bool),
       (2 <= nz)%Z ->
       (2 <= nx)%Z ->
       okT nz nx tt ->
       fst (sweep2d tt ttsgn slow dz dx zsi xsi zsa xsa vzero nz nx grad) = tt ->
       forall (s : Z -> R) (i0 j : Z) (n : nat),
       (forall c jc : Z, (0 <= c <= nz - 2)%Z -> (0 <= jc <= nx - 2)%Z -> get 0 slow [c; jc] = s c) ->
       (0 <= i0)%Z ->
       (i0 + Z.of_nat n <= nz - 1)%Z ->
       (0 <= j <= nx - 1)%Z ->
       get 0 tt [i0; j] = 0 -> get 0 tt [(i0 + Z.of_nat n)%Z; j] <= zsum (fun c : Z => dz * s c) i0 n.
Proof. exact @LayeredR.layered_grid_line_upper. Qed.

Print Assumptions C02_column_upper_bound_down.
Print Assumptions C02_column_upper_bound_up.
Print Assumptions C02_layered_grid_line_upper.
