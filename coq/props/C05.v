(* C05  Unit invariance: times scale linearly with slowness and with length - exact arithmetic over the generated kernels
   Only statements and `exact`: the proofs are in proofs/.  Written by tools/mkprops.py from Coq's own printing of the
   lemma statements; every statement is in full below so that it cannot be weakened without this file changing. *)
From Coq Require Import ZArith List Bool Reals Lia Lra.
From FT.lib Require Import Num Arr ArrLemmas Lower NumArr.
From FT.gen Require Import Common Interp2d Interp3d Vinterp2d Vinterp3d FteikCommon Fteik2d Fteik3d Ray2d Ray3d.
From FT.model Require Import Api.
From FT.proofs Require Import Sweep2dProofs OperatorsR ApiProofs.
From FT.gen Require Import Vinterp2d Vinterp3d Interp2d Interp3d.
From FT.proofs Require Operators3R InitSym InitExact SolveScale2d NonNeg3d SolveScale3d VinterpScale RayScale.
Import ListNotations.
Open Scope R_scope.

(* analytic seed: slowness scaling *)
Theorem C05_t_ana_scale_slowness :
  forall (c : R) (i j : Z) (dz dx zsa xsa v : R),
       Fteik2d.t_ana i j dz dx zsa xsa (c * v) = c * Fteik2d.t_ana i j dz dx zsa xsa v.
Proof. exact @OperatorsR.t_ana_scale_slowness. Qed.

(* analytic seed: length scaling (source position in grid units is unchanged) *)
Theorem C05_t_ana_scale_length :
  forall (c : R) (i j : Z) (dz dx zsa xsa v : R),
       0 <= c -> Fteik2d.t_ana i j (c * dz) (c * dx) zsa xsa v = c * Fteik2d.t_ana i j dz dx zsa xsa v.
Proof. exact @OperatorsR.t_ana_scale_length. Qed.

(* seed and derivatives under slowness scaling *)
Theorem C05_t_anad_scale_slowness :
  forall (c : R) (i j : Z) (dz dx zsa xsa v : R),
       0 < c ->
       Fteik2d.t_anad i j dz dx zsa xsa (c * v) =
       (let '(t, tzc, txc) := Fteik2d.t_anad i j dz dx zsa xsa v in (c * t, c * tzc, c * txc)).
Proof. exact @OperatorsR.t_anad_scale_slowness. Qed.

(* under length scaling the time scales and the derivative components are unchanged *)
Theorem C05_t_anad_scale_length :
  forall (c : R) (i j : Z) (dz dx zsa xsa v : R),
       0 < c ->
       Fteik2d.t_anad i j (c * dz) (c * dx) zsa xsa v =
       (let '(t, tzc, txc) := Fteik2d.t_anad i j dz dx zsa xsa v in (c * t, tzc, txc)).
Proof. exact @OperatorsR.t_anad_scale_length. Qed.

(* local quadratic solver: homogeneous of degree one in slowness *)
Theorem C05_delta_scale_slowness :
  forall (c t1 tauv taue tauev t0c tzc txc dzi dxi dz2i dx2i vzero vref : R) (sgntz sgntx : Z),
       0 < c ->
       delta (c * t1) (c * tauv) (c * taue) (c * tauev) (c * t0c) (c * tzc) (c * txc) dzi dxi dz2i dx2i 
         (c * vzero) (c * vref) sgntz sgntx =
       c * delta t1 tauv taue tauev t0c tzc txc dzi dxi dz2i dx2i vzero vref sgntz sgntx.
Proof. exact @OperatorsR.delta_scale_slowness. Qed.

(* and in length (inverse lengths scale by 1/c, inverse squares by 1/c^2) - this is the statement the off-node initialisation violated before fix 9faba2f *)
Theorem C05_delta_scale_length :
  forall (c t1 tauv taue tauev t0c tzc txc dzi dxi dz2i dx2i vzero vref : R) (sgntz sgntx : Z),
       0 < c ->
       delta (c * t1) (c * tauv) (c * taue) (c * tauev) (c * t0c) tzc txc (dzi / c) (dxi / c) 
         (dz2i / (c * c)) (dx2i / (c * c)) vzero vref sgntz sgntx =
       c * delta t1 tauv taue tauev t0c tzc txc dzi dxi dz2i dx2i vzero vref sgntz sgntx.
Proof. exact @OperatorsR.delta_scale_length. Qed.

(* one node update commutes with slowness scaling, as long as the values involved stay below the absolute placeholder Big in both unit systems (hypotheses Hbig, Hbig': finding F10/F11) *)
Theorem C05_sweep_scale_slowness :
  forall (c : R) (tt : arr R) (ttsgn : arr Z) (slow : arr R) (dz dx dzi dxi dz2i dx2i zsi xsi zsa xsa vzero : R)
         (i j sgnvz sgnvx sgntz sgntx nz nx : Z) (grad : bool),
       0 < c ->
       let m := pymin2 (get 0 tt [i; j]) (t1d tt slow dz dx i j sgnvz sgnvx sgntz sgntx nz nx) in
       m < Fteik2d.Big ->
       c * m < Fteik2d.Big ->
       fst
         (Fteik2d.sweep (smap c tt) ttsgn (smap c slow) (dz, dx, dzi, dxi, dz2i, dx2i) zsi xsi zsa xsa 
            (c * vzero) i j sgnvz sgnvx sgntz sgntx nz nx grad) =
       smap c
         (fst
            (Fteik2d.sweep tt ttsgn slow (dz, dx, dzi, dxi, dz2i, dx2i) zsi xsi zsa xsa vzero i j sgnvz sgnvx sgntz
               sgntx nz nx grad)).
Proof. exact @OperatorsR.sweep_scale_slowness. Qed.

(* one node update commutes with length scaling (same caveat) *)
Theorem C05_sweep_scale_length :
  forall (c : R) (tt : arr R) (ttsgn : arr Z) (slow : arr R) (dz dx zsi xsi zsa xsa vzero : R)
         (i j sgnvz sgnvx sgntz sgntx nz nx : Z) (grad : bool),
       0 < c ->
       let m := pymin2 (get 0 tt [i; j]) (t1d tt slow dz dx i j sgnvz sgnvx sgntz sgntx nz nx) in
       m < Fteik2d.Big ->
       c * m < Fteik2d.Big ->
       fst
         (Fteik2d.sweep (smap c tt) ttsgn slow (dargs_of (c * dz) (c * dx)) zsi xsi zsa xsa vzero i j sgnvz sgnvx sgntz
            sgntx nz nx grad) =
       smap c
         (fst
            (Fteik2d.sweep tt ttsgn slow (dargs_of dz dx) zsi xsi zsa xsa vzero i j sgnvz sgnvx sgntz sgntx nz nx grad)).
Proof. exact @OperatorsR.sweep_scale_length_dargs. Qed.

(* 3D seed *)
Theorem C05_t_ana_3d_scale_slowness :
  forall (c : R) (i j k : Z) (dz dx dy zsa xsa ysa v : R),
       t_ana i j k dz dx dy zsa xsa ysa (c * v) = c * t_ana i j k dz dx dy zsa xsa ysa v.
Proof. exact @Operators3R.t_ana_scale_slowness. Qed.

(* 3D seed *)
Theorem C05_t_ana_3d_scale_length :
  forall (c : R) (i j k : Z) (dz dx dy zsa xsa ysa v : R),
       0 <= c -> t_ana i j k (c * dz) (c * dx) (c * dy) zsa xsa ysa v = c * t_ana i j k dz dx dy zsa xsa ysa v.
Proof. exact @Operators3R.t_ana_scale_length. Qed.

(* API layer (hand model coq/model/Api.v): dividing every velocity by c multiplies the slowness model handed to the kernel by c *)
Theorem C05_slowness_handed_to_kernel_scales :
  forall (c : R) (grid : list R),
       c <> 0 ->
       Forall (fun v : R => v <> 0) grid ->
       slowness_of (map (fun v : R => v / c) grid) = map (Rmult c) (slowness_of grid).
Proof. exact @ApiProofs.slowness_of_scale. Qed.

(* API layer: the default ray budget int(2*diagonal/step) is unchanged when all lengths are rescaled *)
Theorem C05_ray_default_budget_unit_invariant :
  forall (c : R) (sh : list Z) (gs : list R) (step : R) (ms : option Z),
       0 < c -> step <> 0 -> ray_max_step sh (map (Rmult c) gs) (c * step) ms = ray_max_step sh gs step ms.
Proof. exact @ApiProofs.ray_max_step_unit_invariant. Qed.

(* the whole off-node source initialisation (sub-cell inverse distances dzi, dz2i included) under slowness scaling, heterogeneous media: times x c, placeholder entries stay (caveat Hbig: related entries are on the same side of the absolute placeholder 1e5 = finding F10/F11) *)
Theorem C05_init_scale_slowness :
  forall (nz nx : Z) (c dx dz : R) (grad grad' : bool) (slow tt tt' tg tg' : arr R) (sg sg' : arr Z)
         (vzero xsa zsa : R) (zsi xsi : Z),
       0 < c ->
       (0 <= zsi < nz - 1)%Z ->
       (0 <= xsi < nx - 1)%Z ->
       InitExact.TRel nz nx c tt tt' ->
       let r := fteik2d_p2 dx dz grad 2 nx nz slow tt tg sg vzero xsa xsi zsa zsi in
       let r' := fteik2d_p2 dx dz grad' 2 nx nz (smap c slow) tt' tg' sg' (c * vzero) xsa xsi zsa zsi in
       (forall i j : Z,
        (0 <= i < nz)%Z ->
        (0 <= j < nx)%Z ->
        t2rel c (get 0 (fst (fst r)) [i; j]) (get 0 (fst (fst r')) [i; j]) ->
        get 0 (fst (fst r)) [i; j] < Fteik2d.Big <-> get 0 (fst (fst r')) [i; j] < Fteik2d.Big) ->
       InitExact.TRel nz nx c (fst (fst r)) (fst (fst r')).
Proof. exact @InitExact.fteik2d_init_scale_slowness. Qed.

(* and under length scaling (dz, dx x c; source position in grid units unchanged) *)
Theorem C05_init_scale_length :
  forall (nz nx : Z) (c dx dz : R) (grad grad' : bool) (slow tt tt' tg tg' : arr R) (sg sg' : arr Z)
         (vzero xsa zsa : R) (zsi xsi : Z),
       0 < c ->
       (0 <= zsi < nz - 1)%Z ->
       (0 <= xsi < nx - 1)%Z ->
       InitExact.TRel nz nx c tt tt' ->
       let r := fteik2d_p2 dx dz grad 2 nx nz slow tt tg sg vzero xsa xsi zsa zsi in
       let r' := fteik2d_p2 (c * dx) (c * dz) grad' 2 nx nz slow tt' tg' sg' vzero xsa xsi zsa zsi in
       (forall i j : Z,
        (0 <= i < nz)%Z ->
        (0 <= j < nx)%Z ->
        t2rel c (get 0 (fst (fst r)) [i; j]) (get 0 (fst (fst r')) [i; j]) ->
        get 0 (fst (fst r)) [i; j] < Fteik2d.Big <-> get 0 (fst (fst r')) [i; j] < Fteik2d.Big) ->
       InitExact.TRel nz nx c (fst (fst r)) (fst (fst r')).
Proof. exact @InitExact.fteik2d_init_scale_length. Qed.

(* for c >= 1 the caveat is a condition on the reference run alone *)
Theorem C05_init_scale_slowness_ge1 :
  forall (nz nx : Z) (c dx dz : R) (grad grad' : bool) (slow tt tt' tg tg' : arr R) (sg sg' : arr Z)
         (vzero xsa zsa : R) (zsi xsi : Z),
       1 <= c ->
       (0 <= zsi < nz - 1)%Z ->
       (0 <= xsi < nx - 1)%Z ->
       InitExact.TRel nz nx c tt tt' ->
       let r := fteik2d_p2 dx dz grad 2 nx nz slow tt tg sg vzero xsa xsi zsa zsi in
       let r' := fteik2d_p2 dx dz grad' 2 nx nz (smap c slow) tt' tg' sg' (c * vzero) xsa xsi zsa zsi in
       (forall i j : Z,
        (0 <= i < nz)%Z ->
        (0 <= j < nx)%Z -> get 0 (fst (fst r)) [i; j] < Fteik2d.Big -> c * get 0 (fst (fst r)) [i; j] < Fteik2d.Big) ->
       InitExact.TRel nz nx c (fst (fst r)) (fst (fst r')).
Proof. exact @InitExact.fteik2d_init_scale_slowness_ge1. Qed.

(* the down copy uses dz exactly where the east copy uses dx (transposition pairing) *)
Theorem C05_init_down_is_transpose_of_east :
  forall (nz nx M M' : Z) (dx dz : R) (grad : bool) (slow : arr R) (vzero xsa : R) (xsi : Z) 
         (zsa : R) (zsi : Z) (dzu dzd dxe : R) (td td' tt : arr R) (sg : arr Z),
       wf slow ->
       shape slow = [(nz - 1)%Z; (nx - 1)%Z] ->
       wf tt ->
       shape tt = [nz; nx] ->
       (grad = true -> wf sg /\ shape sg = [nz; nx; 2%Z]) ->
       wf td ->
       wf td' ->
       shape td = [M] ->
       shape td' = [M'] ->
       (nx <= M)%Z ->
       (nx <= M')%Z ->
       (0 <= zsi < nz - 1)%Z ->
       (0 <= xsi < nx - 1)%Z ->
       let r := InitSym.east_phase dx dz grad nx slow vzero xsa xsi zsa zsi dzu dzd dxe (td, tt, sg) in
       let r' :=
         InitSym.down_phase dz dx grad nx (InitSym.transpose (nz - 1) (nx - 1) slow) vzero zsa zsi xsa xsi dzu dzd dxe
           (td', InitSym.transpose nz nx tt, InitSym.transpose_sgn nz nx sg) in
       (forall i j : Z, (0 <= i < nz)%Z -> (0 <= j < nx)%Z -> get 0 (snd (fst r')) [j; i] = get 0 (snd (fst r)) [i; j]) /\
       (grad = true ->
        forall i j : Z,
        (0 <= i < nz)%Z ->
        (0 <= j < nx)%Z ->
        get 0%Z (snd r') [j; i; 1%Z] = get 0%Z (snd r) [i; j; 0%Z] /\
        get 0%Z (snd r') [j; i; 0%Z] = get 0%Z (snd r) [i; j; 1%Z]).
Proof. exact @InitSym.down_is_transpose_of_east_explicit. Qed.

(* the WHOLE 2D solver under slowness scaling by any c > 0: the scaled problem returns, vzero x c, every traveltime x c (or the placeholder in both runs) - under the placeholder caveats Hinit (initial grids reach the same nodes) and Hsweep (a condition on the reference run: candidates stay on one side of 1e5), i.e. outside findings F10/F11 *)
Theorem C05_solve2d_scale_slowness :
  forall (c : R) (slow : arr R) (dz dx zsrc xsrc : R) (nsweep : Z) (grad : bool) (tt g : arr R) (vz : R),
       0 < c ->
       0 < dz ->
       0 < dx ->
       (1 <= dim slow 0)%Z ->
       (1 <= dim slow 1)%Z ->
       NonNeg2d.nonneg slow ->
       fteik2d slow dz dx zsrc xsrc nsweep grad = Ok (tt, g, vz) ->
       SolveScale2d.SameReach (dim slow 0 + 1) (dim slow 1 + 1) (Solve2dProofs.i_tt slow dz dx zsrc xsrc grad)
         (Solve2dProofs.i_tt (smap c slow) dz dx zsrc xsrc grad) ->
       SolveScale2d.SweepCav c slow dz dx zsrc xsrc nsweep grad ->
       exists tt' g' : arr R,
         fteik2d (smap c slow) dz dx zsrc xsrc nsweep grad = Ok (tt', g', c * vz) /\
         InitExact.TRel (dim slow 0 + 1) (dim slow 1 + 1) c tt tt' /\
         SolveScale2d.SameReach (dim slow 0 + 1) (dim slow 1 + 1) tt tt'.
Proof. exact @SolveScale2d.fteik2d_scale_slowness. Qed.

(* and under scaling of dz, dx and the source by c (grid coordinates, cells, iflag unchanged) *)
Theorem C05_solve2d_scale_length :
  forall (c : R) (slow : arr R) (dz dx zsrc xsrc : R) (nsweep : Z) (grad : bool) (tt g : arr R) (vz : R),
       0 < c ->
       0 < dz ->
       0 < dx ->
       (1 <= dim slow 0)%Z ->
       (1 <= dim slow 1)%Z ->
       NonNeg2d.nonneg slow ->
       fteik2d slow dz dx zsrc xsrc nsweep grad = Ok (tt, g, vz) ->
       SolveScale2d.SameReach (dim slow 0 + 1) (dim slow 1 + 1) (Solve2dProofs.i_tt slow dz dx zsrc xsrc grad)
         (Solve2dProofs.i_tt slow (c * dz) (c * dx) (c * zsrc) (c * xsrc) grad) ->
       SolveScale2d.SweepCav c slow dz dx zsrc xsrc nsweep grad ->
       exists tt' g' : arr R,
         fteik2d slow (c * dz) (c * dx) (c * zsrc) (c * xsrc) nsweep grad = Ok (tt', g', vz) /\
         InitExact.TRel (dim slow 0 + 1) (dim slow 1 + 1) c tt tt' /\
         SolveScale2d.SameReach (dim slow 0 + 1) (dim slow 1 + 1) tt tt'.
Proof. exact @SolveScale2d.fteik2d_scale_length. Qed.

(* the scaled problem raises iff the reference problem does (no caveat) *)
Theorem C05_solve2d_scale_raises :
  forall (c : R) (k : InitExact.skind) (slow : arr R) (dz dx zsrc xsrc : R) (nsweep : Z) (grad : bool),
       0 < c ->
       fteik2d (InitExact.sc_slow k c slow) (InitExact.sc_h k c dz) (InitExact.sc_h k c dx) 
         (InitExact.sc_h k c zsrc) (InitExact.sc_h k c xsrc) nsweep grad = Raise ValueError <->
       fteik2d slow dz dx zsrc xsrc nsweep grad = Raise ValueError.
Proof. exact @SolveScale2d.fteik2d_scale_raises. Qed.

(* numeric form of the caveat for c >= 1: c * (M + N * 2 h S) < 1e5 *)
Theorem C05_solve2d_scale_slowness_bounded :
  forall (c : R) (slow : arr R) (dz dx zsrc xsrc : R) (nsweep : Z) (grad : bool) (tt g : arr R) (vz M M' h S0 : R),
       1 <= c ->
       0 < dz <= h ->
       0 < dx <= h ->
       (1 <= dim slow 0)%Z ->
       (1 <= dim slow 1)%Z ->
       0 <= S0 ->
       SolveScale2d.SlowBnd S0 slow ->
       0 <= M ->
       SolveScale2d.Bnd M (Solve2dProofs.i_tt slow dz dx zsrc xsrc grad) ->
       0 <= M' < Fteik2d.Big ->
       SolveScale2d.Bnd M' (Solve2dProofs.i_tt (smap c slow) dz dx zsrc xsrc grad) ->
       c * (M + INR (length (SolveScale2d.all_steps (dim slow 0 + 1) (dim slow 1 + 1) nsweep)) * (2 * h * S0)) <
       Fteik2d.Big ->
       fteik2d slow dz dx zsrc xsrc nsweep grad = Ok (tt, g, vz) ->
       exists tt' g' : arr R,
         fteik2d (smap c slow) dz dx zsrc xsrc nsweep grad = Ok (tt', g', c * vz) /\
         InitExact.TRel (dim slow 0 + 1) (dim slow 1 + 1) c tt tt' /\
         SolveScale2d.SameReach (dim slow 0 + 1) (dim slow 1 + 1) tt tt'.
Proof. exact @SolveScale2d.fteik2d_scale_slowness_bounded. Qed.

(* 3D: one generated node update under slowness or length scaling (dz2i etc. / c^2, pairwise products / c^4): the written value scales (or is the placeholder in both runs) under the node-level placeholder caveat node_cav3 *)
Theorem C05_node_update_3d_scale :
  forall (c : R) (k : InitExact.skind),
       0 < c ->
       forall (nz nx ny : Z) (slow : arr R) (dz dx dy : R) (tt tt' : arr R) (ttsgn ttsgn' : arr Z)
         (i j kk sgnvz sgnvx sgnvy sgntz sgntx sgnty : Z) (grad grad' : bool),
       0 < dz ->
       0 < dx ->
       0 < dy ->
       NonNeg2d.nonneg slow ->
       SolveScale3d.GRel c tt tt' ->
       SolveScale3d.node_cav3 c (get 0 tt [i; j; kk]) (NonNeg3d.nb_v tt i j kk sgntz) (NonNeg3d.nb_e tt i j kk sgntx)
         (NonNeg3d.nb_n tt i j kk sgnty) (NonNeg3d.nb_ev tt i j kk sgntz sgntx) (NonNeg3d.nb_en tt i j kk sgntx sgnty)
         (NonNeg3d.nb_nv tt i j kk sgntz sgnty) (NonNeg3d.nb_nve tt i j kk sgntz sgntx sgnty)
         (NonNeg3d.edge_s_z slow i j kk sgnvz nx ny) (NonNeg3d.edge_s_x slow i j kk sgnvx nz ny)
         (NonNeg3d.edge_s_y slow i j kk sgnvy nz nx) (NonNeg3d.face_s_zx slow i j kk sgnvz sgnvx ny)
         (NonNeg3d.face_s_zy slow i j kk sgnvz sgnvy nx) (NonNeg3d.face_s_xy slow i j kk sgnvx sgnvy nz)
         (NonNeg3d.cell_s slow i j kk sgnvz sgnvx sgnvy) dz dx dy ->
       SolveScale3d.GRel c
         (fst
            (sweep tt ttsgn slow (SweepDargs.dargs3 dz dx dy) i j kk sgnvz sgnvx sgnvy sgntz sgntx sgnty nz nx ny grad))
         (fst
            (sweep tt' ttsgn' (InitExact.sc_slow k c slow)
               (SweepDargs.dargs3 (InitExact.sc_h k c dz) (InitExact.sc_h k c dx) (InitExact.sc_h k c dy)) i j kk sgnvz
               sgnvx sgnvy sgntz sgntx sgnty nz nx ny grad')).
Proof. exact @SolveScale3d.sweep_node_scale. Qed.

(* the WHOLE 3D solver under slowness scaling by any c > 0; the caveats InitCav / SweepCav3 are conditions on the reference run only *)
Theorem C05_solve3d_scale_slowness :
  forall (c : R) (slow : arr R) (dz dx dy zsrc xsrc ysrc : R) (nsweep : Z) (grad : bool) (tt g : arr R) (vz : R),
       0 < c ->
       0 < dz ->
       0 < dx ->
       0 < dy ->
       (0 <= dim slow 0)%Z ->
       (0 <= dim slow 1)%Z ->
       (0 <= dim slow 2)%Z ->
       NonNeg2d.nonneg slow ->
       fteik3d slow dz dx dy zsrc xsrc ysrc nsweep grad = Ok (tt, g, vz) ->
       SolveScale3d.InitCav c slow dz dx dy zsrc xsrc ysrc ->
       SolveScale3d.SweepCav3 c slow dz dx dy zsrc xsrc ysrc nsweep ->
       exists tt' g' : arr R,
         fteik3d (smap c slow) dz dx dy zsrc xsrc ysrc nsweep grad = Ok (tt', g', c * vz) /\
         SolveScale3d.TRel3 (dim slow 0 + 1) (dim slow 1 + 1) (dim slow 2 + 1) c tt tt' /\
         SolveScale3d.SameReach3 (dim slow 0 + 1) (dim slow 1 + 1) (dim slow 2 + 1) tt tt'.
Proof. exact @SolveScale3d.fteik3d_scale_slowness. Qed.

(* and under length scaling of the three spacings and the source *)
Theorem C05_solve3d_scale_length :
  forall (c : R) (slow : arr R) (dz dx dy zsrc xsrc ysrc : R) (nsweep : Z) (grad : bool) (tt g : arr R) (vz : R),
       0 < c ->
       0 < dz ->
       0 < dx ->
       0 < dy ->
       (0 <= dim slow 0)%Z ->
       (0 <= dim slow 1)%Z ->
       (0 <= dim slow 2)%Z ->
       NonNeg2d.nonneg slow ->
       fteik3d slow dz dx dy zsrc xsrc ysrc nsweep grad = Ok (tt, g, vz) ->
       SolveScale3d.InitCav c slow dz dx dy zsrc xsrc ysrc ->
       SolveScale3d.SweepCav3 c slow dz dx dy zsrc xsrc ysrc nsweep ->
       exists tt' g' : arr R,
         fteik3d slow (c * dz) (c * dx) (c * dy) (c * zsrc) (c * xsrc) (c * ysrc) nsweep grad = Ok (tt', g', vz) /\
         SolveScale3d.TRel3 (dim slow 0 + 1) (dim slow 1 + 1) (dim slow 2 + 1) c tt tt' /\
         SolveScale3d.SameReach3 (dim slow 0 + 1) (dim slow 1 + 1) (dim slow 2 + 1) tt tt'.
Proof. exact @SolveScale3d.fteik3d_scale_length. Qed.

(* raise behaviour identical, no caveat *)
Theorem C05_solve3d_scale_raises :
  forall (c : R) (k : InitExact.skind) (slow : arr R) (dz dx dy zsrc xsrc ysrc : R) (nsweep : Z) (grad : bool),
       0 < c ->
       fteik3d (InitExact.sc_slow k c slow) (InitExact.sc_h k c dz) (InitExact.sc_h k c dx) 
         (InitExact.sc_h k c dy) (InitExact.sc_h k c zsrc) (InitExact.sc_h k c xsrc) (InitExact.sc_h k c ysrc) nsweep
         grad = Raise ValueError <-> fteik3d slow dz dx dy zsrc xsrc ysrc nsweep grad = Raise ValueError.
Proof. exact @SolveScale3d.fteik3d_scale_raises. Qed.

(* numeric form of the caveat for c >= 1 *)
Theorem C05_solve3d_scale_slowness_bounded :
  forall (c : R) (slow : arr R) (dz dx dy zsrc xsrc ysrc : R) (nsweep : Z) (grad : bool) 
         (tt g : arr R) (vz h S0 Lm : R),
       1 <= c ->
       0 < dz <= h ->
       0 < dx <= h ->
       0 < dy <= h ->
       (1 <= dim slow 0)%Z ->
       (1 <= dim slow 1)%Z ->
       (1 <= dim slow 2)%Z ->
       0 <= S0 ->
       SolveScale3d.SlowBnd S0 slow ->
       SolveScale3d.LmixBnd dz dx dy Lm ->
       c *
       (2 *
        (3 * h * S0 +
         INR (length (SolveScale3d.all_steps3 (dim slow 0 + 1) (dim slow 1 + 1) (dim slow 2 + 1) nsweep)) *
         (3 * h * S0)) + 2 * S0 * Lm) < Big ->
       fteik3d slow dz dx dy zsrc xsrc ysrc nsweep grad = Ok (tt, g, vz) ->
       exists tt' g' : arr R,
         fteik3d (smap c slow) dz dx dy zsrc xsrc ysrc nsweep grad = Ok (tt', g', c * vz) /\
         SolveScale3d.TRel3 (dim slow 0 + 1) (dim slow 1 + 1) (dim slow 2 + 1) c tt tt' /\
         SolveScale3d.SameReach3 (dim slow 0 + 1) (dim slow 1 + 1) (dim slow 2 + 1) tt tt'.
Proof. exact @SolveScale3d.fteik3d_scale_slowness_bounded. Qed.

(* cell location commutes with scaling axis and query by c > 0 (any array) *)
Theorem C05_cell_location_commutes_with_scaling :
  forall (c : R) (x : arr R) (q : R),
       0 < c -> searchsorted_right (VinterpScale.scale_arr c x) (c * q) = searchsorted_right x q.
Proof. exact @VinterpScale.ssr_scale. Qed.

(* traveltime interpolation, both units at once: lengths (axes, query, source) by cl > 0, node times by cl*cz, source slowness by cz: the value is cl*cz times the original inside the hull and the fill value outside - every branch (source cell, zero corner, far faces, generic), NO hypothesis on the arrays *)
Theorem C05_interpolated_time_scales_both_units_2d :
  forall (cl cz : R) (x y v : arr R) (xq yq xsrc ysrc vzero fval : R),
       0 < cl ->
       cz <> 0 ->
       u_vinterp2d_v (VinterpScale.scale_arr cl x) (VinterpScale.scale_arr cl y) (VinterpScale.scale_arr (cl * cz) v)
         (cl * xq) (cl * yq) (cl * xsrc) (cl * ysrc) (cz * vzero) fval =
       (if TranslateR.inhullb x xq && TranslateR.inhullb y yq
        then cl * cz * u_vinterp2d_v x y v xq yq xsrc ysrc vzero fval
        else fval).
Proof. exact @VinterpScale.vinterp2d_scale. Qed.

(* length scaling alone *)
Theorem C05_interpolated_time_scales_with_length_2d :
  forall (c : R) (x y v : arr R) (xq yq xsrc ysrc vzero fval : R),
       0 < c ->
       u_vinterp2d_v (VinterpScale.scale_arr c x) (VinterpScale.scale_arr c y) (VinterpScale.scale_arr c v) 
         (c * xq) (c * yq) (c * xsrc) (c * ysrc) vzero fval =
       (if TranslateR.inhullb x xq && TranslateR.inhullb y yq
        then c * u_vinterp2d_v x y v xq yq xsrc ysrc vzero fval
        else fval).
Proof. exact @VinterpScale.vinterp2d_scale_length. Qed.

(* slowness scaling alone *)
Theorem C05_interpolated_time_scales_with_slowness_2d :
  forall (c : R) (x y v : arr R) (xq yq xsrc ysrc vzero fval : R),
       c <> 0 ->
       u_vinterp2d_v x y (VinterpScale.scale_arr c v) xq yq xsrc ysrc (c * vzero) fval =
       (if TranslateR.inhullb x xq && TranslateR.inhullb y yq
        then c * u_vinterp2d_v x y v xq yq xsrc ysrc vzero fval
        else fval).
Proof. exact @VinterpScale.vinterp2d_scale_slowness. Qed.

(* 3D *)
Theorem C05_interpolated_time_scales_both_units_3d :
  forall (cl cz : R) (x y z v : arr R) (xq yq zq xsrc ysrc zsrc vzero fval : R),
       0 < cl ->
       cz <> 0 ->
       u_vinterp3d_v (VinterpScale.scale_arr cl x) (VinterpScale.scale_arr cl y) (VinterpScale.scale_arr cl z)
         (VinterpScale.scale_arr (cl * cz) v) (cl * xq) (cl * yq) (cl * zq) (cl * xsrc) (cl * ysrc) 
         (cl * zsrc) (cz * vzero) fval =
       (if TranslateR.inhullb x xq && TranslateR.inhullb y yq && TranslateR.inhullb z zq
        then cl * cz * u_vinterp3d_v x y z v xq yq zq xsrc ysrc zsrc vzero fval
        else fval).
Proof. exact @VinterpScale.vinterp3d_scale. Qed.

(* 3D *)
Theorem C05_interpolated_time_scales_with_length_3d :
  forall (c : R) (x y z v : arr R) (xq yq zq xsrc ysrc zsrc vzero fval : R),
       0 < c ->
       u_vinterp3d_v (VinterpScale.scale_arr c x) (VinterpScale.scale_arr c y) (VinterpScale.scale_arr c z)
         (VinterpScale.scale_arr c v) (c * xq) (c * yq) (c * zq) (c * xsrc) (c * ysrc) (c * zsrc) vzero fval =
       (if TranslateR.inhullb x xq && TranslateR.inhullb y yq && TranslateR.inhullb z zq
        then c * u_vinterp3d_v x y z v xq yq zq xsrc ysrc zsrc vzero fval
        else fval).
Proof. exact @VinterpScale.vinterp3d_scale_length. Qed.

(* 3D *)
Theorem C05_interpolated_time_scales_with_slowness_3d :
  forall (c : R) (x y z v : arr R) (xq yq zq xsrc ysrc zsrc vzero fval : R),
       c <> 0 ->
       u_vinterp3d_v x y z (VinterpScale.scale_arr c v) xq yq zq xsrc ysrc zsrc (c * vzero) fval =
       (if TranslateR.inhullb x xq && TranslateR.inhullb y yq && TranslateR.inhullb z zq
        then c * u_vinterp3d_v x y z v xq yq zq xsrc ysrc zsrc vzero fval
        else fval).
Proof. exact @VinterpScale.vinterp3d_scale_slowness. Qed.

(* model / gradient-grid evaluation: axes and query scaled by c > 0, same node values: same value, every query point (gradient directions unchanged) *)
Theorem C05_grid_evaluation_unit_invariant_2d :
  forall (c : R) (x y v : arr R) (xq yq fval : R),
       0 < c ->
       u_interp2d_v (VinterpScale.scale_arr c x) (VinterpScale.scale_arr c y) v (c * xq) (c * yq) fval =
       u_interp2d_v x y v xq yq fval.
Proof. exact @VinterpScale.interp2d_scale. Qed.

(* 3D *)
Theorem C05_grid_evaluation_unit_invariant_3d :
  forall (c : R) (x y z v : arr R) (xq yq zq fval : R),
       0 < c ->
       u_interp3d_v (VinterpScale.scale_arr c x) (VinterpScale.scale_arr c y) (VinterpScale.scale_arr c z) v 
         (c * xq) (c * yq) (c * zq) fval = u_interp3d_v x y z v xq yq zq fval.
Proof. exact @VinterpScale.interp3d_scale. Qed.

(* free-step ray core, exact arithmetic, only premise c > 0: scaling the axes, the end point, the source and the step by c (same gradient grids, budget, fuel) gives the same count (-1, -2, out of fuel included) and the whole ray buffer multiplied by c *)
Theorem C05_free_step_ray_scales_with_length_2d :
  forall c : R,
       0 < c ->
       forall (z x zgrad xgrad : arr R) (zend xend zsrc xsrc stepsize : R) (fuel : nat) (M : Z),
       u_ray2d_core_v fuel (RayScale.sc c z) (RayScale.sc c x) zgrad xgrad (c * zend) (c * xend) 
         (c * zsrc) (c * xsrc) (c * stepsize) M false =
       RayScale.rmap (RayScale.sc_out c) (u_ray2d_core_v fuel z x zgrad xgrad zend xend zsrc xsrc stepsize M false).
Proof. exact @RayScale.ray2d_core_scale. Qed.

(* entry point ray2d: the returned polyline is multiplied by c, or the same exception is raised *)
Theorem C05_free_step_polyline_scales_with_length_2d :
  forall (c : R) (z x zgrad xgrad p src : arr R) (stepsize : R) (fuel : nat) (M : Z),
       0 < c ->
       ray2d_1 fuel (RayScale.sc c z) (RayScale.sc c x) zgrad xgrad (RayScale.sc c p) (RayScale.sc c src)
         (c * stepsize) M false = RayScale.rmap (RayScale.sc c) (ray2d_1 fuel z x zgrad xgrad p src stepsize M false).
Proof. exact @RayScale.ray2d_1_scale. Qed.

(* 3D *)
Theorem C05_free_step_ray_scales_with_length_3d :
  forall c : R,
       0 < c ->
       forall (z x y zgrad xgrad ygrad : arr R) (zend xend yend zsrc xsrc ysrc stepsize : R) (fuel : nat) (M : Z),
       u_ray3d_core_v fuel (RayScale.sc c z) (RayScale.sc c x) (RayScale.sc c y) zgrad xgrad ygrad 
         (c * zend) (c * xend) (c * yend) (c * zsrc) (c * xsrc) (c * ysrc) (c * stepsize) M false =
       RayScale.rmap (RayScale.sc_out c)
         (u_ray3d_core_v fuel z x y zgrad xgrad ygrad zend xend yend zsrc xsrc ysrc stepsize M false).
Proof. exact @RayScale.ray3d_core_scale. Qed.

(* 3D *)
Theorem C05_free_step_polyline_scales_with_length_3d :
  forall (c : R) (z x y zgrad xgrad ygrad p src : arr R) (stepsize : R) (fuel : nat) (M : Z),
       0 < c ->
       ray3d_1 fuel (RayScale.sc c z) (RayScale.sc c x) (RayScale.sc c y) zgrad xgrad ygrad 
         (RayScale.sc c p) (RayScale.sc c src) (c * stepsize) M false =
       RayScale.rmap (RayScale.sc c) (ray3d_1 fuel z x y zgrad xgrad ygrad p src stepsize M false).
Proof. exact @RayScale.ray3d_1_scale. Qed.

(* why the property speaks of free-step rays only: the grid-honouring tracer compares distances to grid lines with the ABSOLUTE tolerance 1e-8 (grid magnetism), so for every 0 < c < 2e-8 the run scaled by c stores (c, 0) where the unit run stores (1, 1/2); the Python code gives the same outputs at c = 1e-9 *)
Theorem C05_grid_honouring_ray_not_scale_invariant :
  forall c : R,
       0 < c < 2 / 100000000 ->
       exists ray ray' : arr R,
         u_ray2d_core_v 2 RayScale.hz RayScale.hx RayScale.hg1 RayScale.hg0 (3 / 2) (1 / 2) (1 / 4) (1 / 2) 1 10 true =
         Ok (ray, 2%Z) /\
         u_ray2d_core_v 2 (RayScale.sc c RayScale.hz) (RayScale.sc c RayScale.hx) RayScale.hg1 RayScale.hg0
           (c * (3 / 2)) (c * (1 / 2)) (c * (1 / 4)) (c * (1 / 2)) (c * 1) 10 true = Ok (ray', 2%Z) /\
         get 0 ray [1%Z; 0%Z] = 1 /\
         get 0 ray [1%Z; 1%Z] = 1 / 2 /\
         get 0 ray' [1%Z; 0%Z] = c /\ get 0 ray' [1%Z; 1%Z] = 0 /\ get 0 ray' [1%Z; 1%Z] <> c * get 0 ray [1%Z; 1%Z].
Proof. exact @RayScale.ray2d_honor_grid_not_scale_invariant. Qed.

Print Assumptions C05_t_ana_scale_slowness.
Print Assumptions C05_t_ana_scale_length.
Print Assumptions C05_t_anad_scale_slowness.
Print Assumptions C05_t_anad_scale_length.
Print Assumptions C05_delta_scale_slowness.
Print Assumptions C05_delta_scale_length.
Print Assumptions C05_sweep_scale_slowness.
Print Assumptions C05_sweep_scale_length.
Print Assumptions C05_t_ana_3d_scale_slowness.
Print Assumptions C05_t_ana_3d_scale_length.
Print Assumptions C05_slowness_handed_to_kernel_scales.
Print Assumptions C05_ray_default_budget_unit_invariant.
Print Assumptions C05_init_scale_slowness.
Print Assumptions C05_init_scale_length.
Print Assumptions C05_init_scale_slowness_ge1.
Print Assumptions C05_init_down_is_transpose_of_east.
Print Assumptions C05_solve2d_scale_slowness.
Print Assumptions C05_solve2d_scale_length.
Print Assumptions C05_solve2d_scale_raises.
Print Assumptions C05_solve2d_scale_slowness_bounded.
Print Assumptions C05_node_update_3d_scale.
Print Assumptions C05_solve3d_scale_slowness.
Print Assumptions C05_solve3d_scale_length.
Print Assumptions C05_solve3d_scale_raises.
Print Assumptions C05_solve3d_scale_slowness_bounded.
Print Assumptions C05_cell_location_commutes_with_scaling.
Print Assumptions C05_interpolated_time_scales_both_units_2d.
Print Assumptions C05_interpolated_time_scales_with_length_2d.
Print Assumptions C05_interpolated_time_scales_with_slowness_2d.
Print Assumptions C05_interpolated_time_scales_both_units_3d.
Print Assumptions C05_interpolated_time_scales_with_length_3d.
Print Assumptions C05_interpolated_time_scales_with_slowness_3d.
Print Assumptions C05_grid_evaluation_unit_invariant_2d.
Print Assumptions C05_grid_evaluation_unit_invariant_3d.
Print Assumptions C05_free_step_ray_scales_with_length_2d.
Print Assumptions C05_free_step_polyline_scales_with_length_2d.
Print Assumptions C05_free_step_ray_scales_with_length_3d.
Print Assumptions C05_free_step_polyline_scales_with_length_3d.
Print Assumptions C05_grid_honouring_ray_not_scale_invariant.
