(* Memory safety of the 3D fast-sweeping kernels (gen/Fteik3d.v), generic in the numeric type, all shapes:
     sweep_ok_true      one sweep call only performs in-range accesses (eight direction patterns)
     sweep3d_ok_true    one full sweep3d only performs in-range accesses
   `f_ok true false args = true` : index obligations on, divisor obligations off. *)
From Coq Require Import ZArith List Bool Lia.
From FT.lib Require Import Num Arr ArrLemmas.
From FT.gen Require Import Common Fteik3d.
From FT.proofs Require Import SafetyTools.
Import ListNotations.
Open Scope Z_scope.

Section S3.
Context {T : Type} `{Num T}.

(* ---------- one sweep call ---------- *)
Theorem sweep_ok_true (tt : arr T) (ttsgn : arr Z) (slow : arr T) dargs
        i j k sgnvz sgnvx sgnvy sgntz sgntx sgnty nz nx ny grad :
  2 <= nz -> 2 <= nx -> 2 <= ny ->
  shape tt = [nz; nx; ny] -> shape slow = [nz - 1; nx - 1; ny - 1] ->
  (grad = true -> shape ttsgn = [nz; nx; ny; 3]) ->
  dirp sgnvz sgntz i nz -> dirp sgnvx sgntx j nx -> dirp sgnvy sgnty k ny ->
  sweep_ok true false tt ttsgn slow dargs i j k sgnvz sgnvx sgnvy sgntz sgntx sgnty nz nx ny grad = true.
Proof.
  intros Hnz Hnx Hny Htt Hslow Hsgn Di Dj Dk. unfold dirp in Di, Dj, Dk.
  Time unfold sweep_ok.
  Time ok_walk inb_solve.
Time Qed.
End S3.
