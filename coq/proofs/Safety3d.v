(* Memory safety of the 3D fast-sweeping kernels (gen/Fteik3d.v), generic in the numeric type, all shapes:
     sweep_ok_true      one sweep call only performs in-range accesses (eight direction patterns)
     sweep3d_ok_true    one full sweep3d only performs in-range accesses
   `f_ok true false args = true` : index obligations on, divisor obligations off. *)
From Coq Require Import ZArith List Bool Lia.
From FT.lib Require Import Num Arr ArrLemmas.
From FT.gen Require Import Common Fteik3d.
From FT.proofs Require Import SafetyTools.
Import ListNotations.
Open Scope Z_scope.

Section S3.
Context {T : Type} `{Num T}.

(* ---------- one sweep call ---------- *)
Theorem sweep_ok_true (tt : arr T) (ttsgn : arr Z) (slow : arr T) dargs
        i j k sgnvz sgnvx sgnvy sgntz sgntx sgnty nz nx ny grad :
  2 <= nz -> 2 <= nx -> 2 <= ny ->
  shape tt = [nz; nx; ny] -> shape slow = [nz - 1; nx - 1; ny - 1] ->
  (grad = true -> shape ttsgn = [nz; nx; ny; 3]) ->
  dirp sgnvz sgntz i nz -> dirp sgnvx sgntx j nx -> dirp sgnvy sgnty k ny ->
  sweep_ok true false tt ttsgn slow dargs i j k sgnvz sgnvx sgnvy sgntz sgntx sgnty nz nx ny grad = true.
Proof.
  intros Hnz Hnx Hny Htt Hslow Hsgn Di Dj Dk.
  assert (Bi : 0 <= i - sgntz < nz /\ 0 <= i - sgnvz < nz - 1 /\ 0 <= i < nz) by (unfold dirp in Di; lia).
  assert (Bj : 0 <= j - sgntx < nx /\ 0 <= j - sgnvx < nx - 1 /\ 0 <= j < nx) by (unfold dirp in Dj; lia).
  assert (Bk : 0 <= k - sgnty < ny /\ 0 <= k - sgnvy < ny - 1 /\ 0 <= k < ny) by (unfold dirp in Dk; lia).
  clear Di Dj Dk.
  destruct grad; [ specialize (Hsgn eq_refl) | clear Hsgn ];
  cbv beta delta [sweep_ok].
  all: ok_walk inb_solve.
Qed.

(* ---------- what one sweep call does to the two arrays ---------- *)
Lemma sweep_fst_shape (tt : arr T) ttsgn (slow : arr T) dargs
      i j k sgnvz sgnvx sgnvy sgntz sgntx sgnty nz nx ny grad :
  shape (fst (sweep tt ttsgn slow dargs i j k sgnvz sgnvx sgnvy sgntz sgntx sgnty nz nx ny grad)) = shape tt.
Proof.
  unfold sweep.
  lazymatch goal with |- shape (fst (?a, _)) = _ => change (shape a = shape tt) end.
  reflexivity.
Qed.

(* the sign array is left alone, or receives (a, b, c) at node (i, j, k), each component the direction
   sign of its axis or 0 *)
Lemma sweep_snd_char (tt : arr T) ttsgn (slow : arr T) dargs
      i j k sgnvz sgnvx sgnvy sgntz sgntx sgnty nz nx ny grad :
  let r := snd (sweep tt ttsgn slow dargs i j k sgnvz sgnvx sgnvy sgntz sgntx sgnty nz nx ny grad) in
  r = ttsgn \/
  (grad = true /\ exists a b c, (a = sgntz \/ a = 0) /\ (b = sgntx \/ b = 0) /\ (c = sgnty \/ c = 0) /\
     r = set (set (set ttsgn [i; j; k; 0] a) [i; j; k; 1] b) [i; j; k; 2] c).
Proof.
  unfold sweep. cbv zeta.
  lazymatch goal with |- snd (_, ?b) = _ \/ _ => change (snd (_, b)) with b end.
  destruct grad; [ | left; reflexivity ].
  cbn [andb].
  lazymatch goal with |- (if ?c then _ else _) = _ \/ _ => destruct c end; [ | left; reflexivity ].
  right. split; [ reflexivity | ].
  repeat lazymatch goal with
  | |- exists a b c, _ /\ _ /\ _ /\ (if ?cond then _ else _) = _ => destruct cond
  end;
  (do 3 eexists; refine (conj _ (conj _ (conj _ eq_refl))); auto).
Qed.

Lemma sweep_snd_shape (tt : arr T) ttsgn (slow : arr T) dargs
      i j k sgnvz sgnvx sgnvy sgntz sgntx sgnty nz nx ny grad :
  shape (snd (sweep tt ttsgn slow dargs i j k sgnvz sgnvx sgnvy sgntz sgntx sgnty nz nx ny grad)) = shape ttsgn.
Proof.
  destruct (sweep_snd_char tt ttsgn slow dargs i j k sgnvz sgnvx sgnvy sgntz sgntx sgnty nz nx ny grad)
    as [-> | (_ & a & b & c & _ & _ & _ & ->)]; reflexivity.
Qed.

(* ---------- one sweep3d ---------- *)
Section Loops.
Variables (nz nx ny : Z) (grad : bool).
(* loop invariant: the shapes of the two arrays carried through the loops *)
Definition shp (s : arr T * arr Z) : Prop :=
  shape (fst s) = [nz; nx; ny] /\ (grad = true -> shape (snd s) = [nz; nx; ny; 3]).
Lemma shp_eta s : shp s -> shp (fst s, snd s).
Proof. intros Hs. exact Hs. Qed.
Lemma shp_sweep tt ttsgn (slow : arr T) dargs i j k sgnvz sgnvx sgnvy sgntz sgntx sgnty :
  shp (tt, ttsgn) ->
  shp (fst (sweep tt ttsgn slow dargs i j k sgnvz sgnvx sgnvy sgntz sgntx sgnty nz nx ny grad),
       snd (sweep tt ttsgn slow dargs i j k sgnvz sgnvx sgnvy sgntz sgntx sgnty nz nx ny grad)).
Proof. intros [H1 H2]. split; cbn [fst snd] in *; [ rewrite sweep_fst_shape | rewrite sweep_snd_shape ]; auto. Qed.
End Loops.

Ltac shp_solve :=
  cbv beta;
  lazymatch goal with
  | |- shp _ _ _ _ (for_list _ _ _) => apply for_list_inv; [ shp_solve | intros ? ? ? ?; shp_solve ]
  | |- shp _ _ _ _ (fst ?x, snd ?x) =>
      first [ assumption | apply shp_sweep; shp_solve | apply shp_eta; shp_solve ]
  | |- _ => assumption
  end.

Theorem sweep3d_ok_true (tt : arr T) (ttsgn : arr Z) (slow : arr T) (dz dx dy : T) nz nx ny grad :
  2 <= nz -> 2 <= nx -> 2 <= ny ->
  shape tt = [nz; nx; ny] -> shape slow = [nz - 1; nx - 1; ny - 1] ->
  (grad = true -> shape ttsgn = [nz; nx; ny; 3]) ->
  sweep3d_ok true false tt ttsgn slow dz dx dy nz nx ny grad = true.
Proof.
  intros Hnz Hnx Hny Htt Hslow Hsgn.
  assert (H0 : shp nz nx ny grad (tt, ttsgn)) by (split; assumption).
  cbv beta delta [sweep3d_ok].
  ok_walk_gen (shp nz nx ny grad) shp_solve
    ltac:(range_hyps;
          match goal with Hs : shp _ _ _ _ ?s |- sweep_ok _ _ (fst ?s) _ _ _ _ _ _ _ _ _ _ _ _ _ _ _ _ = true =>
            destruct Hs as [Hs1 Hs2]; apply sweep_ok_true; auto; unfold dirp; lia end).
Qed.
End S3.

Print Assumptions sweep_ok_true.
Print Assumptions sweep3d_ok_true.
