(* Complements to RaySafety2d.v / RaySafety3d.v.

   PART B (C12, list forms).  Index safety of the LIST forms of the a posteriori ray tracers, which RaySafety2d/3d
   left open (source /repo/fteikpy/_fteik/_ray2d.py, _ray3d.py: `_ray2d_vectorized`, the `p.ndim == 2` branch of
   `ray2d`, and the 3D counterparts; gen/Ray2d.v, gen/Ray3d.v: `u_ray2d_vectorized_v_ok`, `ray2d_n_ok`,
   `u_ray3d_vectorized_v_ok`, `ray3d_n_ok`):
     ray2d_vectorized_ok_true, ray2d_n_ok_true, ray3d_vectorized_ok_true, ray3d_n_ok_true
   The `prange` loop is a `forallb` (obligations) / `mapM` (values) over `pyrange 0 n 1`; the obligation of the list
   form is: per item, `zend[i]`, `xend[i]` in range and the obligation of the single-item core; after the loop,
   `counts[i]` in range of the collected items; in the public entry, the columns `p[:, 0]`, `p[:, 1]` exist and every
   returned `ray[count::-1]` has `0 <= count < len(ray)`.

   PART A (C15, 3D).  Over T := R, in grid-honouring mode every interior stored vertex of a ray returned by the 3D core
   has at least one coordinate that is exactly a node of the corresponding axis ("interior vertices lie on grid
   planes"): vertex_on_grid_plane_3d (one iteration, before the 1e-8 magnetism) and ray3d_vertices_on_grid_planes
   (the whole returned ray, magnetism included).  The generic facts on `shrink` (shrink_attained, shrink_range,
   shrink_ge1_inside) are those of RaySafety2d.v. *)
From Coq Require Import ZArith List Bool Lia Reals Lra PrimFloat.
From FT.lib Require Import Num Arr ArrLemmas NumArr.
From FT.gen Require Import Common Interp2d Interp3d FteikCommon Ray2d Ray3d.
From FT.proofs Require Import SafetyTools SafetyInterp Ray2dProofs Ray3dProofs RaySafety2d RaySafety3d.
From FT.proofs Require NumFLaws SSR.
Import ListNotations.
Open Scope Z_scope.

(* ========================================================================================== *)
(* PART B : list forms                                                                          *)
(* ========================================================================================== *)

(* ---------- generic facts ---------- *)
Lemma forallb_pyrange_true (f : Z -> bool) (n : Z) :
  (forall i, 0 <= i < n -> f i = true) -> forallb f (pyrange 0 n 1) = true.
Proof. intros Hf. apply forallb_forall. intros i Hi. apply in_pyrange_up in Hi. apply Hf. exact Hi. Qed.

Lemma pyrange_0_length n : length (pyrange 0 n 1) = Z.to_nat n.
Proof. rewrite pyrange_0_up, map_length, seq_length. reflexivity. Qed.

(* the obligation of a mapped loop: every item obligation holds (forallb-style rule for `prange`) *)
Lemma prange_ok_true {B} (ob : Z -> bool) (f : Z -> res B) (K : list B -> bool) n :
  (forall i, 0 <= i < n -> ob i = true) ->
  (forall items, mapM f (pyrange 0 n 1) = Ok items -> length items = Z.to_nat n -> K items = true) ->
  forallb ob (pyrange 0 n 1) && res_ok (mapM f (pyrange 0 n 1)) K = true.
Proof.
  intros Hob HK. apply andb_true_intro. split; [apply forallb_pyrange_true; exact Hob|].
  destruct (mapM f (pyrange 0 n 1)) as [items| |] eqn:Em; cbn [res_ok]; try reflexivity.
  apply HK; [reflexivity|]. rewrite (mapM_ok_length _ _ _ Em). apply pyrange_0_length.
Qed.

Lemma first_exc_none_In {X} (f : X -> option exn) : forall l, first_exc f l = None -> forall a, In a l -> f a = None.
Proof.
  induction l as [|b t IH]; intros Hn a Ha; [destruct Ha|]. cbn [first_exc] in Hn.
  destruct (f b) eqn:Eb; [discriminate|]. destruct Ha as [<-|Ha]; [exact Eb|exact (IH Hn a Ha)].
Qed.

Lemma Forall2_In_r {X Y} (R : X -> Y -> Prop) : forall l bs, Forall2 R l bs ->
  forall b, In b bs -> exists a, In a l /\ R a b.
Proof.
  induction 1 as [|a b l bs Hab HF IH]; intros b0 Hb; [destruct Hb|].
  destruct Hb as [<-|Hb]; [exists a; split; [left; reflexivity|exact Hab]|].
  destruct (IH b0 Hb) as (a0 & Ha0 & Hr). exists a0. split; [right; exact Ha0|exact Hr].
Qed.

(* the counts[i] obligations after the loop *)
Lemma counts_in_range {B} (items : list B) n :
  length items = Z.to_nat n ->
  forallb (fun i : Z => obI true ((0 <=? i) && (i <? Z.of_nat (length items))) &&
                        obI true ((0 <=? i) && (i <? Z.of_nat (length items)))) (pyrange 0 n 1) = true.
Proof.
  intros Hl. apply forallb_pyrange_true. intros i Hi. unfold obI. rewrite Hl, Z2Nat.id by lia.
  assert (E : (0 <=? i) && (i <? n) = true)
    by (apply andb_true_intro; split; [apply Z.leb_le|apply Z.ltb_lt]; lia).
  rewrite E. reflexivity.
Qed.

(* columns of a 2-D array *)
Lemma shape_col {A} (d : A) (a : arr A) k n l : shape a = n :: l -> shape (col d a k) = [n].
Proof. intros E. unfold col. cbv zeta. cbn [shape]. rewrite (dim_0 _ _ _ E). reflexivity. Qed.
Lemma dim_1 {A} (a : arr A) n m l : shape a = n :: m :: l -> dim a 1%nat = m.
Proof. intros E. unfold dim. rewrite E. reflexivity. Qed.

(* ---------- 2D ---------- *)
Section List2.
Context {T : Type} `{Num T}.
Context {Laws : RayLaws (T := T)}.
Variables (z x zgrad xgrad : arr T) (nz nx : Z).
Hypothesis (Az : axisn z nz) (Ax : axisn x nx) (Hnz : 2 <= nz) (Hnx : 2 <= nx).
Hypothesis (Szg : shape zgrad = [nz; nx]) (Sxg : shape xgrad = [nz; nx]).

(* _ray2d_vectorized(z, x, zgrad, xgrad, zend, xend, ...) *)
Theorem ray2d_vectorized_ok_true fuel (zend xend : arr T) n zsrc xsrc stepsize max_step hg :
  shape zend = [n] -> shape xend = [n] ->
  1 <= max_step -> (hg = true -> axis_min z nz /\ axis_min x nx) ->
  u_ray2d_vectorized_v_ok true false fuel z x zgrad xgrad zend xend zsrc xsrc stepsize max_step hg = true.
Proof.
  intros Sze Sxe Hms Hmin. unfold u_ray2d_vectorized_v_ok. cbv zeta. rewrite (dim_0 _ _ _ Sze).
  apply prange_ok_true.
  - intros i Hi.
    rewrite (ray2d_core_ok_true z x zgrad xgrad nz nx Az Ax Hnz Hnx Szg Sxg) by assumption.
    unfold obI. rewrite (inb1_true zend n i Sze Hi), (inb1_true xend n i Sxe Hi). reflexivity.
  - intros items _ Hl. rewrite (counts_in_range items n Hl). cbn [andb].
    destruct (find_exc _ _); reflexivity.
Qed.

(* every item returned by the list form is a regular result of the core: 1 <= count < max_step = len(ray) *)
Lemma ray2d_vectorized_items fuel (zend xend : arr T) zsrc xsrc stepsize max_step hg items :
  u_ray2d_vectorized_v fuel z x zgrad xgrad zend xend zsrc xsrc stepsize max_step hg = Ok items ->
  forall it, In it items -> 1 <= snd it < max_step /\ shape (fst it) = [max_step; 2].
Proof.
  rewrite ray2d_vectorized_spec. intros Hv it Hit.
  destruct (mapM _ _) as [l| |] eqn:Em; cbn [rbind] in Hv; try discriminate.
  destruct (first_exc count_exc l) eqn:Ef; [discriminate|]. injection Hv as <-.
  pose proof (first_exc_none_In _ _ Ef it Hit) as Hne.
  apply mapM_ok_iff in Em. destruct (Forall2_In_r _ _ _ Em it Hit) as (i & _ & Hc).
  destruct it as [ray count]. cbv beta in Hc.
  destruct (ray2d_core_count_range _ _ _ _ _ _ _ _ _ _ _ _ _ _ Hc) as [Hr Hsh].
  unfold count_exc in Hne. cbn [fst snd] in *.
  destruct (Z.eqb_spec count (-1)); [discriminate|]. destruct (Z.eqb_spec count (-2)); [discriminate|].
  split; [lia|exact Hsh].
Qed.

(* ray2d(z, x, zgrad, xgrad, p, src, ...) with p.ndim == 2 *)
Theorem ray2d_n_ok_true fuel (p src : arr T) n stepsize max_step hg :
  shape p = [n; 2] -> shape src = [2] ->
  1 <= max_step -> (hg = true -> axis_min z nz /\ axis_min x nx) ->
  ray2d_n_ok true false fuel z x zgrad xgrad p src stepsize max_step hg = true.
Proof.
  intros Sp Ss Hms Hmin. unfold ray2d_n_ok.
  rewrite (ray2d_vectorized_ok_true fuel _ _ n)
    by (first [apply (shape_col _ _ _ _ _ Sp) | assumption]).
  unfold obI. rewrite (dim_1 _ _ _ _ Sp), !(inb1_true src 2) by (auto; lia). cbn [andb Z.leb Z.ltb Z.compare].
  destruct (u_ray2d_vectorized_v _ _ _ _ _ _ _ _ _ _ _ _) as [items| |] eqn:Ev; cbn [res_ok]; try reflexivity.
  cbv zeta. apply forallb_forall. intros it Hit.
  destruct (ray2d_vectorized_items _ _ _ _ _ _ _ _ _ Ev it Hit) as [Hc Hsh].
  rewrite (dim_0 _ _ _ Hsh). apply andb_true_intro. split; [apply Z.leb_le|apply Z.ltb_lt]; lia.
Qed.
End List2.

(* ---------- 3D ---------- *)
Section List3.
Context {T : Type} `{Num T}.
Context {Laws : RayLaws (T := T)}.
Variables (z x y zgrad xgrad ygrad : arr T) (nz nx ny : Z).
Hypothesis (Az : axisn z nz) (Ax : axisn x nx) (Ay : axisn y ny).
Hypothesis (Hnz : 2 <= nz) (Hnx : 2 <= nx) (Hny : 2 <= ny).
Hypothesis (Szg : shape zgrad = [nz; nx; ny]) (Sxg : shape xgrad = [nz; nx; ny])
           (Syg : shape ygrad = [nz; nx; ny]).

Theorem ray3d_vectorized_ok_true fuel (zend xend yend : arr T) n zsrc xsrc ysrc stepsize max_step hg :
  shape zend = [n] -> shape xend = [n] -> shape yend = [n] ->
  1 <= max_step -> (hg = true -> axis_min z nz /\ axis_min x nx /\ axis_min y ny) ->
  u_ray3d_vectorized_v_ok true false fuel z x y zgrad xgrad ygrad zend xend yend zsrc xsrc ysrc stepsize max_step hg
  = true.
Proof.
  intros Sze Sxe Sye Hms Hmin. unfold u_ray3d_vectorized_v_ok. cbv zeta. rewrite (dim_0 _ _ _ Sze).
  apply prange_ok_true.
  - intros i Hi.
    rewrite (ray3d_core_ok_true z x y zgrad xgrad ygrad nz nx ny Az Ax Ay Hnz Hnx Hny Szg Sxg Syg) by assumption.
    unfold obI. rewrite (inb1_true zend n i Sze Hi), (inb1_true xend n i Sxe Hi), (inb1_true yend n i Sye Hi).
    reflexivity.
  - intros items _ Hl. rewrite (counts_in_range items n Hl). cbn [andb].
    destruct (find_exc _ _); reflexivity.
Qed.

Lemma ray3d_vectorized_items fuel (zend xend yend : arr T) zsrc xsrc ysrc stepsize max_step hg items :
  u_ray3d_vectorized_v fuel z x y zgrad xgrad ygrad zend xend yend zsrc xsrc ysrc stepsize max_step hg = Ok items ->
  forall it, In it items -> 1 <= snd it < max_step /\ shape (fst it) = [max_step; 3].
Proof.
  rewrite ray3d_vectorized_spec. intros Hv it Hit.
  destruct (mapM _ _) as [l| |] eqn:Em; cbn [rbind] in Hv; try discriminate.
  destruct (first_exc count_exc l) eqn:Ef; [discriminate|]. injection Hv as <-.
  pose proof (first_exc_none_In _ _ Ef it Hit) as Hne.
  apply mapM_ok_iff in Em. destruct (Forall2_In_r _ _ _ Em it Hit) as (i & _ & Hc).
  destruct it as [ray count]. cbv beta in Hc.
  destruct (ray3d_core_count_range _ _ _ _ _ _ _ _ _ _ _ _ _ _ _ _ _ _ Hc) as [Hr Hsh].
  unfold count_exc in Hne. cbn [fst snd] in *.
  destruct (Z.eqb_spec count (-1)); [discriminate|]. destruct (Z.eqb_spec count (-2)); [discriminate|].
  split; [lia|exact Hsh].
Qed.

Theorem ray3d_n_ok_true fuel (p src : arr T) n stepsize max_step hg :
  shape p = [n; 3] -> shape src = [3] ->
  1 <= max_step -> (hg = true -> axis_min z nz /\ axis_min x nx /\ axis_min y ny) ->
  ray3d_n_ok true false fuel z x y zgrad xgrad ygrad p src stepsize max_step hg = true.
Proof.
  intros Sp Ss Hms Hmin. unfold ray3d_n_ok.
  rewrite (ray3d_vectorized_ok_true fuel _ _ _ n)
    by (first [apply (shape_col _ _ _ _ _ Sp) | assumption]).
  unfold obI. rewrite (dim_1 _ _ _ _ Sp), !(inb1_true src 3) by (auto; lia). cbn [andb Z.leb Z.ltb Z.compare].
  destruct (u_ray3d_vectorized_v _ _ _ _ _ _ _ _ _ _ _ _ _ _ _ _) as [items| |] eqn:Ev; cbn [res_ok];
    try reflexivity.
  cbv zeta. apply forallb_forall. intros it Hit.
  destruct (ray3d_vectorized_items _ _ _ _ _ _ _ _ _ _ _ Ev it Hit) as [Hc Hsh].
  rewrite (dim_0 _ _ _ Hsh). apply andb_true_intro. split; [apply Z.leb_le|apply Z.ltb_lt]; lia.
Qed.
End List3.


(* ========================================================================================== *)
(* PART A : grid-honouring mode in 3D, exact arithmetic: interior vertices lie on grid planes   *)
(* ========================================================================================== *)
Section GridR3.
Local Open Scope R_scope.

(* the 3-vector forms of the generic facts *)
Lemma vec3_Forall2 (a b : arr R) :
  vec3 a -> vec3 b -> get 0 a [0%Z] <= get 0 b [0%Z] -> get 0 a [1%Z] <= get 0 b [1%Z] ->
  get 0 a [2%Z] <= get 0 b [2%Z] -> Forall2 Rle (dat a) (dat b).
Proof.
  intros [Sa La] [Sb Lb]. destruct a as [sa la], b as [sb lb]. cbn in *. subst sa sb.
  destruct la as [|a0 [|a1 [|a2 [|]]]]; try discriminate. destruct lb as [|b0 [|b1 [|b2 [|]]]]; try discriminate.
  unfold get, flat. cbn. intros H0 H1 H2.
  constructor; [exact H0|]. constructor; [exact H1|]. constructor; [exact H2|]. constructor.
Qed.

Corollary shrink_range_3d (pcur delta lower upper : arr R) :
  vec3 pcur -> vec3 lower -> vec3 upper ->
  get 0 lower [0%Z] <= get 0 pcur [0%Z] <= get 0 upper [0%Z] ->
  get 0 lower [1%Z] <= get 0 pcur [1%Z] <= get 0 upper [1%Z] ->
  get 0 lower [2%Z] <= get 0 pcur [2%Z] <= get 0 upper [2%Z] ->
  0 <= FteikCommon.shrink pcur delta lower upper <= 1.
Proof. intros Vp Vl Vu H0 H1 H2. apply shrink_range; apply vec3_Forall2; tauto. Qed.

Lemma get_nth3 (a : arr R) : vec3 a ->
  get 0 a [0%Z] = nth 0 (dat a) 0 /\ get 0 a [1%Z] = nth 1 (dat a) 0 /\ get 0 a [2%Z] = nth 2 (dat a) 0.
Proof.
  intros [S L]. destruct a as [sa la]. cbn in *. subst sa.
  destruct la as [|a0 [|a1 [|a2 [|]]]]; try discriminate. repeat split; reflexivity.
Qed.

Lemma step_point3 (p d : arr R) (fac : R) : vec3 p -> vec3 d ->
  let p0 := amap2 nsub p (amap (fun e : R => nmul fac e) d) in
  vec3 p0 /\ get 0 p0 [0%Z] = get 0 p [0%Z] - fac * get 0 d [0%Z] /\
  get 0 p0 [1%Z] = get 0 p [1%Z] - fac * get 0 d [1%Z] /\
  get 0 p0 [2%Z] = get 0 p [2%Z] - fac * get 0 d [2%Z].
Proof.
  intros [Sp Lp] [Sd Ld] p0. destruct p as [sp lp], d as [sd ld]. cbn in *. subst sp sd.
  destruct lp as [|a0 [|a1 [|a2 [|]]]]; try discriminate. destruct ld as [|b0 [|b1 [|b2 [|]]]]; try discriminate.
  repeat split.
Qed.

Variables (z x y : arr R) (nz nx ny : Z) (zend xend yend : R) (max_step : Z).
Hypothesis (Az : axisn z nz) (Ax : axisn x nx) (Ay : axisn y ny).
Hypothesis (Hnz : (1 <= nz)%Z) (Hnx : (1 <= nx)%Z) (Hny : (1 <= ny)%Z).
Hypothesis (Hz : axis_hull z nz) (Hx : axis_hull x nx) (Hy : axis_hull y ny).

(* row k of the buffer has a coordinate that is exactly a node of its axis *)
Definition on_plane (r : arr R) (k : Z) : Prop :=
  on_grid z nz (get 0 r [k; 0%Z]) \/ on_grid x nx (get 0 r [k; 1%Z]) \/ on_grid y ny (get 0 r [k; 2%Z]).

Definition GInv3 (s : @St2 R) : Prop :=
  ray3_ok zend xend yend max_step s /\
  vec3 (s_pcur s) /\ vec3 (s_delta s) /\ vec3 (s_lower s) /\ vec3 (s_upper s) /\
  on_grid z nz (get 0 (s_lower s) [0%Z]) /\ on_grid z nz (get 0 (s_upper s) [0%Z]) /\
  on_grid x nx (get 0 (s_lower s) [1%Z]) /\ on_grid x nx (get 0 (s_upper s) [1%Z]) /\
  on_grid y ny (get 0 (s_lower s) [2%Z]) /\ on_grid y ny (get 0 (s_upper s) [2%Z]) /\
  get 0 (s_lower s) [0%Z] <= get 0 (s_pcur s) [0%Z] <= get 0 (s_upper s) [0%Z] /\
  get 0 (s_lower s) [1%Z] <= get 0 (s_pcur s) [1%Z] <= get 0 (s_upper s) [1%Z] /\
  get 0 (s_lower s) [2%Z] <= get 0 (s_pcur s) [2%Z] <= get 0 (s_upper s) [2%Z] /\
  (forall k : Z, (1 <= k < s_count s)%Z -> on_plane (s_ray s) k).

Lemma Dz3 : dim z 0%nat = nz. Proof. apply (dim_0 _ _ _ (proj1 Az)). Qed.
Lemma Dx3 : dim x 0%nat = nx. Proof. apply (dim_0 _ _ _ (proj1 Ax)). Qed.
Lemma Dy3 : dim y 0%nat = ny. Proof. apply (dim_0 _ _ _ (proj1 Ay)). Qed.

(* the three clamps *)
Lemma clamp3_R (p0 : arr R) : vec3 p0 ->
  let p1 := set p0 [0%Z] (pymin2 (pymax2 (get (nofZ 0) p0 [0%Z]) (get (nofZ 0) z [0%Z]))
                                 (get (nofZ 0) z [(dim z 0%nat - 1)%Z])) in
  let p2 := set p1 [1%Z] (pymin2 (pymax2 (get (nofZ 0) p1 [1%Z]) (get (nofZ 0) x [0%Z]))
                                 (get (nofZ 0) x [(dim x 0%nat - 1)%Z])) in
  let p3 := set p2 [2%Z] (pymin2 (pymax2 (get (nofZ 0) p2 [2%Z]) (get (nofZ 0) y [0%Z]))
                                 (get (nofZ 0) y [(dim y 0%nat - 1)%Z])) in
  vec3 p3 /\
  get 0 p3 [0%Z] = pymin2 (pymax2 (get 0 p0 [0%Z]) (get 0 z [0%Z])) (get 0 z [(nz - 1)%Z]) /\
  get 0 p3 [1%Z] = pymin2 (pymax2 (get 0 p0 [1%Z]) (get 0 x [0%Z])) (get 0 x [(nx - 1)%Z]) /\
  get 0 p3 [2%Z] = pymin2 (pymax2 (get 0 p0 [2%Z]) (get 0 y [0%Z])) (get 0 y [(ny - 1)%Z]).
Proof.
  intros [Sp Lp] p1 p2 p3. unfold p3, p2, p1. clear p1 p2 p3. rewrite Dz3, Dx3, Dy3.
  destruct p0 as [sp lp]. cbn [shape dat] in Sp, Lp. subst sp.
  destruct lp as [|a0 [|a1 [|a2 [|]]]]; try discriminate.
  repeat split.
Qed.

(* The vertex computed by an iteration with fac < 1, BEFORE the 1e-8 grid magnetism: on the axis that attains the
   minimum in shrink its coordinate is exactly the lower or the upper boundary of the current cell. *)
Lemma vertex_on_grid_plane_3d (p d l u : arr R) (fac : R) (p0 p1 p2 p3 : arr R) :
  vec3 p -> vec3 d -> vec3 l -> vec3 u ->
  get 0 l [0%Z] <= get 0 p [0%Z] <= get 0 u [0%Z] -> get 0 l [1%Z] <= get 0 p [1%Z] <= get 0 u [1%Z] ->
  get 0 l [2%Z] <= get 0 p [2%Z] <= get 0 u [2%Z] ->
  in_hull z nz (get 0 l [0%Z]) -> in_hull z nz (get 0 u [0%Z]) ->
  in_hull x nx (get 0 l [1%Z]) -> in_hull x nx (get 0 u [1%Z]) ->
  in_hull y ny (get 0 l [2%Z]) -> in_hull y ny (get 0 u [2%Z]) ->
  fac = FteikCommon.shrink p d l u -> fac < 1 ->
  p0 = amap2 nsub p (amap (fun e : R => nmul fac e) d) ->
  p1 = set p0 [0%Z] (pymin2 (pymax2 (get (nofZ 0) p0 [0%Z]) (get (nofZ 0) z [0%Z]))
                            (get (nofZ 0) z [(dim z 0%nat - 1)%Z])) ->
  p2 = set p1 [1%Z] (pymin2 (pymax2 (get (nofZ 0) p1 [1%Z]) (get (nofZ 0) x [0%Z]))
                            (get (nofZ 0) x [(dim x 0%nat - 1)%Z])) ->
  p3 = set p2 [2%Z] (pymin2 (pymax2 (get (nofZ 0) p2 [2%Z]) (get (nofZ 0) y [0%Z]))
                            (get (nofZ 0) y [(dim y 0%nat - 1)%Z])) ->
  0 <= fac /\
  ((get 0 p3 [0%Z] = get 0 l [0%Z] \/ get 0 p3 [0%Z] = get 0 u [0%Z]) \/
   (get 0 p3 [1%Z] = get 0 l [1%Z] \/ get 0 p3 [1%Z] = get 0 u [1%Z]) \/
   (get 0 p3 [2%Z] = get 0 l [2%Z] \/ get 0 p3 [2%Z] = get 0 u [2%Z])).
Proof.
  intros Vp Vd Vl Vu B0 B1 B2 Hl0 Hu0 Hl1 Hu1 Hl2 Hu2 Efac Hfac Ep0 Ep1 Ep2 Ep3.
  unfold in_hull in Hl0, Hu0, Hl1, Hu1, Hl2, Hu2.
  destruct (step_point3 p d fac Vp Vd) as (Vp0 & P00 & P01 & P02). rewrite <- Ep0 in Vp0, P00, P01, P02.
  destruct (clamp3_R p0 Vp0) as (Vp3 & P30 & P31 & P32). cbv zeta in Vp3, P30, P31, P32.
  rewrite <- Ep1 in Vp3, P30, P31, P32. rewrite <- Ep2 in Vp3, P30, P31, P32.
  rewrite <- Ep3 in Vp3, P30, P31, P32.
  destruct (get_nth3 p Vp) as (Np0 & Np1 & Np2). destruct (get_nth3 d Vd) as (Nd0 & Nd1 & Nd2).
  destruct (get_nth3 l Vl) as (Nl0 & Nl1 & Nl2). destruct (get_nth3 u Vu) as (Nu0 & Nu1 & Nu2).
  assert (Fl : Forall2 Rle (dat l) (dat p)) by (apply vec3_Forall2; tauto).
  assert (Fu : Forall2 Rle (dat p) (dat u)) by (apply vec3_Forall2; tauto).
  split. { rewrite Efac. apply (shrink_range p d l u Fl Fu). }
  destruct (shrink_attained p d l u Fl Fu) as [(E & _)|[(k & K1 & _ & _ & _ & _ & _ & Ke)|(k & K1 & _ & _ & _ & _ & _ & Ke)]];
    rewrite <- Efac in *; [lra| |].
  - rewrite (proj2 Vp) in K1. destruct k as [|[|[|k]]]; [| | |lia].
    + left; left. rewrite P30, P00, Np0, Nd0, Ke, <- Nl0. apply clamp_R_id. lra.
    + right; left; left. rewrite P31, P01, Np1, Nd1, Ke, <- Nl1. apply clamp_R_id. lra.
    + right; right; left. rewrite P32, P02, Np2, Nd2, Ke, <- Nl2. apply clamp_R_id. lra.
  - rewrite (proj2 Vp) in K1. destruct k as [|[|[|k]]]; [| | |lia].
    + left; right. rewrite P30, P00, Np0, Nd0, Ke, <- Nu0. apply clamp_R_id. lra.
    + right; left; right. rewrite P31, P01, Np1, Nd1, Ke, <- Nu1. apply clamp_R_id. lra.
    + right; right; right. rewrite P32, P02, Np2, Nd2, Ke, <- Nu2. apply clamp_R_id. lra.
Qed.

(* a stored vertex *)
Lemma vertex_step3 c d0 n0 d l p r u fac p0 p1 p2 p3 p4 body i j k l1 l2 l3 u1 u2 u3 r' :
  GInv3 (c, d0, l, n0, p, r, u) ->
  r' = set_sub r [c] p4 ->
  u3 = set u2 [2%Z] (get (nofZ 0) y [Z.min (k + 1) (dim y 0%nat - 1)]) ->
  u2 = set u1 [1%Z] (get (nofZ 0) x [Z.min (j + 1) (dim x 0%nat - 1)]) ->
  u1 = set u [0%Z] (get (nofZ 0) z [Z.min (i + 1) (dim z 0%nat - 1)]) ->
  l3 = set l2 [2%Z] (if neqb (get (nofZ 0) p4 [2%Z]) (get (nofZ 0) y [k])
                     then get (nofZ 0) y [Z.max (k - 1) 0] else get (nofZ 0) y [k]) ->
  l2 = set l1 [1%Z] (if neqb (get (nofZ 0) p4 [1%Z]) (get (nofZ 0) x [j])
                     then get (nofZ 0) x [Z.max (j - 1) 0] else get (nofZ 0) x [j]) ->
  l1 = set l [0%Z] (if neqb (get (nofZ 0) p4 [0%Z]) (get (nofZ 0) z [i])
                    then get (nofZ 0) z [Z.max (i - 1) 0] else get (nofZ 0) z [i]) ->
  k = (searchsorted_right y (get (nofZ 0) p4 [2%Z]) - 1)%Z ->
  j = (searchsorted_right x (get (nofZ 0) p4 [1%Z]) - 1)%Z ->
  i = (searchsorted_right z (get (nofZ 0) p4 [0%Z]) - 1)%Z ->
  p4 = for_list (pyrange 0 3 1) body p3 ->
  p3 = set p2 [2%Z] (pymin2 (pymax2 (get (nofZ 0) p2 [2%Z]) (get (nofZ 0) y [0%Z]))
                            (get (nofZ 0) y [(dim y 0%nat - 1)%Z])) ->
  p2 = set p1 [1%Z] (pymin2 (pymax2 (get (nofZ 0) p1 [1%Z]) (get (nofZ 0) x [0%Z]))
                            (get (nofZ 0) x [(dim x 0%nat - 1)%Z])) ->
  p1 = set p0 [0%Z] (pymin2 (pymax2 (get (nofZ 0) p0 [0%Z]) (get (nofZ 0) z [0%Z]))
                            (get (nofZ 0) z [(dim z 0%nat - 1)%Z])) ->
  p0 = amap2 nsub p (amap (fun e : R => nmul fac e) d) ->
  fac = FteikCommon.shrink p d l u ->
  nltb fac (nofZ 1) = true ->
  vec3 d -> magnet_body l u body -> (c < max_step)%Z ->
  GInv3 ((c + 1)%Z, d, l3, 0%Z, p4, r', u3).
Proof.
  intros G Er Eu3 Eu2 Eu1 El3 El2 El1 Ek Ej Ei Ep4 Ep3 Ep2 Ep1 Ep0 Efac Hfac Vd Hb Hlt.
  pose proof G as (Rok & Vp & _ & Vl & Vu & Gl0 & Gu0 & Gl1 & Gu1 & Gl2 & Gu2 & B0 & B1 & B2 & Rows).
  cbn [s_count s_delta s_lower s_nfree s_pcur s_ray s_upper fst snd] in *.
  pose proof (on_grid_hull _ _ _ Hz Gl0) as Hl0. pose proof (on_grid_hull _ _ _ Hz Gu0) as Hu0.
  pose proof (on_grid_hull _ _ _ Hx Gl1) as Hl1. pose proof (on_grid_hull _ _ _ Hx Gu1) as Hu1.
  pose proof (on_grid_hull _ _ _ Hy Gl2) as Hl2. pose proof (on_grid_hull _ _ _ Hy Gu2) as Hu2.
  unfold in_hull in Hl0, Hu0, Hl1, Hu1, Hl2, Hu2.
  pose proof (hull_le z nz Hnz Hz) as Zle. pose proof (hull_le x nx Hnx Hx) as Xle.
  pose proof (hull_le y ny Hny Hy) as Yle.
  cbn [nltb nofZ NumR] in Hfac. apply Rltb_true in Hfac.
  (* the point before clamping *)
  destruct (step_point3 p d fac Vp Vd) as (Vp0 & P00 & P01 & P02). rewrite <- Ep0 in Vp0, P00, P01, P02.
  (* the clamps *)
  destruct (clamp3_R p0 Vp0) as (Vp3 & P30 & P31 & P32). cbv zeta in Vp3, P30, P31, P32.
  rewrite <- Ep1 in Vp3, P30, P31, P32. rewrite <- Ep2 in Vp3, P30, P31, P32.
  rewrite <- Ep3 in Vp3, P30, P31, P32.
  pose proof (clamp_R_in (get 0 z [0%Z]) (get 0 z [(nz - 1)%Z]) (get 0 p0 [0%Z]) Zle) as C0.
  pose proof (clamp_R_in (get 0 x [0%Z]) (get 0 x [(nx - 1)%Z]) (get 0 p0 [1%Z]) Xle) as C1.
  pose proof (clamp_R_in (get 0 y [0%Z]) (get 0 y [(ny - 1)%Z]) (get 0 p0 [2%Z]) Yle) as C2.
  rewrite <- P30 in C0. rewrite <- P31 in C1. rewrite <- P32 in C2.
  (* magnetism *)
  assert (Vp4 : vec3 p4).
  { rewrite Ep4. apply vec3_for_list; [|exact Vp3]. intros ix q Hq.
    destruct (Hb ix q) as [E|[E|E]]; rewrite E; [exact Hq|apply vec3_set; exact Hq|apply vec3_set; exact Hq]. }
  destruct (magnet_for_list3 l u body p3 Hb Vp3) as (M0 & M1 & M2). rewrite <- Ep4 in M0, M1, M2.
  unfold magnet_of in M0, M1, M2. cbn [nofZ NumR] in M0, M1, M2.
  assert (H40 : in_hull z nz (get 0 p4 [0%Z])).
  { unfold in_hull. destruct M0 as [E|[E|E]]; rewrite E; lra. }
  assert (H41 : in_hull x nx (get 0 p4 [1%Z])).
  { unfold in_hull. destruct M1 as [E|[E|E]]; rewrite E; lra. }
  assert (H42 : in_hull y ny (get 0 p4 [2%Z])).
  { unfold in_hull. destruct M2 as [E|[E|E]]; rewrite E; lra. }
  assert (OnP : on_grid z nz (get 0 p4 [0%Z]) \/ on_grid x nx (get 0 p4 [1%Z]) \/ on_grid y ny (get 0 p4 [2%Z])).
  { destruct (vertex_on_grid_plane_3d p d l u fac p0 p1 p2 p3 Vp Vd Vl Vu B0 B1 B2 Hl0 Hu0 Hl1 Hu1 Hl2 Hu2
                Efac Hfac Ep0 Ep1 Ep2 Ep3) as [_ [[A|A]|[[A|A]|[A|A]]]].
    - left. destruct M0 as [E|[E|E]]; rewrite E, ?A; assumption.
    - left. destruct M0 as [E|[E|E]]; rewrite E, ?A; assumption.
    - right; left. destruct M1 as [E|[E|E]]; rewrite E, ?A; assumption.
    - right; left. destruct M1 as [E|[E|E]]; rewrite E, ?A; assumption.
    - right; right. destruct M2 as [E|[E|E]]; rewrite E, ?A; assumption.
    - right; right. destruct M2 as [E|[E|E]]; rewrite E, ?A; assumption. }
  (* the new cell *)
  pose proof (cell_facts_R z nz (get 0 p4 [0%Z]) Az Hnz H40) as Cz.
  pose proof (cell_facts_R x nx (get 0 p4 [1%Z]) Ax Hnx H41) as Cx.
  pose proof (cell_facts_R y ny (get 0 p4 [2%Z]) Ay Hny H42) as Cy.
  cbv zeta in Cz, Cx, Cy. cbn [nofZ NumR] in Cz, Cx, Cy, Ei, Ej, Ek, El1, El2, El3, Eu1, Eu2, Eu3.
  rewrite <- Ei in Cz. rewrite <- Ej in Cx. rewrite <- Ek in Cy.
  destruct Cz as (Zlo & Zup & Zbox). destruct Cx as (Xlo & Xup & Xbox). destruct Cy as (Ylo & Yup & Ybox).
  assert (Vl3 : vec3 l3) by (rewrite El3, El2, El1; apply vec3_set, vec3_set, vec3_set, Vl).
  assert (Vu3 : vec3 u3) by (rewrite Eu3, Eu2, Eu1; apply vec3_set, vec3_set, vec3_set, Vu).
  assert (GL : get 0 l3 [0%Z] = (if neqb (get 0 p4 [0%Z]) (get 0 z [i]) then get 0 z [Z.max (i - 1) 0] else get 0 z [i]) /\
               get 0 l3 [1%Z] = (if neqb (get 0 p4 [1%Z]) (get 0 x [j]) then get 0 x [Z.max (j - 1) 0] else get 0 x [j]) /\
               get 0 l3 [2%Z] = (if neqb (get 0 p4 [2%Z]) (get 0 y [k]) then get 0 y [Z.max (k - 1) 0] else get 0 y [k])).
  { rewrite El3, El2, El1. apply get_set3. exact Vl. }
  assert (GU : get 0 u3 [0%Z] = get 0 z [Z.min (i + 1) (dim z 0%nat - 1)] /\
               get 0 u3 [1%Z] = get 0 x [Z.min (j + 1) (dim x 0%nat - 1)] /\
               get 0 u3 [2%Z] = get 0 y [Z.min (k + 1) (dim y 0%nat - 1)]).
  { rewrite Eu3, Eu2, Eu1. apply get_set3. exact Vu. }
  destruct GL as (GL0 & GL1 & GL2). destruct GU as (GU0 & GU1 & GU2).
  (* the buffer *)
  destruct (ray3_ok_set_sub zend xend yend max_step (c, d0, l, n0, p, r, u) p4 Rok Hlt Vp4)
    as (R1 & R2 & R3 & R5 & R6 & R7).
  cbn [s_count s_ray fst snd nofZ NumR] in R1, R2, R3, R5, R6, R7. rewrite <- Er in R1, R2, R3, R5, R6, R7.
  unfold GInv3. cbn [s_count s_delta s_lower s_nfree s_pcur s_ray s_upper fst snd].
  rewrite GL0, GL1, GL2, GU0, GU1, GU2.
  split. { destruct Rok as (Hc & _). cbn [s_count fst snd] in Hc. unfold ray3_ok.
           cbn [s_count s_ray fst snd nofZ NumR].
           split; [lia|]. split; [exact R1|]. split; [exact R2|exact R3]. }
  split; [exact Vp4|]. split; [exact Vd|]. split; [exact Vl3|]. split; [exact Vu3|].
  split; [exact Zlo|]. split; [exact Zup|]. split; [exact Xlo|]. split; [exact Xup|].
  split; [exact Ylo|]. split; [exact Yup|].
  split; [exact Zbox|]. split; [exact Xbox|]. split; [exact Ybox|].
  intros k0 Hk. destruct (Z.eq_dec k0 c) as [->|Hne].
  - unfold on_plane. rewrite R5, R6, R7. exact OnP.
  - destruct Rok as (Hc & Hsh & Hwf & _). cbn [s_count s_ray fst snd] in Hc, Hsh, Hwf.
    unfold on_plane. rewrite Er.
    rewrite !(get_set_sub_other 0 r p4 max_step 3 c k0) by (auto; try lia; apply Vp4).
    apply Rows. lia.
Qed.

(* a free step (factor >= 1): the point moves by the full step and stays in its cell *)
Lemma free_step3 c d0 n0 d l p r u fac p0 p1 p2 p3 :
  GInv3 (c, d0, l, n0, p, r, u) ->
  p3 = set p2 [2%Z] (pymin2 (pymax2 (get (nofZ 0) p2 [2%Z]) (get (nofZ 0) y [0%Z]))
                            (get (nofZ 0) y [(dim y 0%nat - 1)%Z])) ->
  p2 = set p1 [1%Z] (pymin2 (pymax2 (get (nofZ 0) p1 [1%Z]) (get (nofZ 0) x [0%Z]))
                            (get (nofZ 0) x [(dim x 0%nat - 1)%Z])) ->
  p1 = set p0 [0%Z] (pymin2 (pymax2 (get (nofZ 0) p0 [0%Z]) (get (nofZ 0) z [0%Z]))
                            (get (nofZ 0) z [(dim z 0%nat - 1)%Z])) ->
  p0 = amap2 nsub p (amap (fun e : R => nmul fac e) d) ->
  fac = FteikCommon.shrink p d l u ->
  nltb fac (nofZ 1) = false ->
  vec3 d ->
  GInv3 (c, d, l, (n0 + 1)%Z, p3, r, u).
Proof.
  intros G Ep3 Ep2 Ep1 Ep0 Efac Hfac Vd.
  pose proof G as (Rok & Vp & _ & Vl & Vu & Gl0 & Gu0 & Gl1 & Gu1 & Gl2 & Gu2 & B0 & B1 & B2 & Rows).
  cbn [s_count s_delta s_lower s_nfree s_pcur s_ray s_upper fst snd] in *.
  pose proof (on_grid_hull _ _ _ Hz Gl0) as Hl0. pose proof (on_grid_hull _ _ _ Hz Gu0) as Hu0.
  pose proof (on_grid_hull _ _ _ Hx Gl1) as Hl1. pose proof (on_grid_hull _ _ _ Hx Gu1) as Hu1.
  pose proof (on_grid_hull _ _ _ Hy Gl2) as Hl2. pose proof (on_grid_hull _ _ _ Hy Gu2) as Hu2.
  unfold in_hull in Hl0, Hu0, Hl1, Hu1, Hl2, Hu2.
  cbn [nltb nofZ NumR] in Hfac. apply Rltb_false in Hfac.
  destruct (step_point3 p d fac Vp Vd) as (Vp0 & P00 & P01 & P02). rewrite <- Ep0 in Vp0, P00, P01, P02.
  destruct (get_nth3 p Vp) as (Np0 & Np1 & Np2). destruct (get_nth3 d Vd) as (Nd0 & Nd1 & Nd2).
  destruct (get_nth3 l Vl) as (Nl0 & Nl1 & Nl2). destruct (get_nth3 u Vu) as (Nu0 & Nu1 & Nu2).
  assert (Fl : Forall2 Rle (dat l) (dat p)) by (apply vec3_Forall2; tauto).
  assert (Fu : Forall2 Rle (dat p) (dat u)) by (apply vec3_Forall2; tauto).
  rewrite Efac in Hfac. destruct (shrink_ge1_inside p d l u Fl Fu Hfac) as [E1 Hin].
  rewrite <- Efac in E1.
  pose proof (Hin 0%nat ltac:(rewrite (proj2 Vp); lia) ltac:(rewrite (proj2 Vd); lia)) as I0.
  pose proof (Hin 1%nat ltac:(rewrite (proj2 Vp); lia) ltac:(rewrite (proj2 Vd); lia)) as I1.
  pose proof (Hin 2%nat ltac:(rewrite (proj2 Vp); lia) ltac:(rewrite (proj2 Vd); lia)) as I2.
  rewrite <- Np0, <- Nd0, <- Nl0, <- Nu0 in I0. rewrite <- Np1, <- Nd1, <- Nl1, <- Nu1 in I1.
  rewrite <- Np2, <- Nd2, <- Nl2, <- Nu2 in I2.
  destruct (clamp3_R p0 Vp0) as (Vp3 & P30 & P31 & P32). cbv zeta in Vp3, P30, P31, P32.
  rewrite <- Ep1 in Vp3, P30, P31, P32. rewrite <- Ep2 in Vp3, P30, P31, P32.
  rewrite <- Ep3 in Vp3, P30, P31, P32.
  rewrite clamp_R_id in P30 by (rewrite P00, E1; lra).
  rewrite clamp_R_id in P31 by (rewrite P01, E1; lra).
  rewrite clamp_R_id in P32 by (rewrite P02, E1; lra).
  unfold GInv3. cbn [s_count s_delta s_lower s_nfree s_pcur s_ray s_upper fst snd].
  split; [exact Rok|]. split; [exact Vp3|]. split; [exact Vd|]. split; [exact Vl|]. split; [exact Vu|].
  split; [exact Gl0|]. split; [exact Gu0|]. split; [exact Gl1|]. split; [exact Gu1|].
  split; [exact Gl2|]. split; [exact Gu2|].
  rewrite P30, P31, P32, P00, P01, P02, E1. split; [lra|]. split; [lra|]. split; [lra|]. exact Rows.
Qed.

(* the initial state *)
Lemma init_G3 :
  in_hull z nz zend -> in_hull x nx xend -> in_hull y ny yend -> (1 <= max_step)%Z ->
  let i := (searchsorted_right z zend - 1)%Z in
  let j := (searchsorted_right x xend - 1)%Z in
  let k := (searchsorted_right y yend - 1)%Z in
  GInv3 (1%Z, full [3%Z] (nofZ 0),
         of_list [if neqb zend (get (nofZ 0) z [i]) then get (nofZ 0) z [Z.max (i - 1) 0] else get (nofZ 0) z [i];
                  if neqb xend (get (nofZ 0) x [j]) then get (nofZ 0) x [Z.max (j - 1) 0] else get (nofZ 0) x [j];
                  if neqb yend (get (nofZ 0) y [k]) then get (nofZ 0) y [Z.max (k - 1) 0] else get (nofZ 0) y [k]],
         0%Z, of_list [zend; xend; yend],
         set_sub (full [max_step; 3%Z] (nofZ 0)) [0%Z] (of_list [zend; xend; yend]),
         of_list [get (nofZ 0) z [Z.min (i + 1) (dim z 0%nat - 1)];
                  get (nofZ 0) x [Z.min (j + 1) (dim x 0%nat - 1)];
                  get (nofZ 0) y [Z.min (k + 1) (dim y 0%nat - 1)]]).
Proof.
  intros Hzend Hxend Hyend Hms i j k.
  destruct (cell_facts_R z nz zend Az Hnz Hzend) as (Zlo & Zup & Zbox).
  destruct (cell_facts_R x nx xend Ax Hnx Hxend) as (Xlo & Xup & Xbox).
  destruct (cell_facts_R y ny yend Ay Hny Hyend) as (Ylo & Yup & Ybox).
  fold i in Zlo, Zup, Zbox. fold j in Xlo, Xup, Xbox. fold k in Ylo, Yup, Ybox.
  unfold GInv3. cbn [s_count s_delta s_lower s_nfree s_pcur s_ray s_upper fst snd].
  split. { apply ray3_ok_init; try reflexivity; lia. }
  split; [apply vec3_of_list|]. split; [apply vec3_full|]. split; [apply vec3_of_list|]. split; [apply vec3_of_list|].
  split; [exact Zlo|]. split; [exact Zup|]. split; [exact Xlo|]. split; [exact Xup|].
  split; [exact Ylo|]. split; [exact Yup|].
  split; [exact Zbox|]. split; [exact Xbox|]. split; [exact Ybox|]. intros k0 Hk. lia.
Qed.

(* after the loop *)
Lemma final_G3 s1 zsrc xsrc ysrc nfm ray count :
  GInv3 s1 -> fin3 zsrc xsrc ysrc max_step nfm s1 = Ok (ray, count) ->
  forall k : Z, (1 <= k < count)%Z -> on_plane ray k.
Proof.
  intros (Rok & _ & _ & _ & _ & _ & _ & _ & _ & _ & _ & _ & _ & _ & Rows) Hf k Hk. unfold fin3 in Hf.
  destruct ((max_step <=? s_count s1)%Z || _) eqn:Eb; injection Hf as <- <-; [lia|].
  apply orb_false_elim in Eb. destruct Eb as [Eb _]. apply Z.leb_gt in Eb.
  destruct Rok as (Hc & Hsh & Hwf & _). unfold on_plane.
  rewrite !(get_set_sub_other 0 (s_ray s1) (of_list [zsrc; xsrc; ysrc]) max_step 3 (s_count s1) k)
    by (auto; try lia; reflexivity).
  apply Rows. exact Hk.
Qed.
End GridR3.

Lemma core_val_shape3 {A} (P : A -> Prop) (cz cx cy : bool) (a rest : A) :
  P a -> (cz = true -> cx = true -> cy = true -> P rest) ->
  P (let condz := cz in let condx := cx in let condy := cy in
     if negb (condz && condx && condy) then a else rest).
Proof. intros Ha Hr. cbv zeta. destruct cz, cx, cy; cbn [andb negb]; auto. Qed.

Section GridMain3.
Local Open Scope R_scope.
Variables (z x y zgrad xgrad ygrad : arr R) (nz nx ny : Z).
Hypothesis (Az : axisn z nz) (Ax : axisn x nx) (Ay : axisn y ny).
Hypothesis (Hnz : (1 <= nz)%Z) (Hnx : (1 <= nx)%Z) (Hny : (1 <= ny)%Z).
Hypothesis (Hz : axis_hull z nz) (Hx : axis_hull x nx) (Hy : axis_hull y ny).

Ltac zeta_all3 t :=
  lazymatch t with
  | (let x := ?v in @?F x) =>
      let v' := eval cbv beta zeta iota delta [u_ray3d_core_v_p1 fst snd] in v in
      let t' := eval cbv beta in (F v') in
      zeta_all3 t'
  | _ => t
  end.

Ltac ghook3 x0 Hx :=
  lazymatch type of Hx with _ = ?v =>
    tryif is_var v then subst x0 else
    lazymatch type of x0 with
    | Z => lazymatch v with
           | (searchsorted_right _ _ - 1)%Z => idtac
           | _ => subst x0
           end
    | _ => idtac
    end
  end.

Ltac vec3_chain :=
  repeat (lazymatch goal with
          | |- vec3 ?a => match goal with Ha : a = set _ _ _ |- _ => rewrite Ha; apply vec3_set end
          end);
  assumption.
Ltac budget3 :=
  match goal with
  | E : ((_ <=? _)%Z || _) = false |- _ =>
      apply orb_false_elim in E; destruct E as [E _]; apply Z.leb_gt in E; exact E
  end.
Ltac mbody3 :=
  let ix := fresh "ix" in let q := fresh "q" in
  intros ix q; cbv beta zeta;
  repeat (match goal with |- context [if ?c then _ else _] => destruct c end); auto.

Ltac gleaf3 Hs0 :=
  idtac;
  lazymatch goal with |- post ?Q (_ ?tup) => change (Q tup) end;
  first
  [ exact Hs0
  | eapply vertex_step3; first [ exact Hs0 | eassumption | vec3_chain | mbody3 | budget3 ]
  | eapply free_step3; first [ exact Hs0 | eassumption | vec3_chain ] ].

Theorem ray3d_vertices_on_grid_planes fuel zend xend yend zsrc xsrc ysrc stepsize max_step ray count :
  (1 <= max_step)%Z ->
  u_ray3d_core_v fuel z x y zgrad xgrad ygrad zend xend yend zsrc xsrc ysrc stepsize max_step true
  = Ok (ray, count) ->
  forall k : Z, (1 <= k < count)%Z -> on_plane z x y nz nx ny ray k.
Proof.
  intros Hms.
  cbv beta delta [u_ray3d_core_v].
  lazymatch goal with |- ?t = ?r -> ?C => change ((fun v => v = r -> C) t) end.
  apply core_val_shape3.
  - intros Hc. injection Hc as _ <-. intros k Hk. lia.
  - intros Ez Ex Ey. apply andb_prop in Ez, Ex, Ey.
    destruct Ez as [Ez1 Ez2]. destruct Ex as [Ex1 Ex2]. destruct Ey as [Ey1 Ey2].
    cbn [nleb nofZ NumR] in Ez1, Ez2, Ex1, Ex2, Ey1, Ey2. apply Rleb_true in Ez1, Ez2, Ex1, Ex2, Ey1, Ey2.
    rewrite (dim_0 _ _ _ (proj1 Az)) in Ez2. rewrite (dim_0 _ _ _ (proj1 Ax)) in Ex2.
    rewrite (dim_0 _ _ _ (proj1 Ay)) in Ey2.
    lazymatch goal with |- ?t = ?r -> ?C => let t' := zeta_all3 t in change_no_check (t' = r -> C) end.
    intros Hc.
    refine (rbind_while_post (GInv3 z x y nz nx ny zend xend yend max_step) _ _ _ _ _ _ _ _ _ _ Hc); clear Hc.
    + apply init_G3; try assumption; split; assumption.
    + intros s Hs0. pose proof Hs0 as (_ & _ & Vd & _).
      destruct s as [[[[[[c d] l] n] p] r] u].
      cbn [s_delta fst snd] in Vd. cbv beta.
      vwalk ghook3 ltac:(gleaf3 Hs0).
    + intros s1 G1 HK.
      exact (final_G3 z x y nz nx ny zend xend yend max_step s1 zsrc xsrc ysrc (nfree_max3 z x y stepsize)
                      ray count G1 HK).
Qed.
End GridMain3.

(* ========================================================================================== *)
(* non-vacuity                                                                                  *)
(* ========================================================================================== *)
(* ---------- PART B: the hypotheses hold on a concrete binary64 instance, the obligation really is evaluated (and
   true, as the theorem says), the list form really returns rays, and the shape hypothesis on p is needed ---------- *)
Local Open Scope float_scope.
Definition xb_ax3 : arr float := mkarr [3%Z] [0; 1; 2].
Definition xb_cst (v : float) : arr float := mkarr [3%Z; 3%Z; 3%Z] (repeat v 27).
Definition xb_p2 : arr float := mkarr [2%Z; 2%Z] [0.75; 0.75; 0.5; 0.75].
Definition xb_src2 : arr float := mkarr [2%Z] [0.125; 0.125].
Definition xb_p3 : arr float := mkarr [2%Z; 3%Z] [1.75; 1.625; 1.5; 1.25; 1.375; 1.375].
Definition xb_src3 : arr float := mkarr [3%Z] [0.25; 0.875; 1.125].

Lemma xb_axis_min2 : axis_min ex_ax 2.
Proof. intros k Hk. assert (E : k = 0%Z \/ k = 1%Z) by lia. destruct E as [->| ->]; vm_compute; reflexivity. Qed.
Lemma xb_axis_min3 : axis_min xb_ax3 3.
Proof.
  intros k Hk. assert (E : k = 0%Z \/ k = 1%Z \/ k = 2%Z) by lia.
  destruct E as [->|[->| ->]]; vm_compute; reflexivity.
Qed.

Example ray2d_n_ok_nonvacuous :
  (* hypotheses of ray2d_n_ok_true *)
  axisn ex_ax 2 /\ shape ex_grad = [2%Z; 2%Z] /\ shape xb_p2 = [2%Z; 2%Z] /\ shape xb_src2 = [2%Z] /\
  axis_min ex_ax 2 /\
  (* its conclusion (by the theorem), in grid-honouring mode *)
  ray2d_n_ok true false 200%nat ex_ax ex_ax ex_grad ex_grad xb_p2 xb_src2 0.25 20%Z true = true /\
  (* the call returns two rays (2 and 3 vertices) *)
  (match ray2d_n 200%nat ex_ax ex_ax ex_grad ex_grad xb_p2 xb_src2 0.25 20%Z true with
   | Ok l => map (fun a => shape a) l | _ => [] end) = [[2%Z; 2%Z]; [3%Z; 2%Z]].
Proof.
  split; [split; reflexivity|]. do 3 (split; [reflexivity|]). split; [exact xb_axis_min2|]. split.
  - apply (ray2d_n_ok_true ex_ax ex_ax ex_grad ex_grad 2 2) with (n := 2%Z);
      first [ split; reflexivity | reflexivity | lia | intros; split; exact xb_axis_min2 ].
  - vm_compute. reflexivity.
Qed.
(* p of shape [n; 1]: the column p[:, 1] does not exist *)
Example ray2d_n_ok_shape_needed :
  ray2d_n_ok true false 200%nat ex_ax ex_ax ex_grad ex_grad (mkarr [2%Z; 1%Z] [0.75; 0.5]) xb_src2 0.25 20%Z true
  = false.
Proof. vm_compute. reflexivity. Qed.

Example ray3d_n_ok_nonvacuous :
  axisn xb_ax3 3 /\ shape (xb_cst 1) = [3%Z; 3%Z; 3%Z] /\ shape xb_p3 = [2%Z; 3%Z] /\ shape xb_src3 = [3%Z] /\
  axis_min xb_ax3 3 /\
  ray3d_n_ok true false 200%nat xb_ax3 xb_ax3 xb_ax3 (xb_cst 1) (xb_cst 0.5) (xb_cst 0.25) xb_p3 xb_src3 0.25 20%Z true
  = true /\
  (match ray3d_n 200%nat xb_ax3 xb_ax3 xb_ax3 (xb_cst 1) (xb_cst 0.5) (xb_cst 0.25) xb_p3 xb_src3 0.25 20%Z true with
   | Ok l => map (fun a => shape a) l | _ => [] end) = [[4%Z; 3%Z]; [4%Z; 3%Z]].
Proof.
  split; [split; reflexivity|]. do 3 (split; [reflexivity|]). split; [exact xb_axis_min3|]. split.
  - apply (ray3d_n_ok_true xb_ax3 xb_ax3 xb_ax3 (xb_cst 1) (xb_cst 0.5) (xb_cst 0.25) 3 3 3) with (n := 2%Z);
      first [ split; reflexivity | reflexivity | lia | intros; repeat split; exact xb_axis_min3 ].
  - vm_compute. reflexivity.
Qed.
Example ray3d_n_ok_shape_needed :
  ray3d_n_ok true false 200%nat xb_ax3 xb_ax3 xb_ax3 (xb_cst 1) (xb_cst 0.5) (xb_cst 0.25)
             (mkarr [2%Z; 2%Z] [1.75; 1.625; 1.25; 1.375]) xb_src3 0.25 20%Z true = false.
Proof. vm_compute. reflexivity. Qed.

(* ---------- PART A: illustration in binary64 (the theorem itself is about R): a grid-honouring 3D ray with two
   interior vertices; vertex 1 lies exactly on the plane z = z[1], vertex 2 exactly on the plane x = x[1] ---------- *)
Example ray3d_float_run_vertices_on_planes :
  match u_ray3d_core_v 200%nat xb_ax3 xb_ax3 xb_ax3 (xb_cst 1) (xb_cst 0.5) (xb_cst 0.25)
                       1.75 1.625 1.5 0.25 0.875 1.125 0.25 20%Z true with
  | Ok (ray, count) =>
      (count =? 3)%Z && PrimFloat.eqb (get 0 ray [1%Z; 0%Z]) (get 0 xb_ax3 [1%Z])
                     && PrimFloat.eqb (get 0 ray [2%Z; 1%Z]) (get 0 xb_ax3 [1%Z])
  | _ => false
  end = true.
Proof. vm_compute. reflexivity. Qed.
Local Close Scope float_scope.

(* the hypotheses of ray3d_vertices_on_grid_planes are satisfiable: a real axis with three nodes *)
Definition xa_ax : arr R := mkarr [3%Z] [0%R; 1%R; 2%R].
Lemma xa_axisn : axisn xa_ax 3. Proof. split; reflexivity. Qed.
Lemma xa_axis_hull : axis_hull xa_ax 3.
Proof.
  intros k Hk. assert (E : k = 0%Z \/ k = 1%Z \/ k = 2%Z) by lia.
  destruct E as [->|[->| ->]].
  - change ((0 <= 0 <= 2)%R). lra.
  - change ((0 <= 1 <= 2)%R). lra.
  - change ((0 <= 2 <= 2)%R). lra.
Qed.
Example ray3d_vertices_on_grid_planes_nonvacuous :
  axisn xa_ax 3 /\ axis_hull xa_ax 3 /\
  forall fuel zgrad xgrad ygrad zend xend yend zsrc xsrc ysrc stepsize ray count,
    u_ray3d_core_v fuel xa_ax xa_ax xa_ax zgrad xgrad ygrad zend xend yend zsrc xsrc ysrc stepsize 20%Z true
    = Ok (ray, count) ->
    forall k : Z, 1 <= k < count -> on_plane xa_ax xa_ax xa_ax 3 3 3 ray k.
Proof.
  split; [exact xa_axisn|]. split; [exact xa_axis_hull|]. intros.
  eapply (ray3d_vertices_on_grid_planes xa_ax xa_ax xa_ax zgrad xgrad ygrad 3 3 3 xa_axisn xa_axisn xa_axisn);
    try eassumption; try lia; exact xa_axis_hull.
Qed.

Print Assumptions ray2d_vectorized_ok_true.
Print Assumptions ray2d_n_ok_true.
Print Assumptions ray3d_vectorized_ok_true.
Print Assumptions ray3d_n_ok_true.
Print Assumptions vertex_on_grid_plane_3d.
Print Assumptions ray3d_vertices_on_grid_planes.
Print Assumptions ray2d_n_ok_nonvacuous.
Print Assumptions ray3d_n_ok_nonvacuous.
Print Assumptions ray3d_float_run_vertices_on_planes.
Print Assumptions ray3d_vertices_on_grid_planes_nonvacuous.
