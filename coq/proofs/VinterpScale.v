(* Unit invariance of the interpolation kernels (exact real arithmetic, T := R, instance NumR).

   LENGTH unit:   every axis node, the query point and the source multiplied by c > 0, node times multiplied by c
                  (velocities unchanged), same vzero, same fill value:
                      _vinterp2d / _vinterp3d return c * (reference result)   inside the hull,  fval outside (both runs).
   SLOWNESS unit: same axes / query / source, node times and vzero multiplied by c <> 0:
                      _vinterp2d / _vinterp3d return c * (reference result)   inside the hull,  fval outside (both runs).
   _interp2d / _interp3d (gradient grids, velocity model): axes and query multiplied by c > 0, same node values:
                      the SAME result, for every query point.
   searchsorted(side="right") commutes with the scaling of the axis and of the query by c > 0.

   MAIN RESULTS
     ssr_scale                                         (V1)
     vinterp2d_scale, vinterp3d_scale                  both units at once: lengths by cl > 0, vzero by cz <> 0, times by
                                                       cl cz: result' = if in hull then cl cz * result else fval
     vinterp2d_scale_length,   vinterp3d_scale_length  (V2), (V4)   = the case cz = 1
     vinterp2d_scale_slowness, vinterp3d_scale_slowness (V3), (V5)  = the case cl = 1
     vinterp2d_scale_outside,  vinterp3d_scale_outside  outside the hull BOTH runs return fval (inhullb_scale: the hull
                                                       test itself is the same in both runs)
     interp2d_scale, interp3d_scale                    (V6)
     interp2d_scale_values, interp3d_scale_values      complement: node values by any c, same axes: c * result in the hull
                                                       (this one needs well-formed axes, see section 9)
   `inhullb a q` (TranslateR.v) is the kernels' own test  a[0] <= q <= a[-1].

   NO hypothesis on the arrays in (V1)-(V6): the statements hold for every `arr R` (any shape, any length of the data
   list, axes not sorted, times zero or negative, source anywhere), every query and in every branch of the kernels
   (outside, source's cell, zero corner time, far faces with their dummy corners d = 0.0 / t = 1.0, generic cell).
   Reason: every test in the kernels is a comparison between two lengths (or of a time with 0.0), the only absolute
   constants are 0.0, 1.0 (dummy corners: the quotient 0.0 / 1.0 is the same in both runs) and 2.0 (mirror node
   2 x1 - x[-2], homogeneous of degree 1); there is no absolute epsilon.  Over R division is total (x / 0 = x * / 0)
   and / (a * b) = / a * / b holds unconditionally (Coq >= 8.16), which is why no non-degeneracy hypothesis is needed.
   `scale_arr c a` multiplies every stored entry by c; reading outside the stored data gives the default 0 = c * 0. *)
From Coq Require Import ZArith List Bool Reals Lra Lia Psatz Field.
From FT.lib Require Import Num Arr NumArr ArrLemmas.
From FT.gen Require Import Common Interp2d Interp3d Vinterp2d Vinterp3d.
From FT.proofs Require Import SSR InterpR Interp3R VinterpR Vinterp3R TranslateR.
Import ListNotations.
Open Scope R_scope.

(* ================================================================== *)
(* 1. the scaled array                                                  *)
(* ================================================================== *)
Definition scale_arr (c : R) (a : arr R) : arr R := amap (Rmult c) a.

Lemma scale_shape c a : shape (scale_arr c a) = shape a.
Proof. reflexivity. Qed.
Lemma scale_dat c a : dat (scale_arr c a) = map (Rmult c) (dat a).
Proof. reflexivity. Qed.
Lemma scale_dim c a k : dim (scale_arr c a) k = dim a k.
Proof. reflexivity. Qed.

(* EVERY multi-index, stored or not (the default value 0 is a fixed point of the scaling) *)
Lemma scale_get c a idx : get 0 (scale_arr c a) idx = c * get 0 a idx.
Proof.
  unfold get. rewrite scale_shape, scale_dat.
  transitivity (nth (Z.to_nat (flat (shape a) idx)) (map (Rmult c) (dat a)) (c * 0)).
  - f_equal. ring.
  - apply (map_nth (Rmult c)).
Qed.

Lemma scale_arr_1 a : scale_arr 1 a = a.
Proof.
  destruct a as [sh l]. unfold scale_arr, amap. cbn [shape dat]. f_equal.
  rewrite <- (map_id l) at 2. apply map_ext. intros r. apply Rmult_1_l.
Qed.
Lemma scale_arr_mul a b x : scale_arr a (scale_arr b x) = scale_arr (a * b) x.
Proof.
  unfold scale_arr, amap. cbn [shape dat]. f_equal. rewrite map_map. apply map_ext. intros r. ring.
Qed.

Lemma axis_scale c x n : 0 < c -> axis x n -> axis (scale_arr c x) n.
Proof.
  intros Hc (S & L & N & Asc). repeat split.
  - exact S.
  - rewrite scale_dat, map_length. exact L.
  - exact N.
  - intros i j Hij. rewrite !scale_get. apply Rmult_lt_compat_l; [exact Hc | apply Asc; exact Hij].
Qed.

(* ================================================================== *)
(* 2. comparisons, distances, absolute values under scaling             *)
(* ================================================================== *)
Lemma Rltb_scale c a b : 0 < c -> Rltb (c * a) (c * b) = Rltb a b.
Proof.
  intros Hc. destruct (Rltb a b) eqn:E.
  - apply Rltb_true in E. apply Rltb_true. apply Rmult_lt_compat_l; assumption.
  - apply Rltb_false in E. apply Rltb_false. apply Rmult_le_compat_l; lra.
Qed.
Lemma Rleb_scale c a b : 0 < c -> Rleb (c * a) (c * b) = Rleb a b.
Proof.
  intros Hc. destruct (Rleb a b) eqn:E.
  - apply Rleb_true in E. apply Rleb_true. apply Rmult_le_compat_l; lra.
  - apply Rleb_false in E. apply Rleb_false. apply Rmult_lt_compat_l; assumption.
Qed.
(* the only test on a time: t == 0.0 *)
Lemma Reqb_scale0 c a : c <> 0 -> Reqb (c * a) 0 = Reqb a 0.
Proof.
  intros Hc. destruct (Reqb a 0) eqn:E.
  - apply Reqb_true in E. apply Reqb_true. subst a. ring.
  - apply Reqb_false in E. apply Reqb_false. intros Z0. apply Rmult_integral in Z0. tauto.
Qed.

Lemma sqrt_scale c s : 0 <= c -> 0 <= s -> R_sqrt.sqrt (c * c * s) = c * R_sqrt.sqrt s.
Proof.
  intros Hc Hs. rewrite sqrt_mult by nra. rewrite sqrt_square by exact Hc. reflexivity.
Qed.
Lemma dist2d_scale c a b d e : 0 <= c -> dist2d (c * a) (c * b) (c * d) (c * e) = c * dist2d a b d e.
Proof.
  intros Hc. rewrite !dist2d_R. rewrite <- sqrt_scale; [f_equal; ring | exact Hc |].
  pose proof (pow2_ge_0 (a - d)). pose proof (pow2_ge_0 (b - e)). lra.
Qed.
Lemma dist3d_scale c a b g d e f : 0 <= c ->
  dist3d (c * a) (c * b) (c * g) (c * d) (c * e) (c * f) = c * dist3d a b g d e f.
Proof.
  intros Hc. rewrite !dist3d_R. rewrite <- sqrt_scale; [f_equal; ring | exact Hc |].
  pose proof (pow2_ge_0 (a - d)). pose proof (pow2_ge_0 (b - e)). pose proof (pow2_ge_0 (g - f)). lra.
Qed.

(* (c n) / (c d) = n / d, also when d = 0 *)
Lemma div_scale_cancel k n d : k <> 0 -> (k * n) / (k * d) = n / d.
Proof.
  intros Hk. unfold Rdiv. rewrite Rinv_mult. generalize (/ d). intros id. field. exact Hk.
Qed.
(* n / (c d) = / c * (n / d), also when d = 0 or c = 0 *)
Lemma div_scale_den k n d : n / (k * d) = / k * (n / d).
Proof. unfold Rdiv. rewrite Rinv_mult. ring. Qed.

(* a weight (product of 2 or 3 coordinate differences) of the scaled run against the reference one *)
Ltac abs_scaled :=
  match goal with
  | |- Rabs ?e' = ?k * Rabs ?e =>
      replace e' with (k * e) by ring; rewrite Rabs_mult; rewrite (Rabs_pos_eq k) by nra; reflexivity
  end.

(* ================================================================== *)
(* 3. (V1) searchsorted commutes with the scaling (any list, sorted or not) *)
(* ================================================================== *)
Lemma ssr_list_scale c (l : list R) q : 0 < c -> ssr_list (map (Rmult c) l) (c * q) = ssr_list l q.
Proof.
  intros Hc. induction l as [|e t IH]; [reflexivity|]. cbn [map ssr_list].
  change (@nltb R NumR) with Rltb. rewrite (Rltb_scale c q e Hc), IH. reflexivity.
Qed.

Theorem ssr_scale c x q : 0 < c -> searchsorted_right (scale_arr c x) (c * q) = searchsorted_right x q.
Proof. intros Hc. unfold searchsorted_right. rewrite scale_dat. apply ssr_list_scale. exact Hc. Qed.

Lemma cell_scale c x n q : 0 < c -> cell (scale_arr c x) n (c * q) = cell x n q.
Proof. intros Hc. unfold cell. rewrite ssr_scale by exact Hc. reflexivity. Qed.

(* the kernels' hull test on one axis (TranslateR.inhullb) *)
Lemma inhullb_scale c a q : 0 < c -> inhullb (scale_arr c a) (c * q) = inhullb a q.
Proof.
  intros Hc. unfold inhullb. rewrite scale_dim. cbn [nleb nofZ NumR].
  rewrite !scale_get, !(Rleb_scale c) by exact Hc. reflexivity.
Qed.

(* ================================================================== *)
(* 4. the closing formulas of the kernels                               *)
(* ================================================================== *)
(* apparent-velocity kernels, 2D.  dq' = l dq (distance), b = s a (apparent velocities), W' = k W (weights),
   result ratio c = l / s.  length unit: l = c, s = 1, k = c c; slowness unit: l = 1, s = / c, k = 1. *)
Lemma vform2 (c l s k dq' dq b11 b21 b12 b22 a11 a21 a12 a22 W1' W2' W3' W4' D' W1 W2 W3 W4 D : R) :
  k <> 0 -> s <> 0 -> l = c * s -> dq' = l * dq ->
  b11 = s * a11 -> b21 = s * a21 -> b12 = s * a12 -> b22 = s * a22 ->
  W1' = k * W1 -> W2' = k * W2 -> W3' = k * W3 -> W4' = k * W4 -> D' = k * D ->
  dq' / ((b11 * W1' + b21 * W2' + b12 * W3' + b22 * W4') / D') =
  c * (dq / ((a11 * W1 + a21 * W2 + a12 * W3 + a22 * W4) / D)).
Proof.
  intros Hk Hs -> -> -> -> -> -> -> -> -> -> ->.
  replace (s * a11 * (k * W1) + s * a21 * (k * W2) + s * a12 * (k * W3) + s * a22 * (k * W4))
    with (s * k * (a11 * W1 + a21 * W2 + a12 * W3 + a22 * W4)) by ring.
  generalize (a11 * W1 + a21 * W2 + a12 * W3 + a22 * W4). intros N.
  unfold Rdiv. rewrite !Rinv_mult, !Rinv_inv. generalize (/ N). intros iN. field. split; assumption.
Qed.

Lemma vform3 (c l s k dq' dq b1 b2 b3 b4 b5 b6 b7 b8 a1 a2 a3 a4 a5 a6 a7 a8
              W1' W2' W3' W4' W5' W6' W7' W8' D' W1 W2 W3 W4 W5 W6 W7 W8 D : R) :
  k <> 0 -> s <> 0 -> l = c * s -> dq' = l * dq ->
  b1 = s * a1 -> b2 = s * a2 -> b3 = s * a3 -> b4 = s * a4 ->
  b5 = s * a5 -> b6 = s * a6 -> b7 = s * a7 -> b8 = s * a8 ->
  W1' = k * W1 -> W2' = k * W2 -> W3' = k * W3 -> W4' = k * W4 ->
  W5' = k * W5 -> W6' = k * W6 -> W7' = k * W7 -> W8' = k * W8 -> D' = k * D ->
  dq' / ((b1 * W1' + b2 * W2' + b3 * W3' + b4 * W4' + b5 * W5' + b6 * W6' + b7 * W7' + b8 * W8') / D') =
  c * (dq / ((a1 * W1 + a2 * W2 + a3 * W3 + a4 * W4 + a5 * W5 + a6 * W6 + a7 * W7 + a8 * W8) / D)).
Proof.
  intros Hk Hs -> -> -> -> -> -> -> -> -> -> -> -> -> -> -> -> -> -> ->.
  replace (s * a1 * (k * W1) + s * a2 * (k * W2) + s * a3 * (k * W3) + s * a4 * (k * W4) +
           s * a5 * (k * W5) + s * a6 * (k * W6) + s * a7 * (k * W7) + s * a8 * (k * W8))
    with (s * k * (a1 * W1 + a2 * W2 + a3 * W3 + a4 * W4 + a5 * W5 + a6 * W6 + a7 * W7 + a8 * W8)) by ring.
  generalize (a1 * W1 + a2 * W2 + a3 * W3 + a4 * W4 + a5 * W5 + a6 * W6 + a7 * W7 + a8 * W8). intros N.
  unfold Rdiv. rewrite !Rinv_mult, !Rinv_inv. generalize (/ N). intros iN. field. split; assumption.
Qed.

(* plain kernels: same values, weights and denominator multiplied by k *)
Lemma iform2 (k v11 v21 v12 v22 W1' W2' W3' W4' D' W1 W2 W3 W4 D : R) : k <> 0 ->
  W1' = k * W1 -> W2' = k * W2 -> W3' = k * W3 -> W4' = k * W4 -> D' = k * D ->
  (v11 * W1' + v21 * W2' + v12 * W3' + v22 * W4') / D' = (v11 * W1 + v21 * W2 + v12 * W3 + v22 * W4) / D.
Proof.
  intros Hk -> -> -> -> ->.
  replace (v11 * (k * W1) + v21 * (k * W2) + v12 * (k * W3) + v22 * (k * W4))
    with (k * (v11 * W1 + v21 * W2 + v12 * W3 + v22 * W4)) by ring.
  apply div_scale_cancel. exact Hk.
Qed.

Lemma iform3 (k v1 v2 v3 v4 v5 v6 v7 v8 W1' W2' W3' W4' W5' W6' W7' W8' D' W1 W2 W3 W4 W5 W6 W7 W8 D : R) :
  k <> 0 ->
  W1' = k * W1 -> W2' = k * W2 -> W3' = k * W3 -> W4' = k * W4 ->
  W5' = k * W5 -> W6' = k * W6 -> W7' = k * W7 -> W8' = k * W8 -> D' = k * D ->
  (v1 * W1' + v2 * W2' + v3 * W3' + v4 * W4' + v5 * W5' + v6 * W6' + v7 * W7' + v8 * W8') / D' =
  (v1 * W1 + v2 * W2 + v3 * W3 + v4 * W4 + v5 * W5 + v6 * W6 + v7 * W7 + v8 * W8) / D.
Proof.
  intros Hk -> -> -> -> -> -> -> -> ->.
  replace (v1 * (k * W1) + v2 * (k * W2) + v3 * (k * W3) + v4 * (k * W4) +
           v5 * (k * W5) + v6 * (k * W6) + v7 * (k * W7) + v8 * (k * W8))
    with (k * (v1 * W1 + v2 * W2 + v3 * W3 + v4 * W4 + v5 * W5 + v6 * W6 + v7 * W7 + v8 * W8)) by ring.
  apply div_scale_cancel. exact Hk.
Qed.

(* ================================================================== *)
(* 5. tactics: run the two copies of a kernel side by side              *)
(* ================================================================== *)
(* decide every integer test (same in both runs once searchsorted has been rewritten) *)
Ltac split_Zeqb :=
  repeat match goal with |- context [Z.eqb ?a ?b] => destruct (Z.eqb a b) end.

(* apparent velocity d / t of the scaled run (lengths by cl, times by cl cz) against the reference one;
   also when t = 0.  The dummy corners are 0 / 1 in BOTH runs (second alternative). *)
Lemma quot_scale cl cz d t : cl <> 0 -> (cl * d) / (cl * cz * t) = / cz * (d / t).
Proof. intros H. unfold Rdiv. rewrite !Rinv_mult. generalize (/ t) (/ cz). intros it icz. field. exact H. Qed.

Ltac quot_both :=
  first [ rewrite ?dist2d_scale, ?dist3d_scale by lra; apply quot_scale; assumption | unfold Rdiv; ring ].

(* unfold ONE copy of a kernel (the other one is hidden behind a local definition), keep one copy of its
   selection of corner data as an equation *)
Ltac open_kernel k u Eu :=
  cbv beta zeta delta [k];
  cbv beta iota delta [nleb nsub nmul nadd ndiv nabs nofZ ntruthy neqb NumR];
  name_selection u Eu.

(* ================================================================== *)
(* 6. (V2) + (V3), 2D: lengths by cl > 0, times by cl cz, vzero by cz   *)
(* ================================================================== *)
Theorem vinterp2d_scale (cl cz : R) (x y v : arr R) (xq yq xsrc ysrc vzero fval : R) : 0 < cl -> cz <> 0 ->
  u_vinterp2d_v (scale_arr cl x) (scale_arr cl y) (scale_arr (cl * cz) v) (cl * xq) (cl * yq) (cl * xsrc) (cl * ysrc)
                (cz * vzero) fval =
  if (inhullb x xq && inhullb y yq)%bool then cl * cz * u_vinterp2d_v x y v xq yq xsrc ysrc vzero fval else fval.
Proof.
  intros Hc Hz. assert (Hc0 : cl <> 0) by lra. assert (Hcc : cl * cl <> 0) by nra.
  assert (Hcz : cl * cz <> 0) by (apply Rmult_integral_contrapositive; split; assumption).
  assert (Hiz : / cz <> 0) by (apply Rinv_neq_0_compat; exact Hz).
  unfold inhullb.
  set (r := u_vinterp2d_v x y v xq yq xsrc ysrc vzero fval).
  open_kernel (@u_vinterp2d_v) u' Eu'.
  subst r.
  open_kernel (@u_vinterp2d_v) u Eu.
  fold NumR in Eu, Eu' |- *.
  rewrite ?scale_dim, ?scale_get, ?(ssr_scale cl) in Eu' by exact Hc.
  rewrite ?scale_dim, ?scale_get, ?(ssr_scale cl) by exact Hc.
  rewrite !(Rleb_scale cl) by exact Hc.
  (* outside the hull *)
  match goal with |- (if negb ?h then _ else _) = _ => destruct h end; cbn [negb]; [|reflexivity].
  (* the source's cell *)
  match goal with |- (if ?s then _ else _) = _ => destruct s end.
  { rewrite dist2d_scale by lra. ring. }
  (* interior / far faces: the same branch in both runs; then the same zero-time test *)
  revert Eu' Eu. split_Zeqb; cbn [andb negb]; intros Eu' Eu; subst u u'; cbn [fst snd];
  rewrite ?(Reqb_scale0 (cl * cz)) by exact Hcz;
  match goal with |- (if ?t then _ else _) = _ => destruct t end;
  try (rewrite dist2d_scale by lra; ring);
  apply (vform2 (cl * cz) cl (/ cz) (cl * cl)); try assumption; try (field; assumption);
  try (apply dist2d_scale; lra); try quot_both; try abs_scaled.
Qed.

(* the hull test is the same in both runs: outside, both return the fill value *)
Corollary vinterp2d_scale_outside (cl cz : R) (x y v : arr R) (xq yq xsrc ysrc vzero fval : R) : 0 < cl -> cz <> 0 ->
  (inhullb x xq && inhullb y yq)%bool = false ->
  u_vinterp2d_v (scale_arr cl x) (scale_arr cl y) (scale_arr (cl * cz) v) (cl * xq) (cl * yq) (cl * xsrc) (cl * ysrc)
                (cz * vzero) fval = fval /\
  u_vinterp2d_v x y v xq yq xsrc ysrc vzero fval = fval.
Proof.
  intros Hc Hz E. split.
  - rewrite vinterp2d_scale by assumption. rewrite E. reflexivity.
  - apply vinterp2d_outside. exact E.
Qed.

(* (V2) LENGTH unit *)
Theorem vinterp2d_scale_length (c : R) (x y v : arr R) (xq yq xsrc ysrc vzero fval : R) : 0 < c ->
  u_vinterp2d_v (scale_arr c x) (scale_arr c y) (scale_arr c v) (c * xq) (c * yq) (c * xsrc) (c * ysrc) vzero fval =
  if (inhullb x xq && inhullb y yq)%bool then c * u_vinterp2d_v x y v xq yq xsrc ysrc vzero fval else fval.
Proof.
  intros Hc.
  pose proof (vinterp2d_scale c 1 x y v xq yq xsrc ysrc vzero fval Hc ltac:(lra)) as E.
  rewrite !Rmult_1_r, Rmult_1_l in E. exact E.
Qed.

(* (V3) SLOWNESS unit (c <> 0 suffices: no comparison between scaled quantities) *)
Theorem vinterp2d_scale_slowness (c : R) (x y v : arr R) (xq yq xsrc ysrc vzero fval : R) : c <> 0 ->
  u_vinterp2d_v x y (scale_arr c v) xq yq xsrc ysrc (c * vzero) fval =
  if (inhullb x xq && inhullb y yq)%bool then c * u_vinterp2d_v x y v xq yq xsrc ysrc vzero fval else fval.
Proof.
  intros Hc.
  pose proof (vinterp2d_scale 1 c x y v xq yq xsrc ysrc vzero fval ltac:(lra) Hc) as E.
  rewrite !scale_arr_1, !Rmult_1_l in E. exact E.
Qed.

(* ================================================================== *)
(* 7. (V4) + (V5), 3D                                                   *)
(* ================================================================== *)
Theorem vinterp3d_scale (cl cz : R) (x y z v : arr R) (xq yq zq xsrc ysrc zsrc vzero fval : R) :
  0 < cl -> cz <> 0 ->
  u_vinterp3d_v (scale_arr cl x) (scale_arr cl y) (scale_arr cl z) (scale_arr (cl * cz) v)
                (cl * xq) (cl * yq) (cl * zq) (cl * xsrc) (cl * ysrc) (cl * zsrc) (cz * vzero) fval =
  if (inhullb x xq && inhullb y yq && inhullb z zq)%bool
  then cl * cz * u_vinterp3d_v x y z v xq yq zq xsrc ysrc zsrc vzero fval else fval.
Proof.
  intros Hc Hz. assert (Hc0 : cl <> 0) by lra. assert (Hc2 : 0 < cl * cl) by nra.
  assert (Hc3 : 0 < cl * cl * cl) by nra. assert (Hccc : cl * cl * cl <> 0) by lra.
  assert (Hcz : cl * cz <> 0) by (apply Rmult_integral_contrapositive; split; assumption).
  assert (Hiz : / cz <> 0) by (apply Rinv_neq_0_compat; exact Hz).
  unfold inhullb.
  set (r := u_vinterp3d_v x y z v xq yq zq xsrc ysrc zsrc vzero fval).
  open_kernel (@u_vinterp3d_v) u' Eu'.
  subst r.
  open_kernel (@u_vinterp3d_v) u Eu.
  fold NumR in Eu, Eu' |- *.
  rewrite ?scale_dim, ?scale_get, ?(ssr_scale cl) in Eu' by exact Hc.
  rewrite ?scale_dim, ?scale_get, ?(ssr_scale cl) by exact Hc.
  rewrite !(Rleb_scale cl) by exact Hc.
  match goal with |- (if negb ?h then _ else _) = _ => destruct h end; cbn [negb]; [|reflexivity].
  match goal with |- (if ?s then _ else _) = _ => destruct s end.
  { rewrite dist3d_scale by lra. ring. }
  revert Eu' Eu. split_Zeqb; cbn [andb negb]; intros Eu' Eu; subst u u'; cbn [fst snd];
  rewrite ?(Reqb_scale0 (cl * cz)) by exact Hcz;
  match goal with |- (if ?t then _ else _) = _ => destruct t end;
  try (rewrite dist3d_scale by lra; ring);
  apply (vform3 (cl * cz) cl (/ cz) (cl * cl * cl)); try assumption; try (field; assumption);
  try (apply dist3d_scale; lra); try quot_both; try abs_scaled.
Qed.

Corollary vinterp3d_scale_outside (cl cz : R) (x y z v : arr R) (xq yq zq xsrc ysrc zsrc vzero fval : R) :
  0 < cl -> cz <> 0 -> (inhullb x xq && inhullb y yq && inhullb z zq)%bool = false ->
  u_vinterp3d_v (scale_arr cl x) (scale_arr cl y) (scale_arr cl z) (scale_arr (cl * cz) v)
                (cl * xq) (cl * yq) (cl * zq) (cl * xsrc) (cl * ysrc) (cl * zsrc) (cz * vzero) fval = fval /\
  u_vinterp3d_v x y z v xq yq zq xsrc ysrc zsrc vzero fval = fval.
Proof.
  intros Hc Hz E. split.
  - rewrite vinterp3d_scale by assumption. rewrite E. reflexivity.
  - apply vinterp3d_outside. exact E.
Qed.

(* (V4) LENGTH unit *)
Theorem vinterp3d_scale_length (c : R) (x y z v : arr R) (xq yq zq xsrc ysrc zsrc vzero fval : R) : 0 < c ->
  u_vinterp3d_v (scale_arr c x) (scale_arr c y) (scale_arr c z) (scale_arr c v)
                (c * xq) (c * yq) (c * zq) (c * xsrc) (c * ysrc) (c * zsrc) vzero fval =
  if (inhullb x xq && inhullb y yq && inhullb z zq)%bool
  then c * u_vinterp3d_v x y z v xq yq zq xsrc ysrc zsrc vzero fval else fval.
Proof.
  intros Hc.
  pose proof (vinterp3d_scale c 1 x y z v xq yq zq xsrc ysrc zsrc vzero fval Hc ltac:(lra)) as E.
  rewrite !Rmult_1_r, Rmult_1_l in E. exact E.
Qed.

(* (V5) SLOWNESS unit *)
Theorem vinterp3d_scale_slowness (c : R) (x y z v : arr R) (xq yq zq xsrc ysrc zsrc vzero fval : R) : c <> 0 ->
  u_vinterp3d_v x y z (scale_arr c v) xq yq zq xsrc ysrc zsrc (c * vzero) fval =
  if (inhullb x xq && inhullb y yq && inhullb z zq)%bool
  then c * u_vinterp3d_v x y z v xq yq zq xsrc ysrc zsrc vzero fval else fval.
Proof.
  intros Hc.
  pose proof (vinterp3d_scale 1 c x y z v xq yq zq xsrc ysrc zsrc vzero fval ltac:(lra) Hc) as E.
  rewrite !scale_arr_1, !Rmult_1_l in E. exact E.
Qed.

(* ================================================================== *)
(* 8. (V6) _interp2d / _interp3d: axes and query by c > 0, same values  *)
(* ================================================================== *)
Theorem interp2d_scale (c : R) (x y v : arr R) (xq yq fval : R) : 0 < c ->
  u_interp2d_v (scale_arr c x) (scale_arr c y) v (c * xq) (c * yq) fval = u_interp2d_v x y v xq yq fval.
Proof.
  intros Hc. assert (Hc0 : c <> 0) by lra. assert (Hcc : c * c <> 0) by nra.
  set (r := u_interp2d_v x y v xq yq fval).
  open_kernel (@u_interp2d_v) u' Eu'.
  subst r.
  open_kernel (@u_interp2d_v) u Eu.
  fold NumR in Eu, Eu' |- *.
  rewrite ?scale_dim, ?scale_get, ?(ssr_scale c) in Eu' by exact Hc.
  rewrite ?scale_dim, ?scale_get, ?(ssr_scale c) by exact Hc.
  rewrite !(Rleb_scale c) by exact Hc.
  match goal with |- (if negb ?h then _ else _) = _ => destruct h end; cbn [negb]; [|reflexivity].
  revert Eu' Eu. split_Zeqb; cbn [andb negb]; intros Eu' Eu; subst u u'; cbn [fst snd];
  apply (iform2 (c * c)); try assumption; abs_scaled.
Qed.

Theorem interp3d_scale (c : R) (x y z v : arr R) (xq yq zq fval : R) : 0 < c ->
  u_interp3d_v (scale_arr c x) (scale_arr c y) (scale_arr c z) v (c * xq) (c * yq) (c * zq) fval =
  u_interp3d_v x y z v xq yq zq fval.
Proof.
  intros Hc. assert (Hc0 : c <> 0) by lra. assert (Hc2 : 0 < c * c) by nra.
  assert (Hc3 : 0 < c * c * c) by nra. assert (Hccc : c * c * c <> 0) by lra.
  set (r := u_interp3d_v x y z v xq yq zq fval).
  open_kernel (@u_interp3d_v) u' Eu'.
  subst r.
  open_kernel (@u_interp3d_v) u Eu.
  fold NumR in Eu, Eu' |- *.
  rewrite ?scale_dim, ?scale_get, ?(ssr_scale c) in Eu' by exact Hc.
  rewrite ?scale_dim, ?scale_get, ?(ssr_scale c) by exact Hc.
  rewrite !(Rleb_scale c) by exact Hc.
  match goal with |- (if negb ?h then _ else _) = _ => destruct h end; cbn [negb]; [|reflexivity].
  revert Eu' Eu. split_Zeqb; cbn [andb negb]; intros Eu' Eu; subst u u'; cbn [fst snd];
  apply (iform3 (c * c * c)); try assumption; abs_scaled.
Qed.

(* ================================================================== *)
(* 9. complement to (V6): node VALUES multiplied by c (slowness unit for a gradient grid, velocity unit for the
      velocity model), same axes: c * result inside the hull.  Here the kernels' dummy corners (value 1.0 on a far
      face, NOT scaled) matter: they carry weight 0 only on well-formed axes, so the axis hypotheses of InterpR.v
      are needed (ascending axes with >= 2 nodes, matching shape); c is ANY real. *)
(* ================================================================== *)
Theorem interp2d_scale_values (c : R) (x y v : arr R) (nx ny : Z) (xq yq fval : R) :
  axis x nx -> axis y ny -> shape v = [nx; ny] ->
  u_interp2d_v x y (scale_arr c v) xq yq fval =
  if (inhullb x xq && inhullb y yq)%bool then c * u_interp2d_v x y v xq yq fval else fval.
Proof.
  intros Ax Ay Sv. destruct (inhullb x xq && inhullb y yq)%bool eqn:E.
  - apply andb_prop in E as [Ex Ey].
    pose proof (inhullb_true x nx xq Ax Ex) as Hx. pose proof (inhullb_true y ny yq Ay Ey) as Hy.
    rewrite (interp2d_spec x y (scale_arr c v) nx ny xq yq fval Ax Ay Sv Hx Hy).
    rewrite (interp2d_spec x y v nx ny xq yq fval Ax Ay Sv Hx Hy).
    unfold bilin, bilin_core. rewrite !scale_get. cbv zeta. ring.
  - apply interp2d_outside. exact E.
Qed.

Theorem interp3d_scale_values (c : R) (x y z v : arr R) (nx ny nz : Z) (xq yq zq fval : R) :
  axis x nx -> axis y ny -> axis z nz -> shape v = [nx; ny; nz] ->
  u_interp3d_v x y z (scale_arr c v) xq yq zq fval =
  if (inhullb x xq && inhullb y yq && inhullb z zq)%bool then c * u_interp3d_v x y z v xq yq zq fval else fval.
Proof.
  intros Ax Ay Az Sv. destruct (inhullb x xq && inhullb y yq && inhullb z zq)%bool eqn:E.
  - apply andb_prop in E as [E Ez]. apply andb_prop in E as [Ex Ey].
    pose proof (inhullb_true x nx xq Ax Ex) as Hx. pose proof (inhullb_true y ny yq Ay Ey) as Hy.
    pose proof (inhullb_true z nz zq Az Ez) as Hz.
    rewrite (interp3d_spec x y z (scale_arr c v) nx ny nz xq yq zq fval Ax Ay Az Sv Hx Hy Hz).
    rewrite (interp3d_spec x y z v nx ny nz xq yq zq fval Ax Ay Az Sv Hx Hy Hz).
    unfold trilin, trilin_core. rewrite !scale_get. cbv zeta. ring.
  - apply interp3d_outside. exact E.
Qed.

(* ================================================================== *)
(* 10. non-vacuity: the 2 x 2 grid of VinterpR.v (nodes x = 0, 12, y = 5, 9, times 5, 9, 26, 30, source (0,0)),
       every query of its hull, every c > 0: the scaled run returns c * (reference), and the reference result is a
       genuine interpolated time (between dq and 2 dq, vinterp2d_bounds_example), not the fill value *)
(* ================================================================== *)
Lemma inhullb_intro (a : arr R) (q : R) :
  get 0 a [0%Z] <= q <= get 0 a [(dim a 0%nat - 1)%Z] -> inhullb a q = true.
Proof.
  intros [H0 H1]. unfold inhullb. cbn [nleb nofZ NumR].
  rewrite (proj2 (Rleb_true _ _) H0), (proj2 (Rleb_true _ _) H1). reflexivity.
Qed.

Example vinterp2d_scale_example (c xq yq vzero fval : R) : 0 < c -> 0 <= xq <= 12 -> 5 <= yq <= 9 ->
  let dq := R_sqrt.sqrt ((0 - xq) ^ 2 + (0 - yq) ^ 2) in
  let ref := u_vinterp2d_v xe ye ve xq yq 0 0 vzero fval in
  u_vinterp2d_v (scale_arr c xe) (scale_arr c ye) (scale_arr c ve) (c * xq) (c * yq) (c * 0) (c * 0) vzero fval
    = c * ref /\
  u_vinterp2d_v xe ye (scale_arr c ve) xq yq 0 0 (c * vzero) fval = c * ref /\
  dq / 1 <= ref <= dq / (1 / 2).
Proof.
  intros Hc Hx Hy dq ref.
  assert (Ix : inhullb xe xq = true) by (apply inhullb_intro; unfold get; simpl; exact Hx).
  assert (Iy : inhullb ye yq = true) by (apply inhullb_intro; unfold get; simpl; exact Hy).
  split; [|split].
  - rewrite (vinterp2d_scale_length c xe ye ve xq yq 0 0 vzero fval Hc), Ix, Iy. reflexivity.
  - rewrite (vinterp2d_scale_slowness c xe ye ve xq yq 0 0 vzero fval ltac:(lra)), Ix, Iy. reflexivity.
  - apply vinterp2d_bounds_example; assumption.
Qed.

(* the axis hypotheses of section 9 are satisfiable: the same grid *)
Example interp2d_scale_values_example (c xq yq fval : R) : 0 <= xq <= 12 -> 5 <= yq <= 9 ->
  u_interp2d_v xe ye (scale_arr c ve) xq yq fval = c * u_interp2d_v xe ye ve xq yq fval.
Proof.
  intros Hx Hy.
  assert (Ix : inhullb xe xq = true) by (apply inhullb_intro; unfold get; simpl; exact Hx).
  assert (Iy : inhullb ye yq = true) by (apply inhullb_intro; unfold get; simpl; exact Hy).
  rewrite (interp2d_scale_values c xe ye ve 2 2 xq yq fval (axis2 0 12 ltac:(lra)) (axis2 5 9 ltac:(lra)) eq_refl).
  rewrite Ix, Iy. reflexivity.
Qed.

Print Assumptions ssr_scale.
Print Assumptions inhullb_scale.
Print Assumptions axis_scale.
Print Assumptions vinterp2d_scale.
Print Assumptions vinterp2d_scale_outside.
Print Assumptions vinterp2d_scale_length.
Print Assumptions vinterp2d_scale_slowness.
Print Assumptions vinterp3d_scale.
Print Assumptions vinterp3d_scale_outside.
Print Assumptions vinterp3d_scale_length.
Print Assumptions vinterp3d_scale_slowness.
Print Assumptions interp2d_scale.
Print Assumptions interp3d_scale.
Print Assumptions interp2d_scale_values.
Print Assumptions interp3d_scale_values.
Print Assumptions vinterp2d_scale_example.
Print Assumptions interp2d_scale_values_example.
