(* Exact-arithmetic facts about the API-layer hand model (coq/model/Api.v): origin invariance of what is handed to the
   kernels (C06) and unit invariance of the ray-tracing defaults (C05). *)
From Coq Require Import ZArith List Bool Reals Lra Lia.
From FT.lib Require Import Num.
From FT.model Require Import Api.
Import ListNotations.
Open Scope R_scope.

Fixpoint zip_add (a b : list R) : list R :=
  match a, b with x :: a', y :: b' => (x + y) :: zip_add a' b' | _, _ => [] end.

(* the solver kernel receives only source - origin: translating both by the same vector changes nothing *)
Lemma zip_sub_translate (src o t : list R) :
  length src = length o -> length o = length t ->
  zip_sub (zip_add src t) (zip_add o t) = zip_sub src o.
Proof.
  revert o t; induction src as [|x src IH]; intros [|y o] [|z t] L1 L2; simpl in *; try discriminate; auto.
  f_equal; [ring | apply IH; lia].
Qed.
Theorem solve_args_origin_invariant (grid gs o src t : list R) :
  length src = length o -> length o = length t ->
  solve_args grid gs (zip_add o t) (zip_add src t) = solve_args grid gs o src.
Proof. intros L1 L2. unfold solve_args. rewrite zip_sub_translate; auto. Qed.

(* node axes of a translated origin are the translated node axes *)
Theorem axis_nodes_translate (t o d : R) (n : Z) :
  axis_nodes (t + o) d n = map (Rplus t) (axis_nodes o d n).
Proof. unfold axis_nodes. rewrite map_map. apply map_ext. intros k. simpl. ring. Qed.
Theorem axis_nodes_zero_origin (o d : R) (n : Z) : axis_nodes (0 + o) d n = axis_nodes o d n.
Proof. unfold axis_nodes. apply map_ext. intros k. simpl. ring. Qed.

(* the solver receives the reciprocal of every velocity: dividing all velocities by c multiplies every slowness by c *)
Theorem slowness_of_scale (c : R) (grid : list R) :
  c <> 0 -> Forall (fun v => v <> 0) grid ->
  slowness_of (map (fun v => v / c) grid) = map (Rmult c) (slowness_of grid).
Proof.
  intros Hc Hg. unfold slowness_of. rewrite !map_map. apply map_ext_in. intros v Hv.
  rewrite Forall_forall in Hg. specialize (Hg v Hv). simpl. field. split; assumption.
Qed.

(* ray defaults under a change of length units (c > 0): the default step scales, the default budget is unchanged *)
Lemma sumsq_left_scale c acc sh gs :
  sumsq_left (c * c * acc) sh (map (Rmult c) gs) = c * c * sumsq_left acc sh gs.
Proof.
  revert acc gs; induction sh as [|n sh IH]; intros acc [|d gs]; simpl; auto.
  replace (c * c * acc + IZR n * (c * d) * (IZR n * (c * d))) with (c * c * (acc + IZR n * d * (IZR n * d))) by ring.
  apply IH.
Qed.
Theorem max_dist_scale (c : R) sh gs : 0 <= c -> max_dist sh (map (Rmult c) gs) = c * max_dist sh gs.
Proof.
  intros Hc. destruct sh as [|n sh], gs as [|d gs]; simpl; try ring.
  replace (IZR n * (c * d) * (IZR n * (c * d))) with (c * c * (IZR n * d * (IZR n * d))) by ring.
  rewrite sumsq_left_scale. rewrite sqrt_mult_alt by nra. rewrite sqrt_square by exact Hc. ring.
Qed.
Theorem ray_max_step_unit_invariant (c : R) sh gs step ms :
  0 < c -> step <> 0 ->
  ray_max_step sh (map (Rmult c) gs) (c * step) ms = ray_max_step sh gs step ms.
Proof.
  intros Hc Hs. unfold ray_max_step. rewrite max_dist_scale by lra.
  replace (ndiv (c * max_dist sh gs) (c * step)) with (ndiv (max_dist sh gs) step); [reflexivity|].
  simpl. field. split; lra.
Qed.
