(* _vinterp3d (gen/Vinterp3d.v: u_vinterp3d_v): interpolation of a 3-D traveltime grid through APPARENT
   VELOCITIES.  With source s, query q, dq = |s q| and, for the corners c of the cell that contains q,
   d_c = |s c| and t_c = v[c]:

        result = dq / ( trilinear interpolation at q of the corner values a_c = d_c / t_c )

   except: outside the hull -> fval; q in the source's searchsorted cell -> vzero * dq; a corner time
   the kernel reads is 0 -> vzero * dq.  On a far face / edge / corner (query coordinate = last node)
   the kernel reads only the corners on it (the mirrored dummy corners carry weight 0).
   Same structure as VinterpR.v (2-D), whose vocabulary (`far`, `used`, `nzm`) and tactics are reused. *)
From Coq Require Import ZArith List Bool Reals Lra Lia Psatz Field.
From FT.lib Require Import Num Arr NumArr ArrLemmas.
From FT.gen Require Import Common Vinterp3d.
From FT.proofs Require Import SSR InterpR Interp3R VinterpR.
Import ListNotations.
Open Scope R_scope.

(* ================================================================== *)
(* 1. statements that hold for every numeric type                       *)
(* ================================================================== *)
Theorem vinterp3d_outside {T : Type} `{Num T} (x y z v : arr T) (xq yq zq xsrc ysrc zsrc vzero fval : T) :
  (nleb (get (nofZ 0) x [0%Z]) xq && nleb xq (get (nofZ 0) x [(dim x 0%nat - 1)%Z])) &&
  (nleb (get (nofZ 0) y [0%Z]) yq && nleb yq (get (nofZ 0) y [(dim y 0%nat - 1)%Z])) &&
  (nleb (get (nofZ 0) z [0%Z]) zq && nleb zq (get (nofZ 0) z [(dim z 0%nat - 1)%Z])) = false ->
  u_vinterp3d_v x y z v xq yq zq xsrc ysrc zsrc vzero fval = fval.
Proof. intros E. cbv beta zeta delta [u_vinterp3d_v]. rewrite E. reflexivity. Qed.

Theorem vinterp3d_source_cell_gen {T : Type} `{Num T} (x y z v : arr T)
    (xq yq zq xsrc ysrc zsrc vzero fval : T) :
  (nleb (get (nofZ 0) x [0%Z]) xq && nleb xq (get (nofZ 0) x [(dim x 0%nat - 1)%Z])) &&
  (nleb (get (nofZ 0) y [0%Z]) yq && nleb yq (get (nofZ 0) y [(dim y 0%nat - 1)%Z])) &&
  (nleb (get (nofZ 0) z [0%Z]) zq && nleb zq (get (nofZ 0) z [(dim z 0%nat - 1)%Z])) = true ->
  searchsorted_right x xsrc = searchsorted_right x xq ->
  searchsorted_right y ysrc = searchsorted_right y yq ->
  searchsorted_right z zsrc = searchsorted_right z zq ->
  u_vinterp3d_v x y z v xq yq zq xsrc ysrc zsrc vzero fval = nmul vzero (dist3d xsrc ysrc zsrc xq yq zq).
Proof.
  intros E Ex Ey Ez. cbv beta zeta delta [u_vinterp3d_v]. rewrite E, Ex, Ey, Ez, !Z.eqb_refl. reflexivity.
Qed.

(* ================================================================== *)
(* 2. distances                                                         *)
(* ================================================================== *)
Lemma dist3d_R a b c d e f : dist3d a b c d e f = R_sqrt.sqrt ((a - d) ^ 2 + (b - e) ^ 2 + (c - f) ^ 2).
Proof. unfold dist3d, norm3d. simpl. f_equal. ring. Qed.
Lemma dist3d_nonneg a b c d e f : 0 <= dist3d a b c d e f.
Proof. rewrite dist3d_R. apply sqrt_pos. Qed.
Lemma dist3d_zero a b c d e f : dist3d a b c d e f = 0 -> a = d /\ b = e /\ c = f.
Proof.
  rewrite dist3d_R. intros E.
  pose proof (pow2_ge_0 (a - d)) as P1. pose proof (pow2_ge_0 (b - e)) as P2. pose proof (pow2_ge_0 (c - f)) as P3.
  apply sqrt_eq_0 in E; [|lra].
  assert (E1 : (a - d) ^ 2 = 0) by lra. assert (E2 : (b - e) ^ 2 = 0) by lra. assert (E3 : (c - f) ^ 2 = 0) by lra.
  simpl in E1, E2, E3. repeat split; nra.
Qed.
Lemma dist3d_self a b c : dist3d a b c a b c = 0.
Proof. rewrite dist3d_R. replace ((a - a) ^ 2 + (b - b) ^ 2 + (c - c) ^ 2) with 0 by ring. apply sqrt_0. Qed.

(* ================================================================== *)
(* 3. the kernel, inside the hull and outside the source's cell         *)
(* ================================================================== *)
Definition appvel3 (x y z v : arr R) (xsrc ysrc zsrc : R) (k l m : Z) : R :=
  dist3d xsrc ysrc zsrc (get 0 x [k]) (get 0 y [l]) (get 0 z [m]) / get 0 v [k; l; m].

(* distance / trilinear interpolation of the apparent velocities on cell (i,j,k) *)
Definition vtrilin (x y z v : arr R) (xsrc ysrc zsrc : R) (i j k : Z) (xq yq zq : R) : R :=
  let a := appvel3 x y z v xsrc ysrc zsrc in
  dist3d xsrc ysrc zsrc xq yq zq /
  trilin_core (get 0 x [i]) (get 0 x [(i + 1)%Z]) (get 0 y [j]) (get 0 y [(j + 1)%Z])
              (get 0 z [k]) (get 0 z [(k + 1)%Z])
              (a i j k) (a (i + 1)%Z j k) (a i (j + 1)%Z k) (a (i + 1)%Z (j + 1)%Z k)
              (a i j (k + 1)%Z) (a (i + 1)%Z j (k + 1)%Z) (a i (j + 1)%Z (k + 1)%Z)
              (a (i + 1)%Z (j + 1)%Z (k + 1)%Z) xq yq zq.

(* all times the kernel reads are non-zero, as the boolean the kernel computes *)
Definition times_ok3 (x y z v : arr R) (nx ny nz : Z) (xq yq zq : R) : bool :=
  let i := cell x nx xq in let j := cell y ny yq in let k := cell z nz zq in
  let fx := far x nx xq in let fy := far y ny yq in let fz := far z nz zq in
  nzm (fx || fy || fz) (get 0 v [i; j; k]) && nzm (fy || fz) (get 0 v [(i + 1)%Z; j; k]) &&
  nzm (fx || fz) (get 0 v [i; (j + 1)%Z; k]) && nzm fz (get 0 v [(i + 1)%Z; (j + 1)%Z; k]) &&
  nzm (fx || fy) (get 0 v [i; j; (k + 1)%Z]) && nzm fy (get 0 v [(i + 1)%Z; j; (k + 1)%Z]) &&
  nzm fx (get 0 v [i; (j + 1)%Z; (k + 1)%Z]) && nzm false (get 0 v [(i + 1)%Z; (j + 1)%Z; (k + 1)%Z]).

Lemma vinterp3d_char (x y z v : arr R) (nx ny nz : Z) (xq yq zq xsrc ysrc zsrc vzero fval : R) :
  axis x nx -> axis y ny -> axis z nz -> shape v = [nx; ny; nz] ->
  get 0 x [0%Z] <= xq <= get 0 x [(nx - 1)%Z] ->
  get 0 y [0%Z] <= yq <= get 0 y [(ny - 1)%Z] ->
  get 0 z [0%Z] <= zq <= get 0 z [(nz - 1)%Z] ->
  ~ (searchsorted_right x xsrc = searchsorted_right x xq /\
     searchsorted_right y ysrc = searchsorted_right y yq /\
     searchsorted_right z zsrc = searchsorted_right z zq) ->
  u_vinterp3d_v x y z v xq yq zq xsrc ysrc zsrc vzero fval =
  if negb (times_ok3 x y z v nx ny nz xq yq zq) then vzero * dist3d xsrc ysrc zsrc xq yq zq
  else vtrilin x y z v xsrc ysrc zsrc (cell x nx xq) (cell y ny yq) (cell z nz zq) xq yq zq.
Proof.
  intros Ax Ay Az Sv [Hx0 Hx1] [Hy0 Hy1] [Hz0 Hz1] NS.
  pose proof (ssrR_cases x nx xq Ax Hx0 Hx1) as Cx.
  pose proof (ssrR_cases y ny yq Ay Hy0 Hy1) as Cy.
  pose proof (ssrR_cases z nz zq Az Hz0 Hz1) as Cz.
  assert (NSb : ((searchsorted_right x xsrc - 1 =? searchsorted_right x xq - 1)%Z &&
                 (searchsorted_right y ysrc - 1 =? searchsorted_right y yq - 1)%Z &&
                 (searchsorted_right z zsrc - 1 =? searchsorted_right z zq - 1)%Z)%bool = false).
  { rewrite !andb_false_iff, !Z.eqb_neq.
    destruct (Z.eq_dec (searchsorted_right x xsrc) (searchsorted_right x xq));
    destruct (Z.eq_dec (searchsorted_right y ysrc) (searchsorted_right y yq));
    destruct (Z.eq_dec (searchsorted_right z zsrc) (searchsorted_right z zq)); try tauto; lia. }
  unfold vtrilin, appvel3, trilin_core, times_ok3, nzm, far, cell, u_vinterp3d_v.
  cbv beta zeta. rewrite NSb.
  cbv beta iota zeta delta [nleb nsub nmul nadd ndiv nabs nofZ ntruthy neqb NumR]. cbn [fst snd].
  name_selection u Eu.
  rewrite ?(axis_dim x nx Ax), ?(axis_dim y ny Ay), ?(axis_dim z nz Az).
  rewrite ?(axis_dim x nx Ax), ?(axis_dim y ny Ay), ?(axis_dim z nz Az),
          ?(dim3_0 v nx ny nz Sv), ?(dim3_1 v nx ny nz Sv), ?(dim3_2 v nx ny nz Sv) in Eu.
  rewrite (proj2 (Rleb_true _ _) Hx0), (proj2 (Rleb_true _ _) Hx1),
          (proj2 (Rleb_true _ _) Hy0), (proj2 (Rleb_true _ _) Hy1),
          (proj2 (Rleb_true _ _) Hz0), (proj2 (Rleb_true _ _) Hz1).
  cbn [andb negb].
  clear NSb NS.
  remember (searchsorted_right x xq - 1)%Z as i1 eqn:Ei1. clear Ei1.
  remember (searchsorted_right y yq - 1)%Z as j1 eqn:Ej1. clear Ej1.
  remember (searchsorted_right z zq - 1)%Z as k1 eqn:Ek1. clear Ek1.
  vaxis_split Cx i1; vaxis_split Cy j1; vaxis_split Cz k1; cbn [andb negb] in Eu; vbranch_done u v.
Qed.

(* ================================================================== *)
(* 4. pure real-number facts: far faces, convexity over the read corners *)
(* ================================================================== *)
(* on a far face the trilinear interpolant is the bilinear one on that face (only its 4 corners enter) *)
Lemma trilin_core_on_far_x x1 x2 y1 y2 z1 z2 v111 v211 v121 v221 v112 v212 v122 v222 xq yq zq :
  x1 <> x2 -> xq = x2 ->
  trilin_core x1 x2 y1 y2 z1 z2 v111 v211 v121 v221 v112 v212 v122 v222 xq yq zq =
  bilin_core y1 y2 z1 z2 v211 v221 v212 v222 yq zq.
Proof.
  intros D ->. unfold trilin_core, bilin_core. cbv zeta.
  replace ((x2 - x1) / (x2 - x1)) with 1 by (field; lra). ring.
Qed.
Lemma trilin_core_on_far_y x1 x2 y1 y2 z1 z2 v111 v211 v121 v221 v112 v212 v122 v222 xq yq zq :
  y1 <> y2 -> yq = y2 ->
  trilin_core x1 x2 y1 y2 z1 z2 v111 v211 v121 v221 v112 v212 v122 v222 xq yq zq =
  bilin_core x1 x2 z1 z2 v121 v221 v122 v222 xq zq.
Proof.
  intros D ->. unfold trilin_core, bilin_core. cbv zeta.
  replace ((y2 - y1) / (y2 - y1)) with 1 by (field; lra). ring.
Qed.
Lemma trilin_core_on_far_z x1 x2 y1 y2 z1 z2 v111 v211 v121 v221 v112 v212 v122 v222 xq yq zq :
  z1 <> z2 -> zq = z2 ->
  trilin_core x1 x2 y1 y2 z1 z2 v111 v211 v121 v221 v112 v212 v122 v222 xq yq zq =
  bilin_core x1 x2 y1 y2 v112 v212 v122 v222 xq yq.
Proof.
  intros D ->. unfold trilin_core, bilin_core. cbv zeta.
  replace ((z2 - z1) / (z2 - z1)) with 1 by (field; lra). ring.
Qed.

(* convexity needs bounds only on the corners that carry weight *)
Lemma trilin_core_convex_used x1 x2 y1 y2 z1 z2 v111 v211 v121 v221 v112 v212 v122 v222 xq yq zq lo hi :
  x1 < x2 -> x1 <= xq <= x2 -> y1 < y2 -> y1 <= yq <= y2 -> z1 < z2 -> z1 <= zq <= z2 ->
  (xq < x2 -> yq < y2 -> zq < z2 -> lo <= v111 <= hi) -> (yq < y2 -> zq < z2 -> lo <= v211 <= hi) ->
  (xq < x2 -> zq < z2 -> lo <= v121 <= hi) -> (zq < z2 -> lo <= v221 <= hi) ->
  (xq < x2 -> yq < y2 -> lo <= v112 <= hi) -> (yq < y2 -> lo <= v212 <= hi) ->
  (xq < x2 -> lo <= v122 <= hi) -> lo <= v222 <= hi ->
  lo <= trilin_core x1 x2 y1 y2 z1 z2 v111 v211 v121 v221 v112 v212 v122 v222 xq yq zq <= hi.
Proof.
  intros Hx Hxq Hy Hyq Hz Hzq H111 H211 H121 H221 H112 H212 H122 H222.
  pose proof (bilin_core_convex_used x1 x2 y1 y2 v112 v212 v122 v222 xq yq lo hi
                Hx Hxq Hy Hyq H112 H212 H122 H222) as B2.
  destruct (Rle_lt_or_eq_dec _ _ (proj2 Hzq)) as [Lz|Ez].
  - assert (B1 : lo <= bilin_core x1 x2 y1 y2 v111 v211 v121 v221 xq yq <= hi)
      by (apply bilin_core_convex_used; auto).
    rewrite trilin_core_split.
    pose proof (unit_param z1 z2 zq Hz Hzq) as Tz.
    set (tz := (zq - z1) / (z2 - z1)) in *.
    set (b1 := bilin_core x1 x2 y1 y2 v111 v211 v121 v221 xq yq) in *.
    set (b2 := bilin_core x1 x2 y1 y2 v112 v212 v122 v222 xq yq) in *.
    split; nra.
  - rewrite trilin_core_on_far_z by lra. exact B2.
Qed.

(* ================================================================== *)
(* 5. the theorems                                                      *)
(* ================================================================== *)
Section Theorems.
Variables (x y z v : arr R) (nx ny nz : Z).
Hypothesis Ax : axis x nx.
Hypothesis Ay : axis y ny.
Hypothesis Az : axis z nz.
Hypothesis Sv : shape v = [nx; ny; nz].

Section InHull.
Variables (xq yq zq xsrc ysrc zsrc vzero fval : R).
Hypothesis Hx : get 0 x [0%Z] <= xq <= get 0 x [(nx - 1)%Z].
Hypothesis Hy : get 0 y [0%Z] <= yq <= get 0 y [(ny - 1)%Z].
Hypothesis Hz : get 0 z [0%Z] <= zq <= get 0 z [(nz - 1)%Z].

Local Notation dq := (R_sqrt.sqrt ((xsrc - xq) ^ 2 + (ysrc - yq) ^ 2 + (zsrc - zq) ^ 2)).
Local Notation result := (u_vinterp3d_v x y z v xq yq zq xsrc ysrc zsrc vzero fval).
(* the query lies in the source's searchsorted cell *)
Local Notation same_cell :=
  (searchsorted_right x xsrc = searchsorted_right x xq /\
   searchsorted_right y ysrc = searchsorted_right y yq /\
   searchsorted_right z zsrc = searchsorted_right z zq).
(* every time the kernel reads is non-zero *)
Local Notation times_nonzero :=
  (forall k l m, used x nx xq k -> used y ny yq l -> used z nz zq m -> get 0 v [k; l; m] <> 0).

Lemma times_ok3_true : times_nonzero -> times_ok3 x y z v nx ny nz xq yq zq = true.
Proof.
  intros NZ. unfold times_ok3. cbv zeta. split_andb; apply nzm_true; intros M; apply NZ; used_side M.
Qed.

Lemma times_ok3_false :
  (exists k l m, used x nx xq k /\ used y ny yq l /\ used z nz zq m /\ get 0 v [k; l; m] = 0) ->
  times_ok3 x y z v nx ny nz xq yq zq = false.
Proof.
  intros (k & l & m & [-> | [-> Fx]] & [-> | [-> Fy]] & [-> | [-> Fz]] & Z0); unfold times_ok3; cbv zeta;
  rewrite ?Fx, ?Fy, ?Fz, Z0; cbn [orb]; rewrite nzm_zero; kill_andb_false; reflexivity.
Qed.

(* 3a. the query shares the source's searchsorted cell *)
Theorem vinterp3d_source_cell : same_cell -> result = vzero * dq.
Proof.
  intros (Ex & Ey & Ez). rewrite <- dist3d_R.
  rewrite (vinterp3d_source_cell_gen x y z v xq yq zq xsrc ysrc zsrc vzero fval); auto.
  rewrite (hull1_true x nx xq Ax Hx), (hull1_true y ny yq Ay Hy), (hull1_true z nz zq Az Hz). reflexivity.
Qed.

(* 3b. not the source's cell, but one of the times the kernel reads is zero *)
Theorem vinterp3d_zero_corner : ~ same_cell ->
  (exists k l m, used x nx xq k /\ used y ny yq l /\ used z nz zq m /\ get 0 v [k; l; m] = 0) ->
  result = vzero * dq.
Proof.
  intros NS Z0. rewrite <- dist3d_R.
  rewrite (vinterp3d_char x y z v nx ny nz xq yq zq xsrc ysrc zsrc vzero fval Ax Ay Az Sv Hx Hy Hz NS).
  rewrite (times_ok3_false Z0). reflexivity.
Qed.

(* 4. otherwise: distance over the trilinear interpolation of the apparent velocities, on the
      clamped cell; on a far face the lower corners of that axis enter with weight 0 *)
Theorem vinterp3d_spec : ~ same_cell -> times_nonzero ->
  result = vtrilin x y z v xsrc ysrc zsrc (cell x nx xq) (cell y ny yq) (cell z nz zq) xq yq zq.
Proof.
  intros NS NZ.
  rewrite (vinterp3d_char x y z v nx ny nz xq yq zq xsrc ysrc zsrc vzero fval Ax Ay Az Sv Hx Hy Hz NS).
  rewrite (times_ok3_true NZ). reflexivity.
Qed.

(* the two descriptions of a far face agree: a query on the last node of an axis gets the BILINEAR
   interpolation of the apparent velocities on that face, which only involves corners the kernel
   reads there (for an edge or the far corner compose with bilin_core_on_far_x/y/xy of VinterpR.v) *)
Theorem vinterp3d_spec_far_faces : ~ same_cell -> times_nonzero ->
  let i := cell x nx xq in let j := cell y ny yq in let k := cell z nz zq in
  let i' := (i + 1)%Z in let j' := (j + 1)%Z in let k' := (k + 1)%Z in
  let a := appvel3 x y z v xsrc ysrc zsrc in
  let d := dist3d xsrc ysrc zsrc xq yq zq in
  (xq = get 0 x [(nx - 1)%Z] -> i' = (nx - 1)%Z /\
     result = d / bilin_core (get 0 y [j]) (get 0 y [j']) (get 0 z [k]) (get 0 z [k'])
                             (a i' j k) (a i' j' k) (a i' j k') (a i' j' k') yq zq) /\
  (yq = get 0 y [(ny - 1)%Z] -> j' = (ny - 1)%Z /\
     result = d / bilin_core (get 0 x [i]) (get 0 x [i']) (get 0 z [k]) (get 0 z [k'])
                             (a i j' k) (a i' j' k) (a i j' k') (a i' j' k') xq zq) /\
  (zq = get 0 z [(nz - 1)%Z] -> k' = (nz - 1)%Z /\
     result = d / bilin_core (get 0 x [i]) (get 0 x [i']) (get 0 y [j]) (get 0 y [j'])
                             (a i j k') (a i' j k') (a i j' k') (a i' j' k') xq yq).
Proof.
  intros NS NZ i j k i' j' k' a d. rewrite (vinterp3d_spec NS NZ). fold i j k. unfold vtrilin. cbv zeta.
  fold a d i' j' k'.
  destruct (cell_facts x nx xq Ax (proj1 Hx) (proj2 Hx)) as (_ & _ & Dx).
  destruct (cell_facts y ny yq Ay (proj1 Hy) (proj2 Hy)) as (_ & _ & Dy).
  destruct (cell_facts z nz zq Az (proj1 Hz) (proj2 Hz)) as (_ & _ & Dz).
  fold i in Dx. fold j in Dy. fold k in Dz. fold i' in Dx. fold j' in Dy. fold k' in Dz.
  assert (F : forall (a : arr R) n q, axis a n -> get 0 a [0%Z] <= q <= get 0 a [(n - 1)%Z] ->
            q = get 0 a [(n - 1)%Z] -> (cell a n q + 1 = n - 1)%Z /\ q = get 0 a [(cell a n q + 1)%Z]).
  { intros a0 n q A [H0 H1] E. apply (far_true_iff a0 n q A H0 H1) in E.
    destruct (far_cases a0 n q A H0 H1) as [(F & _) | (_ & Eq & Ei)]; [congruence|]. split; assumption. }
  split; [|split]; intros E.
  - destruct (F x nx xq Ax Hx E) as [Ei Eq]. fold i in Ei, Eq. fold i' in Ei, Eq. split; [exact Ei|].
    rewrite (trilin_core_on_far_x _ _ _ _ _ _ _ _ _ _ _ _ _ _ xq yq zq) by (auto; lra). reflexivity.
  - destruct (F y ny yq Ay Hy E) as [Ei Eq]. fold j in Ei, Eq. fold j' in Ei, Eq. split; [exact Ei|].
    rewrite (trilin_core_on_far_y _ _ _ _ _ _ _ _ _ _ _ _ _ _ xq yq zq) by (auto; lra). reflexivity.
  - destruct (F z nz zq Az Hz E) as [Ei Eq]. fold k in Ei, Eq. fold k' in Ei, Eq. split; [exact Ei|].
    rewrite (trilin_core_on_far_z _ _ _ _ _ _ _ _ _ _ _ _ _ _ xq yq zq) by (auto; lra). reflexivity.
Qed.

(* 5b. bounds: the result is the distance over a convex combination of the apparent velocities *)
Theorem vinterp3d_bounds (lo hi : R) : ~ same_cell -> 0 < lo ->
  (forall k l m, used x nx xq k -> used y ny yq l -> used z nz zq m ->
     get 0 v [k; l; m] <> 0 /\ lo <= appvel3 x y z v xsrc ysrc zsrc k l m <= hi) ->
  dq / hi <= result <= dq / lo.
Proof.
  intros NS Hlo Hb.
  assert (NZ : times_nonzero) by (intros k l m Uk Ul Um; apply (Hb k l m Uk Ul Um)).
  rewrite (vinterp3d_spec NS NZ). unfold vtrilin. cbv zeta. rewrite <- dist3d_R.
  destruct (cell_facts x nx xq Ax (proj1 Hx) (proj2 Hx)) as (_ & Bx & Dx).
  destruct (cell_facts y ny yq Ay (proj1 Hy) (proj2 Hy)) as (_ & By & Dy).
  destruct (cell_facts z nz zq Az (proj1 Hz) (proj2 Hz)) as (_ & Bz & Dz).
  pose proof (used_lo_lt x nx xq Ax (proj1 Hx) (proj2 Hx)) as Lx.
  pose proof (used_lo_lt y ny yq Ay (proj1 Hy) (proj2 Hy)) as Ly.
  pose proof (used_lo_lt z nz zq Az (proj1 Hz) (proj2 Hz)) as Lz.
  pose proof (used_hi x nx xq) as Ux. pose proof (used_hi y ny yq) as Uy. pose proof (used_hi z nz zq) as Uz.
  match goal with |- _ <= _ / ?S <= _ => assert (HS : lo <= S <= hi) end.
  { apply trilin_core_convex_used; auto; intros; apply Hb; auto. }
  pose proof (dist3d_nonneg xsrc ysrc zsrc xq yq zq) as Dq.
  unfold Rdiv. split; apply Rmult_le_compat_l; auto; apply Rinv_le_contravar; lra.
Qed.

(* 5c. exact for a homogeneous medium: times proportional to the distance from the source *)
Theorem vinterp3d_homogeneous_exact (s : R) : ~ same_cell -> 0 < s ->
  (forall k l m, used x nx xq k -> used y ny yq l -> used z nz zq m ->
     0 < dist3d xsrc ysrc zsrc (get 0 x [k]) (get 0 y [l]) (get 0 z [m]) /\
     get 0 v [k; l; m] = s * dist3d xsrc ysrc zsrc (get 0 x [k]) (get 0 y [l]) (get 0 z [m])) ->
  result = s * dq.
Proof.
  intros NS Hs Hh.
  assert (P : 0 < 1 / s) by (apply Rdiv_lt_0_compat; lra).
  destruct (vinterp3d_bounds (1 / s) (1 / s) NS P) as [B1 B2].
  { intros k l m Uk Ul Um. destruct (Hh k l m Uk Ul Um) as [Dp Et]. unfold appvel3. rewrite Et.
    split; [nra|].
    set (d := dist3d xsrc ysrc zsrc (get 0 x [k]) (get 0 y [l]) (get 0 z [m])) in *.
    replace (d / (s * d)) with (1 / s) by (field; lra). lra. }
  replace (dq / (1 / s)) with (s * dq) in B1, B2 by (field; lra). lra.
Qed.
End InHull.

(* 2. at the source itself (inside the hull): 0 *)
Theorem vinterp3d_source (xsrc ysrc zsrc vzero fval : R) :
  get 0 x [0%Z] <= xsrc <= get 0 x [(nx - 1)%Z] -> get 0 y [0%Z] <= ysrc <= get 0 y [(ny - 1)%Z] ->
  get 0 z [0%Z] <= zsrc <= get 0 z [(nz - 1)%Z] ->
  u_vinterp3d_v x y z v xsrc ysrc zsrc xsrc ysrc zsrc vzero fval = 0.
Proof.
  intros Hx Hy Hz.
  rewrite (vinterp3d_source_cell xsrc ysrc zsrc xsrc ysrc zsrc vzero fval Hx Hy Hz
             (conj eq_refl (conj eq_refl eq_refl))).
  rewrite <- dist3d_R, dist3d_self. ring.
Qed.

(* 5a. at a node outside the source's cell, with non-zero times around: the node's time *)
Theorem vinterp3d_node (k l m : Z) (xsrc ysrc zsrc vzero fval : R) :
  (0 <= k < nx)%Z -> (0 <= l < ny)%Z -> (0 <= m < nz)%Z ->
  let xq := get 0 x [k] in let yq := get 0 y [l] in let zq := get 0 z [m] in
  ~ (searchsorted_right x xsrc = searchsorted_right x xq /\
     searchsorted_right y ysrc = searchsorted_right y yq /\
     searchsorted_right z zsrc = searchsorted_right z zq) ->
  (forall k' l' m', used x nx xq k' -> used y ny yq l' -> used z nz zq m' -> get 0 v [k'; l'; m'] <> 0) ->
  u_vinterp3d_v x y z v xq yq zq xsrc ysrc zsrc vzero fval = get 0 v [k; l; m].
Proof.
  intros Hk Hl Hm xq yq zq NS NZ.
  rewrite (vinterp3d_spec xq yq zq xsrc ysrc zsrc vzero fval
             (hull_node x nx k Ax Hk) (hull_node y ny l Ay Hl) (hull_node z nz m Az Hm) NS NZ).
  assert (Vn : get 0 v [k; l; m] <> 0) by (apply NZ; apply used_node; auto).
  assert (Dn : dist3d xsrc ysrc zsrc xq yq zq <> 0).
  { intros E. apply dist3d_zero in E as (E1 & E2 & E3). apply NS. rewrite E1, E2, E3. repeat split; reflexivity. }
  unfold xq, yq, zq in *.
  rewrite (cell_node x nx k Ax Hk), (cell_node y ny l Ay Hl), (cell_node z nz m Az Hm).
  pose proof (axis_n _ _ Ax) as Nx. pose proof (axis_n _ _ Ay) as Ny. pose proof (axis_n _ _ Az) as Nz.
  remember (Z.min k (nx - 2)) as c eqn:Ec. remember (Z.min l (ny - 2)) as e eqn:Ee.
  remember (Z.min m (nz - 2)) as r eqn:Er.
  assert (Hc : (0 <= c <= nx - 2)%Z) by lia. assert (He : (0 <= e <= ny - 2)%Z) by lia.
  assert (Hr : (0 <= r <= nz - 2)%Z) by lia.
  pose proof (axis_lt x nx c (c + 1) Ax ltac:(lia)) as Dx.
  pose proof (axis_lt y ny e (e + 1) Ay ltac:(lia)) as Dy.
  pose proof (axis_lt z nz r (r + 1) Az ltac:(lia)) as Dz.
  unfold vtrilin. cbv zeta.
  set (a := appvel3 x y z v xsrc ysrc zsrc).
  destruct (trilin_core_corners (get 0 x [c]) (get 0 x [(c + 1)%Z]) (get 0 y [e]) (get 0 y [(e + 1)%Z])
              (get 0 z [r]) (get 0 z [(r + 1)%Z])
              (a c e r) (a (c + 1)%Z e r) (a c (e + 1)%Z r) (a (c + 1)%Z (e + 1)%Z r)
              (a c e (r + 1)%Z) (a (c + 1)%Z e (r + 1)%Z) (a c (e + 1)%Z (r + 1)%Z)
              (a (c + 1)%Z (e + 1)%Z (r + 1)%Z)
              ltac:(lra) ltac:(lra) ltac:(lra)) as (C1 & C2 & C3 & C4 & C5 & C6 & C7 & C8).
  assert (Kc : k = c \/ k = (c + 1)%Z) by lia. assert (Le : l = e \/ l = (e + 1)%Z) by lia.
  assert (Mr : m = r \/ m = (r + 1)%Z) by lia.
  clear Ec Ee Er.
  destruct Kc as [Ek | Ek]; destruct Le as [El | El]; destruct Mr as [Em | Em]; subst k l m;
  first [rewrite C1 | rewrite C2 | rewrite C3 | rewrite C4 | rewrite C5 | rewrite C6 | rewrite C7 | rewrite C8];
  unfold a, appvel3; field; split; assumption.
Qed.
End Theorems.

Print Assumptions vinterp3d_outside.
Print Assumptions vinterp3d_source_cell_gen.
Print Assumptions vinterp3d_source.
Print Assumptions vinterp3d_source_cell.
Print Assumptions vinterp3d_zero_corner.
Print Assumptions vinterp3d_spec.
Print Assumptions vinterp3d_spec_far_faces.
Print Assumptions vinterp3d_node.
Print Assumptions vinterp3d_bounds.
Print Assumptions vinterp3d_homogeneous_exact.
