(* The step budget `max_step` of the a posteriori ray tracers (gen/Ray2d.v, gen/Ray3d.v; source
   /repo/fteikpy/_fteik/_ray2d.py, _ray3d.py) only decides between "report exhaustion" and
   "return the ray": it never changes the ray and never yields a ray cut short.

   Everything is generic in the numeric type T (class Num T) and holds for all inputs, both
   honor_grid modes.  For an input on which the core, run with budget M, returns Ok (ray, c)
   with c >= 1 (c + 1 stored vertices):

     ray2d_budget_independent   (B1)  every budget M' > c returns Ok (ray', c) with the same count, and the
                                      rows 0 .. min(M,M')-1 of ray' and ray coincide (in particular rows 0..c)
     ray2d_budget_mono          (B1, as asked) the case M' >= M: all M rows of ray are rows of ray'
     ray2d_budget_exhausted     (B2)  every budget M'' <= c returns the sentinel count -2 (the premise
                                      1 <= M'' is not needed in the model)
     ray2d_exhaustion_downward        corollary: a budget that is exhausted stays exhausted when lowered
     ray2d_outside_budget_free        the out-of-hull outcome (count -1) does not depend on the budget
     ray2d_wrapper_budget       (B4)  _ray2d: Ok (ray', c) for budgets > c, RuntimeError for budgets <= c
     ray2d_1_budget             (B4)  ray2d (single point): the returned polyline ray[count::-1] is the SAME
                                      array for every budget > c, RuntimeError for budgets <= c
     ray3d_*                    (B3)  the same statements for the 3D core and wrappers

   Fuel: the two runs make the same iterations, so the second run succeeds with the fuel of the
   first one; alternatively with the fuel bound of ray2d_terminates / ray3d_terminates for the new
   budget (premise `fuel <= fuel' \/ enough.. M' fuel'`).

   Method.  The loop (cond, body M, init M) is extracted from the generated definition (Ltac, no
   copy of the code); the body is normalised once on a state given by its components and seen to
   have the shape
       if budget test then Brk s else  k (c', d', l', n', p', ray or set_sub ray [c] pp, u')
   where k, c', .., pp do not depend on the ray buffer nor on M (out_rel).  Two runs with different
   budgets are then simulated in lock-step (section Lock, shared by 2D and 3D); the ray buffers
   are compared as flat lists (agree), so no shape invariant of the stored points is needed. *)
From Coq Require Import ZArith List Bool Lia.
From FT.lib Require Import Num Arr ArrLemmas NumArr.
From FT.gen Require Import Common Interp2d Interp3d FteikCommon Ray2d Ray3d.
From FT.proofs Require Import Ray2dProofs Ray3dProofs.
Import ListNotations.
Open Scope Z_scope.

(* ------------------------------------------------------------------------------------------ *)
(* 0. generic: fuel monotonicity of while_fuel, lists that agree on a prefix                    *)
(* ------------------------------------------------------------------------------------------ *)
Lemma while_fuel_mono {S} (cond : S -> bool) (body : S -> ctl S) :
  forall f f' s s1, while_fuel f cond body s = Ok s1 -> (f <= f')%nat -> while_fuel f' cond body s = Ok s1.
Proof.
  induction f as [|f IH]; intros f' s s1 Hw Hle; simpl in Hw; [discriminate|].
  destruct f' as [|f']; [lia|]. simpl.
  destruct (cond s); [|exact Hw].
  destruct (body s) as [s'|s'|e]; try exact Hw. apply IH; [exact Hw|lia].
Qed.

Lemma rbind_while_mono {S R} (cond : S -> bool) (body : S -> ctl S) (F : S -> res R) f f' s rc :
  rbind (while_fuel f cond body s) F = Ok rc -> (f <= f')%nat ->
  rbind (while_fuel f' cond body s) F = Ok rc.
Proof.
  intros Hr Hle. destruct (while_fuel f cond body s) as [s1| |] eqn:Ew; simpl in Hr; try discriminate.
  rewrite (while_fuel_mono cond body f f' s s1 Ew Hle). exact Hr.
Qed.

Section ListAgree.
Context {A : Type}.
(* the first k entries coincide *)
Definition agree (d : A) (k : nat) (l l' : list A) : Prop :=
  forall m, (m < k)%nat -> nth m l d = nth m l' d.

Lemma agree_upd d k l l' n v :
  (k <= length l)%nat -> (k <= length l')%nat -> agree d k l l' -> agree d k (upd l n v) (upd l' n v).
Proof.
  intros Hl Hl' Ha m Hm. destruct (Nat.eq_dec n m) as [->|Hne].
  - rewrite !nth_upd_same by lia. reflexivity.
  - rewrite !nth_upd_other by exact Hne. apply Ha. exact Hm.
Qed.

Lemma agree_upd_block d k : forall vs l l' n,
  (k <= length l)%nat -> (k <= length l')%nat -> agree d k l l' ->
  agree d k (upd_block l n vs) (upd_block l' n vs).
Proof.
  induction vs as [|v vs IH]; intros l l' n Hl Hl' Ha; simpl; [exact Ha|].
  apply IH; rewrite ?upd_length; auto. apply agree_upd; auto.
Qed.

Lemma firstn_skipn_agree d (k o N : nat) l l' :
  agree d N l l' -> (o + k <= N)%nat -> (N <= length l)%nat -> (N <= length l')%nat ->
  firstn k (skipn o l) = firstn k (skipn o l').
Proof.
  intros Ha Hok Hl Hl'. apply (nth_ext _ _ d d).
  - rewrite !length_firstn_skipn by lia. reflexivity.
  - intros c Hc. rewrite length_firstn_skipn in Hc by lia.
    rewrite !nth_firstn_lt by exact Hc. rewrite !nth_skipn_add. apply Ha. lia.
Qed.
End ListAgree.

(* ------------------------------------------------------------------------------------------ *)
(* 1. two ray buffers of different heights that agree on their common rows                      *)
(* ------------------------------------------------------------------------------------------ *)
Section RayRel.
Context {T : Type} `{Num T}.
Variable w : Z.
Hypothesis Hw : 0 <= w.

Definition rayrel (M M' : Z) (r r' : arr T) : Prop :=
  shape r = [M; w] /\ shape r' = [M'; w] /\
  length (dat r) = Z.to_nat (M * w) /\ length (dat r') = Z.to_nat (M' * w) /\
  agree (nofZ 0) (Z.to_nat (Z.min M M' * w)) (dat r) (dat r').

Lemma min_mul_le M M' : Z.min M M' * w <= M * w /\ Z.min M M' * w <= M' * w.
Proof. destruct (Z.min_spec M M') as [[? ->]|[? ->]]; nia. Qed.

Lemma sub_off_row M c : sub_off [M; w] [c] = c * w.
Proof. unfold sub_off, flat. simpl. unfold prodZ. simpl. lia. Qed.

Lemma rayrel_set_sub M M' r r' c pp :
  rayrel M M' r r' -> rayrel M M' (set_sub r [c] pp) (set_sub r' [c] pp).
Proof.
  intros (S1 & S2 & L1 & L2 & Ha). pose proof (min_mul_le M M') as [Hm1 Hm2].
  unfold rayrel, set_sub. cbn [shape dat]. rewrite !upd_block_length.
  split; [exact S1|]. split; [exact S2|]. split; [exact L1|]. split; [exact L2|].
  rewrite S1, S2, !sub_off_row. apply agree_upd_block; [lia|lia|exact Ha].
Qed.

Lemma rayrel_full M M' : rayrel M M' (full [M; w] (nofZ 0)) (full [M'; w] (nofZ 0)).
Proof.
  unfold rayrel, full. cbn [shape dat]. rewrite !repeat_length.
  assert (E : forall m, prodZ [m; w] = m * w) by (intros m; unfold prodZ; simpl; lia).
  rewrite !E. repeat split. intros m _. rewrite !nth_repeat. reflexivity.
Qed.

Lemma rayrel_shapes M M' r r' : rayrel M M' r r' -> shape r = [M; w] /\ shape r' = [M'; w].
Proof. intros (S1 & S2 & _). split; assumption. Qed.

Lemma rayrel_get M M' r r' k j :
  rayrel M M' r r' -> 0 <= k < Z.min M M' -> 0 <= j < w ->
  get (nofZ 0) r' [k; j] = get (nofZ 0) r [k; j].
Proof.
  intros (S1 & S2 & L1 & L2 & Ha) Hk Hj. unfold get. rewrite S1, S2, !flat2.
  symmetry. apply Ha. apply Z2Nat.inj_lt; nia.
Qed.

(* the reversed prefixes ray[count::-1] of the two buffers are the same array *)
Lemma rayrel_rev_prefix M M' r r' c :
  rayrel M M' r r' -> 0 <= c < Z.min M M' -> rev_prefix r c = rev_prefix r' c.
Proof.
  intros (S1 & S2 & L1 & L2 & Ha) Hc. pose proof (min_mul_le M M') as [Hm1 Hm2].
  unfold rev_prefix, dim. rewrite S1, S2. cbv zeta. cbn [nth]. f_equal. f_equal. f_equal.
  apply map_ext_in. intros q Hq. apply in_seq in Hq.
  unfold get_sub. rewrite S1, S2. cbn [dat length skipn]. rewrite !sub_off_row.
  assert (E : prodZ [w] = w) by (unfold prodZ; simpl; lia). rewrite E.
  apply (firstn_skipn_agree (nofZ 0) _ _ (Z.to_nat (Z.min M M' * w))); [exact Ha| |lia|lia].
  rewrite <- Z2Nat.inj_add by nia. apply Z2Nat.inj_le; nia.
Qed.
End RayRel.

(* ------------------------------------------------------------------------------------------ *)
(* 2. lock-step simulation of two runs of the ray loop with different budgets                   *)
(*    (the 2D and the 3D core share the state type St2)                                         *)
(* ------------------------------------------------------------------------------------------ *)
Section Lock.
Context {T : Type} `{Num T}.
Local Notation St := (@St2 T).

(* everything but the ray buffer *)
Definition drop (s : St) : Z * arr T * arr T * Z * arr T * arr T :=
  (s_count s, s_delta s, s_lower s, s_nfree s, s_pcur s, s_upper s).
(* the budget test made at the top of the body and again after the loop *)
Definition btest (M nf : Z) (s : St) : bool := (M <=? s_count s) || (nf <? s_nfree s).
Definition mk (k : bool) (s : St) : ctl St := if k then Next s else Brk s.

(* outcome of one body execution (budget test passed) on two states that differ in the ray
   buffer only: same control, same components, and the buffer is kept or gets the same row *)
Inductive out_rel (s t : St) : ctl St -> ctl St -> Prop :=
| OR_keep (k : bool) (s' t' : St) :
    drop s' = drop t' -> s_count s' = s_count s -> s_ray s' = s_ray s -> s_ray t' = s_ray t ->
    out_rel s t (mk k s') (mk k t')
| OR_store (k : bool) (s' t' : St) (pp : arr T) :
    drop s' = drop t' -> s_count s' = s_count s + 1 ->
    s_ray s' = set_sub (s_ray s) [s_count s] pp -> s_ray t' = set_sub (s_ray t) [s_count s] pp ->
    out_rel s t (mk k s') (mk k t').

(* the four leaves met in the generated bodies *)
Lemma or_keep_next c d l n p r r' u c' d' l' n' p' u' : c' = c ->
  out_rel (c, d, l, n, p, r, u) (c, d, l, n, p, r', u)
          (Next (c', d', l', n', p', r, u')) (Next (c', d', l', n', p', r', u')).
Proof. intros ->. apply (OR_keep _ _ true); reflexivity. Qed.
Lemma or_keep_brk c d l n p r r' u c' d' l' n' p' u' : c' = c ->
  out_rel (c, d, l, n, p, r, u) (c, d, l, n, p, r', u)
          (Brk (c', d', l', n', p', r, u')) (Brk (c', d', l', n', p', r', u')).
Proof. intros ->. apply (OR_keep _ _ false); reflexivity. Qed.
Lemma or_store_next c d l n p r r' u c' d' l' n' p' u' pp : c' = c + 1 ->
  out_rel (c, d, l, n, p, r, u) (c, d, l, n, p, r', u)
          (Next (c', d', l', n', p', set_sub r [c] pp, u')) (Next (c', d', l', n', p', set_sub r' [c] pp, u')).
Proof. intros ->. apply (OR_store _ _ true _ _ pp); reflexivity. Qed.
Lemma or_store_brk c d l n p r r' u c' d' l' n' p' u' pp : c' = c + 1 ->
  out_rel (c, d, l, n, p, r, u) (c, d, l, n, p, r', u)
          (Brk (c', d', l', n', p', set_sub r [c] pp, u')) (Brk (c', d', l', n', p', set_sub r' [c] pp, u')).
Proof. intros ->. apply (OR_store _ _ false _ _ pp); reflexivity. Qed.

Lemma drop_count s t : drop s = drop t -> s_count s = s_count t /\ s_nfree s = s_nfree t /\ s_pcur s = s_pcur t.
Proof. unfold drop. intros E. injection E as -> _ _ -> -> _. auto. Qed.

Lemma btest_drop M nf s t : drop s = drop t -> btest M nf s = btest M nf t.
Proof. intros Hd. destruct (drop_count s t Hd) as (E1 & E2 & _). unfold btest. rewrite E1, E2. reflexivity. Qed.

Variables (w nf : Z) (cond : St -> bool) (body : Z -> St -> ctl St) (init : Z -> St) (srcv : arr T).
Hypothesis Hw : 0 <= w.
Hypothesis Hcond : forall s t, drop s = drop t -> cond s = cond t.
Hypothesis Hbrk : forall M s, btest M nf s = true -> body M s = Brk s.
Hypothesis Hrel : forall M M' s t, drop s = drop t -> btest M nf s = false -> btest M' nf t = false ->
                  out_rel s t (body M s) (body M' t).
Hypothesis Hinit_drop : forall M M', drop (init M) = drop (init M').
Hypothesis Hinit_ray : forall M, s_ray (init M) = set_sub (full [M; w] (nofZ 0)) [0] (s_pcur (init M)).

(* what the cores return after the loop *)
Definition finG (M : Z) (s : St) : res (arr T * Z) :=
  if btest M nf s then Ok (s_ray s, -2)
  else Ok (set_sub (s_ray s) [s_count s] srcv, s_count s).
Definition run (M : Z) (fuel : nat) : res (arr T * Z) :=
  rbind (while_fuel fuel cond (body M) (init M)) (finG M).

(* the count never decreases *)
Lemma run_count_mono M : forall fuel s s1,
  while_fuel fuel cond (body M) s = Ok s1 -> s_count s <= s_count s1.
Proof.
  induction fuel as [|f IH]; intros s s1 Hw'; simpl in Hw'; [discriminate|].
  destruct (cond s); [|injection Hw' as <-; lia].
  destruct (btest M nf s) eqn:Et.
  - rewrite (Hbrk M s Et) in Hw'. injection Hw' as <-. lia.
  - pose proof (Hrel M M s s eq_refl Et Et) as Ho.
    inversion Ho as [k s' t' D1 C1 R1 R2 Ea Eb|k s' t' pp D1 C1 R1 R2 Ea Eb];
      rewrite <- Ea in Hw'; destruct k; simpl in Hw';
      try (apply IH in Hw'; lia); injection Hw' as <-; lia.
Qed.

Definition Sim (M M' : Z) (s t : St) : Prop := drop s = drop t /\ rayrel w M M' (s_ray s) (s_ray t).

(* a run that ends within both budgets is reproduced step by step under the other budget *)
Lemma lock_run M M' : forall fuel s t s1,
  Sim M M' s t -> while_fuel fuel cond (body M) s = Ok s1 -> btest M nf s1 = false -> s_count s1 < M' ->
  exists t1, while_fuel fuel cond (body M') t = Ok t1 /\ Sim M M' s1 t1.
Proof.
  induction fuel as [|f IH]; intros s t s1 [Hd Hr] Hw' Hg Hlt; [discriminate|].
  pose proof (run_count_mono M _ _ _ Hw') as Hmono. simpl in Hw' |- *.
  rewrite <- (Hcond s t Hd). destruct (cond s).
  2:{ injection Hw' as <-. exists t. split; [reflexivity|split; assumption]. }
  destruct (btest M nf s) eqn:Et.
  { rewrite (Hbrk M s Et) in Hw'. injection Hw' as <-. congruence. }
  assert (Et' : btest M' nf t = false).
  { destruct (drop_count s t Hd) as (E1 & E2 & _). unfold btest in *.
    apply orb_false_elim in Et. destruct Et as [_ Et2]. rewrite <- E1, <- E2, Et2.
    apply orb_false_intro; [apply Z.leb_gt; lia|reflexivity]. }
  pose proof (Hrel M M' s t Hd Et Et') as Ho.
  inversion Ho as [k s' t' D1 C1 R1 R2 Ea Eb|k s' t' pp D1 C1 R1 R2 Ea Eb];
    rewrite <- Ea in Hw'.
  - assert (Hs : Sim M M' s' t') by (split; [exact D1|rewrite R1, R2; exact Hr]).
    destruct k; simpl in Hw' |- *.
    + apply (IH s' t' s1 Hs Hw' Hg Hlt).
    + injection Hw' as <-. exists t'. split; [reflexivity|exact Hs].
  - assert (Hs : Sim M M' s' t').
    { split; [exact D1|]. rewrite R1, R2. apply rayrel_set_sub; [exact Hw|exact Hr]. }
    destruct k; simpl in Hw' |- *.
    + apply (IH s' t' s1 Hs Hw' Hg Hlt).
    + injection Hw' as <-. exists t'. split; [reflexivity|exact Hs].
Qed.

Lemma Sim_init M M' : Sim M M' (init M) (init M').
Proof.
  split; [apply Hinit_drop|]. rewrite !Hinit_ray.
  destruct (drop_count _ _ (Hinit_drop M M')) as (_ & _ & ->).
  apply rayrel_set_sub; [exact Hw|]. apply rayrel_full.
Qed.

(* (B1), same fuel *)
Lemma run_budget_independent M M' fuel ray c :
  run M fuel = Ok (ray, c) -> 1 <= c -> c < M' ->
  exists ray', run M' fuel = Ok (ray', c) /\ rayrel w M M' ray ray'.
Proof.
  unfold run. intros Hr Hc Hlt.
  destruct (while_fuel fuel cond (body M) (init M)) as [s1| |] eqn:Ew; simpl in Hr; try discriminate.
  unfold finG in Hr. destruct (btest M nf s1) eqn:Et; injection Hr as <- <-; [lia|].
  destruct (lock_run M M' fuel _ _ s1 (Sim_init M M') Ew Et Hlt) as (t1 & Ew' & Hd & Hrr).
  rewrite Ew'. simpl. unfold finG.
  destruct (drop_count s1 t1 Hd) as (E1 & E2 & _).
  assert (Et' : btest M' nf t1 = false).
  { unfold btest in *. apply orb_false_elim in Et. destruct Et as [_ Et2]. rewrite <- E1, <- E2, Et2.
    apply orb_false_intro; [apply Z.leb_gt; lia|reflexivity]. }
  rewrite Et', <- E1. eexists. split; [reflexivity|]. apply rayrel_set_sub; [exact Hw|exact Hrr].
Qed.

(* (B2), same fuel: under a budget that the final count reaches, the run stops with count >= budget *)
Lemma lock_exhaust M M'' : forall fuel s t s1,
  drop s = drop t -> while_fuel fuel cond (body M) s = Ok s1 -> btest M nf s1 = false -> M'' <= s_count s1 ->
  exists t1, while_fuel fuel cond (body M'') t = Ok t1 /\ M'' <= s_count t1.
Proof.
  induction fuel as [|f IH]; intros s t s1 Hd Hw' Hg Hle; [discriminate|]. simpl in Hw' |- *.
  destruct (drop_count s t Hd) as (E1 & E2 & _).
  rewrite <- (Hcond s t Hd). destruct (cond s).
  2:{ injection Hw' as <-. exists t. split; [reflexivity|lia]. }
  destruct (btest M'' nf t) eqn:Et''.
  { rewrite (Hbrk M'' t Et''). exists t. split; [reflexivity|].
    destruct (btest M nf s) eqn:Et.
    - rewrite (Hbrk M s Et) in Hw'. injection Hw' as <-. lia.
    - unfold btest in Et, Et''. apply orb_false_elim in Et. destruct Et as [_ Et2].
      rewrite <- E2, Et2, orb_false_r in Et''. apply Z.leb_le in Et''. exact Et''. }
  destruct (btest M nf s) eqn:Et.
  { rewrite (Hbrk M s Et) in Hw'. injection Hw' as <-. congruence. }
  pose proof (Hrel M M'' s t Hd Et Et'') as Ho.
  inversion Ho as [k s' t' D1 C1 R1 R2 Ea Eb|k s' t' pp D1 C1 R1 R2 Ea Eb];
    rewrite <- Ea in Hw'; destruct k; simpl in Hw' |- *;
    try (apply (IH s' t' s1 D1 Hw' Hg Hle));
    injection Hw' as <-; exists t'; (split; [reflexivity|]);
    destruct (drop_count _ _ D1) as (F1 & _); lia.
Qed.

Lemma run_budget_exhausted M M'' fuel ray c :
  run M fuel = Ok (ray, c) -> 1 <= c -> M'' <= c ->
  exists ray'', run M'' fuel = Ok (ray'', -2).
Proof.
  unfold run. intros Hr Hc Hle.
  destruct (while_fuel fuel cond (body M) (init M)) as [s1| |] eqn:Ew; simpl in Hr; try discriminate.
  unfold finG in Hr. destruct (btest M nf s1) eqn:Et; injection Hr as <- <-; [lia|].
  destruct (lock_exhaust M M'' fuel _ _ s1 (Hinit_drop M M'') Ew Et Hle) as (t1 & Ew' & Hge).
  rewrite Ew'. simpl. unfold finG.
  assert (Et' : btest M'' nf t1 = true).
  { unfold btest. apply orb_true_intro. left. apply Z.leb_le. exact Hge. }
  rewrite Et'. eexists. reflexivity.
Qed.
End Lock.

(* ------------------------------------------------------------------------------------------ *)
(* 3. the 2D core                                                                               *)
(* ------------------------------------------------------------------------------------------ *)
(* leaf of a normalised body: one of the four shapes *)
Ltac or_leaf :=
  first [ apply or_keep_next; reflexivity | apply or_keep_brk; reflexivity
        | apply or_store_next; reflexivity | apply or_store_brk; reflexivity ].
(* case analysis on the conditions in head position of both outcomes (they are the same terms) *)
Ltac or_walk :=
  repeat lazymatch goal with
         | |- out_rel _ _ (if ?c then _ else _) _ => destruct c
         end;
  or_leaf.

(* (cond, body, init) of the while loop of a generated core: the lets in front of the loop are
   substituted (the loop mentions their variables), the lets inside the body are kept *)
Ltac loop_of t :=
  lazymatch t with
  | let x := ?v in @?b x => let t' := eval cbv beta in (b v) in loop_of t'
  | if _ then _ else ?e => loop_of e
  | rbind (while_fuel _ ?C ?B ?s0) _ => constr:((C, B, s0))
  end.

Section Core2.
Context {T : Type} `{Num T}.
Variables (z x zgrad xgrad : arr T) (zend xend zsrc xsrc stepsize : T).
Local Notation St := (@St2 T).

(* loop test, loop body and initial state of _ray2d_core, taken from the generated definition *)
Definition loop2 (hg : bool) (M : Z) : ((St -> bool) * (St -> ctl St) * St)%type :=
  ltac:(let t := eval cbv beta delta [u_ray2d_core_v] in
                 (u_ray2d_core_v 0%nat z x zgrad xgrad zend xend zsrc xsrc stepsize M hg) in
        let r := loop_of t in exact r).
Definition cond2 (hg : bool) : St -> bool := fst (fst (loop2 hg 0)).
Definition body2 (hg : bool) (M : Z) : St -> ctl St := snd (fst (loop2 hg M)).
Definition init2 (hg : bool) (M : Z) : St := snd (loop2 hg M).
Definition nf2 : Z := nfree_max2 z x stepsize.
Definition src2 : arr T := of_list [zsrc; xsrc].

Lemma core2_eq hg M fuel :
  hull2 z x zend xend = true ->
  u_ray2d_core_v fuel z x zgrad xgrad zend xend zsrc xsrc stepsize M hg =
  run nf2 (cond2 hg) (body2 hg) (init2 hg) src2 M fuel.
Proof.
  intros Hh.
  transitivity (if negb (hull2 z x zend xend) then Ok (full [M; 2] (nofZ 0), -1)
                else run nf2 (cond2 hg) (body2 hg) (init2 hg) src2 M fuel); [reflexivity|].
  rewrite Hh. reflexivity.
Qed.

Lemma cond2_drop hg s t : drop s = drop t -> cond2 hg s = cond2 hg t.
Proof.
  intros Hd. destruct (drop_count s t Hd) as (_ & _ & Ep).
  destruct s as [[[[[[c d] l] n] p] r] u]. destruct t as [[[[[[c' d'] l'] n'] p'] r'] u'].
  cbn [s_pcur fst snd] in Ep. subst p'. reflexivity.
Qed.

Lemma body2_brk hg M s : btest M nf2 s = true -> body2 hg M s = Brk s.
Proof.
  destruct s as [[[[[[c d] l] n] p] r] u]. unfold btest, nf2, nfree_max2. cbn [s_count s_nfree fst snd].
  intros Et. destruct hg; cbv beta zeta iota delta [body2 loop2 fst snd u_ray2d_core_v_p1];
    rewrite Et; reflexivity.
Qed.

Lemma body2_rel hg M M' s t :
  drop s = drop t -> btest M nf2 s = false -> btest M' nf2 t = false ->
  out_rel s t (body2 hg M s) (body2 hg M' t).
Proof.
  destruct s as [[[[[[c d] l] n] p] r] u]. destruct t as [[[[[[c' d'] l'] n'] p'] r'] u'].
  unfold drop, btest, nf2, nfree_max2. cbn [s_count s_delta s_lower s_nfree s_pcur s_upper fst snd].
  intros Hd Et Et'. injection Hd as <- <- <- <- <- <-.
  destruct hg; cbv beta zeta iota delta [body2 loop2 fst snd u_ray2d_core_v_p1];
    rewrite Et, Et'; or_walk.
Qed.

Lemma init2_drop hg M M' : drop (init2 hg M) = drop (init2 hg M').
Proof. destruct hg; reflexivity. Qed.
Lemma init2_ray hg M : s_ray (init2 hg M) = set_sub (full [M; 2] (nofZ 0)) [0] (s_pcur (init2 hg M)).
Proof. destruct hg; reflexivity. Qed.
End Core2.

Section Budget2.
Context {T : Type} `{Num T}.
Variables (z x zgrad xgrad : arr T) (zend xend zsrc xsrc stepsize : T) (hg : bool).
Notation core M fuel := (u_ray2d_core_v fuel z x zgrad xgrad zend xend zsrc xsrc stepsize M hg).
Notation single M fuel := (u_ray2d_v fuel z x zgrad xgrad zend xend zsrc xsrc stepsize M hg).

(* the fuel premise of ray2d_terminates for budget M *)
Definition enough2 (M : Z) (fuel : nat) : Prop :=
  ((Z.to_nat M + 1) * (Z.to_nat (nfree_max2 z x stepsize) + 2) + 1 <= fuel)%nat.

Lemma core2_fuel_mono M fuel fuel' rc : core M fuel = Ok rc -> (fuel <= fuel')%nat -> core M fuel' = Ok rc.
Proof.
  intros Hc Hle. destruct (hull2 z x zend xend) eqn:Hh.
  - rewrite core2_eq in Hc |- * by exact Hh. unfold run in *.
    exact (rbind_while_mono _ _ _ _ _ _ _ Hc Hle).
  - rewrite ray2d_core_outside in Hc |- * by exact Hh. exact Hc.
Qed.

(* a result obtained with some fuel is the result for every larger or sufficient fuel *)
Lemma core2_fuel_any M fuel fuel' rc :
  core M fuel = Ok rc -> ((fuel <= fuel')%nat \/ enough2 M fuel') -> core M fuel' = Ok rc.
Proof.
  intros Hc [Hle|Hen]; [exact (core2_fuel_mono M fuel fuel' rc Hc Hle)|].
  destruct (core M fuel') as [rc'|e|] eqn:Ec'.
  - pose proof (core2_fuel_mono M fuel (Nat.max fuel fuel') rc Hc (Nat.le_max_l _ _)) as E1.
    pose proof (core2_fuel_mono M fuel' (Nat.max fuel fuel') rc' Ec' (Nat.le_max_r _ _)) as E2.
    congruence.
  - exfalso. exact (ray2d_core_no_raise _ _ _ _ _ _ _ _ _ _ _ _ _ Ec').
  - exfalso. exact (ray2d_terminates _ _ _ _ _ _ _ _ _ _ _ _ Hen Ec').
Qed.

Lemma core2_ok_hull M fuel ray c : core M fuel = Ok (ray, c) -> 1 <= c -> hull2 z x zend xend = true.
Proof.
  intros Hc Hpos. destruct (hull2 z x zend xend) eqn:Hh; [reflexivity|].
  rewrite ray2d_core_outside in Hc by exact Hh. injection Hc as _ <-. lia.
Qed.

Local Notation runM := (run (nf2 z x stepsize) (cond2 z x zgrad xgrad zend xend zsrc xsrc stepsize hg)
                            (body2 z x zgrad xgrad zend xend zsrc xsrc stepsize hg)
                            (init2 z x zgrad xgrad zend xend zsrc xsrc stepsize hg) (src2 zsrc xsrc)).

Lemma run2_independent M M' fuel ray c :
  runM M fuel = Ok (ray, c) -> 1 <= c -> c < M' ->
  exists ray', runM M' fuel = Ok (ray', c) /\ rayrel 2 M M' ray ray'.
Proof.
  apply run_budget_independent.
  - lia.
  - apply cond2_drop.
  - apply body2_brk.
  - apply body2_rel.
  - apply init2_drop.
  - apply init2_ray.
Qed.

Lemma run2_exhausted M M'' fuel ray c :
  runM M fuel = Ok (ray, c) -> 1 <= c -> M'' <= c -> exists ray'', runM M'' fuel = Ok (ray'', -2).
Proof.
  apply run_budget_exhausted.
  - apply cond2_drop.
  - apply body2_brk.
  - apply body2_rel.
  - apply init2_drop.
Qed.

(* (B1) every budget above the count returns the same count and the same rows *)
Theorem ray2d_budget_independent M M' fuel fuel' ray c :
  core M fuel = Ok (ray, c) -> 1 <= c -> c < M' ->
  ((fuel <= fuel')%nat \/ enough2 M' fuel') ->
  exists ray', core M' fuel' = Ok (ray', c) /\ shape ray' = [M'; 2] /\
    forall k j, 0 <= k < Z.min M M' -> 0 <= j < 2 ->
                get (nofZ 0) ray' [k; j] = get (nofZ 0) ray [k; j].
Proof.
  intros Hc Hpos Hlt Hf. pose proof (core2_ok_hull M fuel ray c Hc Hpos) as Hh.
  rewrite core2_eq in Hc by exact Hh.
  destruct (run2_independent M M' fuel ray c Hc Hpos Hlt) as (ray' & Hr' & Hrr).
  rewrite <- (core2_eq z x zgrad xgrad zend xend zsrc xsrc stepsize hg M' fuel Hh) in Hr'.
  exists ray'. split; [exact (core2_fuel_any M' fuel fuel' _ Hr' Hf)|].
  split; [exact (proj2 (rayrel_shapes 2 _ _ _ _ Hrr))|].
  intros k j Hk Hj. exact (rayrel_get 2 ltac:(lia) _ _ _ _ k j Hrr Hk Hj).
Qed.

(* (B1) as a monotonicity statement: raising the budget keeps the count and all rows of the ray *)
Theorem ray2d_budget_mono M M' fuel fuel' ray c :
  core M fuel = Ok (ray, c) -> 1 <= c -> M <= M' ->
  ((fuel <= fuel')%nat \/ enough2 M' fuel') ->
  exists ray', core M' fuel' = Ok (ray', c) /\ shape ray' = [M'; 2] /\
    (forall k j, 0 <= k < M -> 0 <= j < 2 -> get (nofZ 0) ray' [k; j] = get (nofZ 0) ray [k; j]) /\
    (forall k j, 0 <= k <= c -> 0 <= j < 2 -> get (nofZ 0) ray' [k; j] = get (nofZ 0) ray [k; j]).
Proof.
  intros Hc Hpos Hle Hf.
  destruct (ray2d_core_count_range _ _ _ _ _ _ _ _ _ _ _ _ _ _ Hc) as [Hrange _].
  assert (Hlt : c < M) by lia.
  destruct (ray2d_budget_independent M M' fuel fuel' ray c Hc Hpos ltac:(lia) Hf) as (ray' & Hr' & Hs' & Hg).
  exists ray'. split; [exact Hr'|]. split; [exact Hs'|].
  split; intros k j Hk Hj; apply Hg; lia.
Qed.

(* (B2) every budget that the count reaches reports exhaustion *)
Theorem ray2d_budget_exhausted M M'' fuel fuel'' ray c :
  core M fuel = Ok (ray, c) -> 1 <= c -> M'' <= c ->
  ((fuel <= fuel'')%nat \/ enough2 M'' fuel'') ->
  exists ray'', core M'' fuel'' = Ok (ray'', -2).
Proof.
  intros Hc Hpos Hle Hf. pose proof (core2_ok_hull M fuel ray c Hc Hpos) as Hh.
  rewrite core2_eq in Hc by exact Hh.
  destruct (run2_exhausted M M'' fuel ray c Hc Hpos Hle) as (ray'' & Hr'').
  rewrite <- (core2_eq z x zgrad xgrad zend xend zsrc xsrc stepsize hg M'' fuel Hh) in Hr''.
  exists ray''. exact (core2_fuel_any M'' fuel fuel'' _ Hr'' Hf).
Qed.

(* an exhausted budget stays exhausted when lowered (contrapositive of B1) *)
Theorem ray2d_exhaustion_downward M M'' fuel fuel'' ray :
  core M fuel = Ok (ray, -2) -> M'' <= M -> enough2 M fuel -> enough2 M'' fuel'' ->
  exists ray'', core M'' fuel'' = Ok (ray'', -2).
Proof.
  intros Hc Hle Hen Hen''.
  destruct (core M'' fuel'') as [[ray'' c'']|e|] eqn:Ec''.
  - destruct (ray2d_core_count_range _ _ _ _ _ _ _ _ _ _ _ _ _ _ Ec'') as [[->|[->|Hr]] _].
    + exfalso. destruct (hull2 z x zend xend) eqn:Hh.
      * pose proof (ray2d_raises_value_error_iff z x zgrad xgrad zend xend zsrc xsrc stepsize M'' hg fuel'') as Hv.
        unfold u_ray2d_v in Hv. rewrite Ec'' in Hv. simpl in Hv.
        destruct Hv as [Hv|Hv]; [discriminate|]. destruct Hv as [Hv _]. specialize (Hv eq_refl). congruence.
      * rewrite ray2d_core_outside in Hc by exact Hh. discriminate.
    + exists ray''. reflexivity.
    + exfalso.
      destruct (ray2d_budget_mono M'' M fuel'' fuel ray'' c'' Ec'' ltac:(lia) Hle (or_intror Hen))
        as (r' & Hr' & _). rewrite Hc in Hr'. injection Hr' as _ E. lia.
  - exfalso. exact (ray2d_core_no_raise _ _ _ _ _ _ _ _ _ _ _ _ _ Ec'').
  - exfalso. exact (ray2d_terminates _ _ _ _ _ _ _ _ _ _ _ _ Hen'' Ec'').
Qed.

(* the out-of-hull outcome does not depend on the budget (nor on the fuel) *)
Theorem ray2d_outside_budget_free M fuel ray :
  core M fuel = Ok (ray, -1) ->
  forall M' fuel', core M' fuel' = Ok (full [M'; 2] (nofZ 0), -1).
Proof.
  intros Hc M' fuel'. apply ray2d_core_outside.
  pose proof (ray2d_raises_value_error_iff z x zgrad xgrad zend xend zsrc xsrc stepsize M hg fuel) as Hv.
  unfold u_ray2d_v in Hv. rewrite Hc in Hv. simpl in Hv.
  destruct Hv as [Hv|[Hv _]]; [discriminate|]. exact (Hv eq_refl).
Qed.

(* (B4) the wrapper _ray2d *)
Theorem ray2d_wrapper_budget M fuel ray c :
  single M fuel = Ok (ray, c) ->
  1 <= c < M /\
  (forall M' fuel', c < M' -> ((fuel <= fuel')%nat \/ enough2 M' fuel') ->
     exists ray', single M' fuel' = Ok (ray', c) /\ rev_prefix ray' c = rev_prefix ray c) /\
  (forall M'' fuel'', M'' <= c -> ((fuel <= fuel'')%nat \/ enough2 M'' fuel'') ->
     single M'' fuel'' = Raise RuntimeError).
Proof.
  unfold u_ray2d_v. intros Hs.
  destruct (core M fuel) as [[ray0 c0]| |] eqn:Hc; simpl in Hs; try discriminate.
  destruct (ray2d_core_count_range _ _ _ _ _ _ _ _ _ _ _ _ _ _ Hc) as [Hrange _].
  destruct (Z.eqb_spec c0 (-1)); [discriminate|].
  destruct (Z.eqb_spec c0 (-2)); [discriminate|]. injection Hs as <- <-.
  assert (Hpos : 1 <= c0) by lia. split; [lia|]. split.
  - intros M' fuel' Hlt Hf. pose proof (core2_ok_hull M fuel ray0 c0 Hc Hpos) as Hh.
    pose proof Hc as Hc1. rewrite core2_eq in Hc1 by exact Hh.
    destruct (run2_independent M M' fuel ray0 c0 Hc1 Hpos Hlt) as (ray' & Hr' & Hrr).
    rewrite <- (core2_eq z x zgrad xgrad zend xend zsrc xsrc stepsize hg M' fuel Hh) in Hr'.
    rewrite (core2_fuel_any M' fuel fuel' _ Hr' Hf). simpl.
    destruct (Z.eqb_spec c0 (-1)); [lia|]. destruct (Z.eqb_spec c0 (-2)); [lia|].
    exists ray'. split; [reflexivity|]. symmetry.
    apply (rayrel_rev_prefix 2 ltac:(lia) M M'); [exact Hrr|lia].
  - intros M'' fuel'' Hle Hf.
    destruct (ray2d_budget_exhausted M M'' fuel fuel'' ray0 c0 Hc Hpos Hle Hf) as (ray'' & ->).
    reflexivity.
Qed.
End Budget2.

(* (B4) ray2d on a single point: the polyline does not depend on the budget *)
Theorem ray2d_1_budget {T} `{Num T} (z x zgrad xgrad p src : arr T) (stepsize : T) (hg : bool) M fuel r :
  ray2d_1 fuel z x zgrad xgrad p src stepsize M hg = Ok r ->
  exists c, 1 <= c < M /\ shape r = [c + 1; 2] /\
    (forall M' fuel', c < M' -> ((fuel <= fuel')%nat \/ enough2 z x stepsize M' fuel') ->
       ray2d_1 fuel' z x zgrad xgrad p src stepsize M' hg = Ok r) /\
    (forall M'' fuel'', M'' <= c -> ((fuel <= fuel'')%nat \/ enough2 z x stepsize M'' fuel'') ->
       ray2d_1 fuel'' z x zgrad xgrad p src stepsize M'' hg = Raise RuntimeError).
Proof.
  unfold ray2d_1. intros Hr.
  destruct (u_ray2d_v fuel _ _ _ _ _ _ _ _ _ M hg) as [[ray c]| |] eqn:Hs; simpl in Hr; try discriminate.
  injection Hr as <-.
  destruct (ray2d_wrapper_budget _ _ _ _ _ _ _ _ _ _ _ _ _ _ Hs) as (Hrange & Hup & Hdown).
  exists c. split; [exact Hrange|]. split.
  - unfold u_ray2d_v in Hs.
    destruct (u_ray2d_core_v fuel _ _ _ _ _ _ _ _ _ M hg) as [[ray0 c0]| |] eqn:Hc; simpl in Hs; try discriminate.
    destruct (ray2d_core_count_range _ _ _ _ _ _ _ _ _ _ _ _ _ _ Hc) as [_ Hsh].
    destruct (c0 =? -1); [discriminate|]. destruct (c0 =? -2); [discriminate|]. injection Hs as <- <-.
    apply shape_rev_prefix with (n := M). exact Hsh.
  - split.
    + intros M' fuel' Hlt Hf. destruct (Hup M' fuel' Hlt Hf) as (ray' & -> & E). simpl. rewrite E. reflexivity.
    + intros M'' fuel'' Hle Hf. rewrite (Hdown M'' fuel'' Hle Hf). reflexivity.
Qed.

(* ------------------------------------------------------------------------------------------ *)
(* 4. the 3D core (B3): same development                                                        *)
(* ------------------------------------------------------------------------------------------ *)
Section Core3.
Context {T : Type} `{Num T}.
Variables (z x y zgrad xgrad ygrad : arr T) (zend xend yend zsrc xsrc ysrc stepsize : T).
Local Notation St := (@St2 T).

(* loop test, loop body and initial state of _ray3d_core, taken from the generated definition *)
Definition loop3 (hg : bool) (M : Z) : ((St -> bool) * (St -> ctl St) * St)%type :=
  ltac:(let t := eval cbv beta delta [u_ray3d_core_v] in
                 (u_ray3d_core_v 0%nat z x y zgrad xgrad ygrad zend xend yend zsrc xsrc ysrc stepsize M hg) in
        let r := loop_of t in exact r).
Definition cond3 (hg : bool) : St -> bool := fst (fst (loop3 hg 0)).
Definition body3 (hg : bool) (M : Z) : St -> ctl St := snd (fst (loop3 hg M)).
Definition init3 (hg : bool) (M : Z) : St := snd (loop3 hg M).
Definition nf3 : Z := nfree_max3 z x y stepsize.
Definition src3 : arr T := of_list [zsrc; xsrc; ysrc].

Lemma core3_eq hg M fuel :
  hull3 z x y zend xend yend = true ->
  u_ray3d_core_v fuel z x y zgrad xgrad ygrad zend xend yend zsrc xsrc ysrc stepsize M hg =
  run nf3 (cond3 hg) (body3 hg) (init3 hg) src3 M fuel.
Proof.
  intros Hh.
  transitivity (if negb (hull3 z x y zend xend yend) then Ok (full [M; 3] (nofZ 0), -1)
                else run nf3 (cond3 hg) (body3 hg) (init3 hg) src3 M fuel); [reflexivity|].
  rewrite Hh. reflexivity.
Qed.

Lemma cond3_drop hg s t : drop s = drop t -> cond3 hg s = cond3 hg t.
Proof.
  intros Hd. destruct (drop_count s t Hd) as (_ & _ & Ep).
  destruct s as [[[[[[c d] l] n] p] r] u]. destruct t as [[[[[[c' d'] l'] n'] p'] r'] u'].
  cbn [s_pcur fst snd] in Ep. subst p'. reflexivity.
Qed.

Lemma body3_brk hg M s : btest M nf3 s = true -> body3 hg M s = Brk s.
Proof.
  destruct s as [[[[[[c d] l] n] p] r] u]. unfold btest, nf3, nfree_max3. cbn [s_count s_nfree fst snd].
  intros Et. destruct hg; cbv beta zeta iota delta [body3 loop3 fst snd u_ray3d_core_v_p1];
    rewrite Et; reflexivity.
Qed.

Lemma body3_rel hg M M' s t :
  drop s = drop t -> btest M nf3 s = false -> btest M' nf3 t = false ->
  out_rel s t (body3 hg M s) (body3 hg M' t).
Proof.
  destruct s as [[[[[[c d] l] n] p] r] u]. destruct t as [[[[[[c' d'] l'] n'] p'] r'] u'].
  unfold drop, btest, nf3, nfree_max3. cbn [s_count s_delta s_lower s_nfree s_pcur s_upper fst snd].
  intros Hd Et Et'. injection Hd as <- <- <- <- <- <-.
  destruct hg; cbv beta zeta iota delta [body3 loop3 fst snd u_ray3d_core_v_p1];
    rewrite Et, Et'; or_walk.
Qed.

Lemma init3_drop hg M M' : drop (init3 hg M) = drop (init3 hg M').
Proof. destruct hg; reflexivity. Qed.
Lemma init3_ray hg M : s_ray (init3 hg M) = set_sub (full [M; 3] (nofZ 0)) [0] (s_pcur (init3 hg M)).
Proof. destruct hg; reflexivity. Qed.
End Core3.

Section Budget3.
Context {T : Type} `{Num T}.
Variables (z x y zgrad xgrad ygrad : arr T) (zend xend yend zsrc xsrc ysrc stepsize : T) (hg : bool).
Notation core M fuel := (u_ray3d_core_v fuel z x y zgrad xgrad ygrad zend xend yend zsrc xsrc ysrc stepsize M hg).
Notation single M fuel := (u_ray3d_v fuel z x y zgrad xgrad ygrad zend xend yend zsrc xsrc ysrc stepsize M hg).

(* the fuel premise of ray3d_terminates for budget M *)
Definition enough3 (M : Z) (fuel : nat) : Prop :=
  ((Z.to_nat M + 1) * (Z.to_nat (nfree_max3 z x y stepsize) + 2) + 1 <= fuel)%nat.

Lemma core3_fuel_mono M fuel fuel' rc : core M fuel = Ok rc -> (fuel <= fuel')%nat -> core M fuel' = Ok rc.
Proof.
  intros Hc Hle. destruct (hull3 z x y zend xend yend) eqn:Hh.
  - rewrite core3_eq in Hc |- * by exact Hh. unfold run in *.
    exact (rbind_while_mono _ _ _ _ _ _ _ Hc Hle).
  - rewrite ray3d_core_outside in Hc |- * by exact Hh. exact Hc.
Qed.

(* a result obtained with some fuel is the result for every larger or sufficient fuel *)
Lemma core3_fuel_any M fuel fuel' rc :
  core M fuel = Ok rc -> ((fuel <= fuel')%nat \/ enough3 M fuel') -> core M fuel' = Ok rc.
Proof.
  intros Hc [Hle|Hen]; [exact (core3_fuel_mono M fuel fuel' rc Hc Hle)|].
  destruct (core M fuel') as [rc'|e|] eqn:Ec'.
  - pose proof (core3_fuel_mono M fuel (Nat.max fuel fuel') rc Hc (Nat.le_max_l _ _)) as E1.
    pose proof (core3_fuel_mono M fuel' (Nat.max fuel fuel') rc' Ec' (Nat.le_max_r _ _)) as E2.
    congruence.
  - exfalso. exact (ray3d_core_no_raise _ _ _ _ _ _ _ _ _ _ _ _ _ _ _ _ _ Ec').
  - exfalso. exact (ray3d_terminates _ _ _ _ _ _ _ _ _ _ _ _ _ _ _ _ Hen Ec').
Qed.

Lemma core3_ok_hull M fuel ray c : core M fuel = Ok (ray, c) -> 1 <= c -> hull3 z x y zend xend yend = true.
Proof.
  intros Hc Hpos. destruct (hull3 z x y zend xend yend) eqn:Hh; [reflexivity|].
  rewrite ray3d_core_outside in Hc by exact Hh. injection Hc as _ <-. lia.
Qed.

Local Notation runM := (run (nf3 z x y stepsize) (cond3 z x y zgrad xgrad ygrad zend xend yend zsrc xsrc ysrc stepsize hg)
                            (body3 z x y zgrad xgrad ygrad zend xend yend zsrc xsrc ysrc stepsize hg)
                            (init3 z x y zgrad xgrad ygrad zend xend yend zsrc xsrc ysrc stepsize hg) (src3 zsrc xsrc ysrc)).

Lemma run3_independent M M' fuel ray c :
  runM M fuel = Ok (ray, c) -> 1 <= c -> c < M' ->
  exists ray', runM M' fuel = Ok (ray', c) /\ rayrel 3 M M' ray ray'.
Proof.
  apply run_budget_independent.
  - lia.
  - apply cond3_drop.
  - apply body3_brk.
  - apply body3_rel.
  - apply init3_drop.
  - apply init3_ray.
Qed.

Lemma run3_exhausted M M'' fuel ray c :
  runM M fuel = Ok (ray, c) -> 1 <= c -> M'' <= c -> exists ray'', runM M'' fuel = Ok (ray'', -2).
Proof.
  apply run_budget_exhausted.
  - apply cond3_drop.
  - apply body3_brk.
  - apply body3_rel.
  - apply init3_drop.
Qed.

(* (B1) every budget above the count returns the same count and the same rows *)
Theorem ray3d_budget_independent M M' fuel fuel' ray c :
  core M fuel = Ok (ray, c) -> 1 <= c -> c < M' ->
  ((fuel <= fuel')%nat \/ enough3 M' fuel') ->
  exists ray', core M' fuel' = Ok (ray', c) /\ shape ray' = [M'; 3] /\
    forall k j, 0 <= k < Z.min M M' -> 0 <= j < 3 ->
                get (nofZ 0) ray' [k; j] = get (nofZ 0) ray [k; j].
Proof.
  intros Hc Hpos Hlt Hf. pose proof (core3_ok_hull M fuel ray c Hc Hpos) as Hh.
  rewrite core3_eq in Hc by exact Hh.
  destruct (run3_independent M M' fuel ray c Hc Hpos Hlt) as (ray' & Hr' & Hrr).
  rewrite <- (core3_eq z x y zgrad xgrad ygrad zend xend yend zsrc xsrc ysrc stepsize hg M' fuel Hh) in Hr'.
  exists ray'. split; [exact (core3_fuel_any M' fuel fuel' _ Hr' Hf)|].
  split; [exact (proj2 (rayrel_shapes 3 _ _ _ _ Hrr))|].
  intros k j Hk Hj. exact (rayrel_get 3 ltac:(lia) _ _ _ _ k j Hrr Hk Hj).
Qed.

(* (B1) as a monotonicity statement: raising the budget keeps the count and all rows of the ray *)
Theorem ray3d_budget_mono M M' fuel fuel' ray c :
  core M fuel = Ok (ray, c) -> 1 <= c -> M <= M' ->
  ((fuel <= fuel')%nat \/ enough3 M' fuel') ->
  exists ray', core M' fuel' = Ok (ray', c) /\ shape ray' = [M'; 3] /\
    (forall k j, 0 <= k < M -> 0 <= j < 3 -> get (nofZ 0) ray' [k; j] = get (nofZ 0) ray [k; j]) /\
    (forall k j, 0 <= k <= c -> 0 <= j < 3 -> get (nofZ 0) ray' [k; j] = get (nofZ 0) ray [k; j]).
Proof.
  intros Hc Hpos Hle Hf.
  destruct (ray3d_core_count_range _ _ _ _ _ _ _ _ _ _ _ _ _ _ _ _ _ _ Hc) as [Hrange _].
  assert (Hlt : c < M) by lia.
  destruct (ray3d_budget_independent M M' fuel fuel' ray c Hc Hpos ltac:(lia) Hf) as (ray' & Hr' & Hs' & Hg).
  exists ray'. split; [exact Hr'|]. split; [exact Hs'|].
  split; intros k j Hk Hj; apply Hg; lia.
Qed.

(* (B2) every budget that the count reaches reports exhaustion *)
Theorem ray3d_budget_exhausted M M'' fuel fuel'' ray c :
  core M fuel = Ok (ray, c) -> 1 <= c -> M'' <= c ->
  ((fuel <= fuel'')%nat \/ enough3 M'' fuel'') ->
  exists ray'', core M'' fuel'' = Ok (ray'', -2).
Proof.
  intros Hc Hpos Hle Hf. pose proof (core3_ok_hull M fuel ray c Hc Hpos) as Hh.
  rewrite core3_eq in Hc by exact Hh.
  destruct (run3_exhausted M M'' fuel ray c Hc Hpos Hle) as (ray'' & Hr'').
  rewrite <- (core3_eq z x y zgrad xgrad ygrad zend xend yend zsrc xsrc ysrc stepsize hg M'' fuel Hh) in Hr''.
  exists ray''. exact (core3_fuel_any M'' fuel fuel'' _ Hr'' Hf).
Qed.

(* an exhausted budget stays exhausted when lowered (contrapositive of B1) *)
Theorem ray3d_exhaustion_downward M M'' fuel fuel'' ray :
  core M fuel = Ok (ray, -2) -> M'' <= M -> enough3 M fuel -> enough3 M'' fuel'' ->
  exists ray'', core M'' fuel'' = Ok (ray'', -2).
Proof.
  intros Hc Hle Hen Hen''.
  destruct (core M'' fuel'') as [[ray'' c'']|e|] eqn:Ec''.
  - destruct (ray3d_core_count_range _ _ _ _ _ _ _ _ _ _ _ _ _ _ _ _ _ _ Ec'') as [[->|[->|Hr]] _].
    + exfalso. destruct (hull3 z x y zend xend yend) eqn:Hh.
      * pose proof (ray3d_raises_value_error_iff z x y zgrad xgrad ygrad zend xend yend zsrc xsrc ysrc stepsize M'' hg fuel'') as Hv.
        unfold u_ray3d_v in Hv. rewrite Ec'' in Hv. simpl in Hv.
        destruct Hv as [Hv|Hv]; [discriminate|]. destruct Hv as [Hv _]. specialize (Hv eq_refl). congruence.
      * rewrite ray3d_core_outside in Hc by exact Hh. discriminate.
    + exists ray''. reflexivity.
    + exfalso.
      destruct (ray3d_budget_mono M'' M fuel'' fuel ray'' c'' Ec'' ltac:(lia) Hle (or_intror Hen))
        as (r' & Hr' & _). rewrite Hc in Hr'. injection Hr' as _ E. lia.
  - exfalso. exact (ray3d_core_no_raise _ _ _ _ _ _ _ _ _ _ _ _ _ _ _ _ _ Ec'').
  - exfalso. exact (ray3d_terminates _ _ _ _ _ _ _ _ _ _ _ _ _ _ _ _ Hen'' Ec'').
Qed.

(* the out-of-hull outcome does not depend on the budget (nor on the fuel) *)
Theorem ray3d_outside_budget_free M fuel ray :
  core M fuel = Ok (ray, -1) ->
  forall M' fuel', core M' fuel' = Ok (full [M'; 3] (nofZ 0), -1).
Proof.
  intros Hc M' fuel'. apply ray3d_core_outside.
  pose proof (ray3d_raises_value_error_iff z x y zgrad xgrad ygrad zend xend yend zsrc xsrc ysrc stepsize M hg fuel) as Hv.
  unfold u_ray3d_v in Hv. rewrite Hc in Hv. simpl in Hv.
  destruct Hv as [Hv|[Hv _]]; [discriminate|]. exact (Hv eq_refl).
Qed.

(* (B4) the wrapper _ray3d *)
Theorem ray3d_wrapper_budget M fuel ray c :
  single M fuel = Ok (ray, c) ->
  1 <= c < M /\
  (forall M' fuel', c < M' -> ((fuel <= fuel')%nat \/ enough3 M' fuel') ->
     exists ray', single M' fuel' = Ok (ray', c) /\ rev_prefix ray' c = rev_prefix ray c) /\
  (forall M'' fuel'', M'' <= c -> ((fuel <= fuel'')%nat \/ enough3 M'' fuel'') ->
     single M'' fuel'' = Raise RuntimeError).
Proof.
  unfold u_ray3d_v. intros Hs.
  destruct (core M fuel) as [[ray0 c0]| |] eqn:Hc; simpl in Hs; try discriminate.
  destruct (ray3d_core_count_range _ _ _ _ _ _ _ _ _ _ _ _ _ _ _ _ _ _ Hc) as [Hrange _].
  destruct (Z.eqb_spec c0 (-1)); [discriminate|].
  destruct (Z.eqb_spec c0 (-2)); [discriminate|]. injection Hs as <- <-.
  assert (Hpos : 1 <= c0) by lia. split; [lia|]. split.
  - intros M' fuel' Hlt Hf. pose proof (core3_ok_hull M fuel ray0 c0 Hc Hpos) as Hh.
    pose proof Hc as Hc1. rewrite core3_eq in Hc1 by exact Hh.
    destruct (run3_independent M M' fuel ray0 c0 Hc1 Hpos Hlt) as (ray' & Hr' & Hrr).
    rewrite <- (core3_eq z x y zgrad xgrad ygrad zend xend yend zsrc xsrc ysrc stepsize hg M' fuel Hh) in Hr'.
    rewrite (core3_fuel_any M' fuel fuel' _ Hr' Hf). simpl.
    destruct (Z.eqb_spec c0 (-1)); [lia|]. destruct (Z.eqb_spec c0 (-2)); [lia|].
    exists ray'. split; [reflexivity|]. symmetry.
    apply (rayrel_rev_prefix 3 ltac:(lia) M M'); [exact Hrr|lia].
  - intros M'' fuel'' Hle Hf.
    destruct (ray3d_budget_exhausted M M'' fuel fuel'' ray0 c0 Hc Hpos Hle Hf) as (ray'' & ->).
    reflexivity.
Qed.
End Budget3.

(* (B4) ray3d on a single point: the polyline does not depend on the budget *)
Theorem ray3d_1_budget {T} `{Num T} (z x y zgrad xgrad ygrad p src : arr T) (stepsize : T) (hg : bool) M fuel r :
  ray3d_1 fuel z x y zgrad xgrad ygrad p src stepsize M hg = Ok r ->
  exists c, 1 <= c < M /\ shape r = [c + 1; 3] /\
    (forall M' fuel', c < M' -> ((fuel <= fuel')%nat \/ enough3 z x y stepsize M' fuel') ->
       ray3d_1 fuel' z x y zgrad xgrad ygrad p src stepsize M' hg = Ok r) /\
    (forall M'' fuel'', M'' <= c -> ((fuel <= fuel'')%nat \/ enough3 z x y stepsize M'' fuel'') ->
       ray3d_1 fuel'' z x y zgrad xgrad ygrad p src stepsize M'' hg = Raise RuntimeError).
Proof.
  unfold ray3d_1. intros Hr.
  destruct (u_ray3d_v fuel _ _ _ _ _ _ _ _ _ _ _ _ _ M hg) as [[ray c]| |] eqn:Hs; simpl in Hr; try discriminate.
  injection Hr as <-.
  destruct (ray3d_wrapper_budget _ _ _ _ _ _ _ _ _ _ _ _ _ _ _ _ _ _ Hs) as (Hrange & Hup & Hdown).
  exists c. split; [exact Hrange|]. split.
  - unfold u_ray3d_v in Hs.
    destruct (u_ray3d_core_v fuel _ _ _ _ _ _ _ _ _ _ _ _ _ M hg) as [[ray0 c0]| |] eqn:Hc; simpl in Hs; try discriminate.
    destruct (ray3d_core_count_range _ _ _ _ _ _ _ _ _ _ _ _ _ _ _ _ _ _ Hc) as [_ Hsh].
    destruct (c0 =? -1); [discriminate|]. destruct (c0 =? -2); [discriminate|]. injection Hs as <- <-.
    apply shape_rev_prefix with (n := M). exact Hsh.
  - split.
    + intros M' fuel' Hlt Hf. destruct (Hup M' fuel' Hlt Hf) as (ray' & -> & E). simpl. rewrite E. reflexivity.
    + intros M'' fuel'' Hle Hf. rewrite (Hdown M'' fuel'' Hle Hf). reflexivity.
Qed.

(* ------------------------------------------------------------------------------------------ *)
(* 5. the premises are satisfiable: binary64 runs of the generated model (vm_compute), both     *)
(*    modes, and the two theorems instantiated on them                                          *)
(*    2D free mode: one elongated 1 x 4 cell (the run of RayStep.last_segment_2d_refuted_binary64) *)
(*    grid mode: 2 x 2 (x 2) unit cells, gradient pointing away from the source node             *)
(* ------------------------------------------------------------------------------------------ *)
From Coq Require Import PrimFloat.
Section Examples.
Local Open Scope float_scope.

Definition bz : arr float := mkarr [2%Z] [0; 1].
Definition bx : arr float := mkarr [2%Z] [0; 4].
Definition bg0 : arr float := mkarr [2%Z; 2%Z] [0; 0; 0; 0].
Definition bgx : arr float := mkarr [2%Z; 2%Z] [-1; 1; -1; 1].

Definition ax3 : arr float := mkarr [3%Z] [0; 1; 2].
Definition gzz : arr float := mkarr [3%Z; 3%Z] [0; 0; 0; 0.5; 0.5; 0.5; 1; 1; 1].
Definition gxx : arr float := mkarr [3%Z; 3%Z] [0; 1; 1; 0; 1; 1; 0; 1; 1].

Definition gz27 : arr float := mkarr [3%Z; 3%Z; 3%Z]
  [0;0;0;0;0;0;0;0;0; 0.5;0.5;0.5;0.5;0.5;0.5;0.5;0.5;0.5; 1;1;1;1;1;1;1;1;1].
Definition gx27 : arr float := mkarr [3%Z; 3%Z; 3%Z]
  [0;0;0;1;1;1;1;1;1; 0;0;0;1;1;1;1;1;1; 0;0;0;1;1;1;1;1;1].
Definition gy27 : arr float := mkarr [3%Z; 3%Z; 3%Z]
  [0;0.5;1;0;0.5;1;0;0.5;1; 0;0.5;1;0;0.5;1;0;0.5;1; 0;0.5;1;0;0.5;1;0;0.5;1].

(* free mode, budget 20: 5 vertices + source; hence count 5 for every budget >= 6, exhaustion for <= 5 *)
Example ray2d_budget_example_free :
  (exists ray, u_ray2d_core_v 30%nat bz bx bg0 bgx 0 4 0 0 0.5 20%Z false = Ok (ray, 5%Z)) /\
  (forall M' fuel', (5 < M')%Z -> (30 <= fuel')%nat ->
     exists ray', u_ray2d_core_v fuel' bz bx bg0 bgx 0 4 0 0 0.5 M' false = Ok (ray', 5%Z)) /\
  (forall M'' fuel'', (M'' <= 5)%Z -> (30 <= fuel'')%nat ->
     exists ray'', u_ray2d_core_v fuel'' bz bx bg0 bgx 0 4 0 0 0.5 M'' false = Ok (ray'', (-2)%Z)).
Proof.
  assert (E : exists ray, u_ray2d_core_v 30%nat bz bx bg0 bgx 0 4 0 0 0.5 20%Z false = Ok (ray, 5%Z))
    by (vm_compute; eexists; reflexivity).
  split; [exact E|]. destruct E as [ray E]. split.
  - intros M' fuel' HM Hf.
    destruct (ray2d_budget_independent _ _ _ _ _ _ _ _ _ _ 20%Z M' 30%nat fuel' ray 5%Z E ltac:(lia) HM (or_introl Hf))
      as (ray' & Hr' & _). exists ray'. exact Hr'.
  - intros M'' fuel'' HM Hf.
    exact (ray2d_budget_exhausted _ _ _ _ _ _ _ _ _ _ 20%Z M'' 30%nat fuel'' ray 5%Z E ltac:(lia) HM (or_introl Hf)).
Qed.

(* the exhausted and the sufficient budget next to the count, evaluated *)
Example ray2d_budget_example_free_edge :
  (exists ray, u_ray2d_core_v 30%nat bz bx bg0 bgx 0 4 0 0 0.5 5%Z false = Ok (ray, (-2)%Z)) /\
  (exists ray, u_ray2d_core_v 30%nat bz bx bg0 bgx 0 4 0 0 0.5 6%Z false = Ok (ray, 5%Z)).
Proof. split; vm_compute; eexists; reflexivity. Qed.

(* grid mode, budget 30: 4 vertices + source *)
Example ray2d_budget_example_grid :
  (exists ray, u_ray2d_core_v 60%nat ax3 ax3 gzz gxx 1.75 1.5 0 0 0.25 30%Z true = Ok (ray, 4%Z)) /\
  (forall M' fuel', (4 < M')%Z -> (60 <= fuel')%nat ->
     exists ray', u_ray2d_core_v fuel' ax3 ax3 gzz gxx 1.75 1.5 0 0 0.25 M' true = Ok (ray', 4%Z)) /\
  (forall M'' fuel'', (M'' <= 4)%Z -> (60 <= fuel'')%nat ->
     exists ray'', u_ray2d_core_v fuel'' ax3 ax3 gzz gxx 1.75 1.5 0 0 0.25 M'' true = Ok (ray'', (-2)%Z)).
Proof.
  assert (E : exists ray, u_ray2d_core_v 60%nat ax3 ax3 gzz gxx 1.75 1.5 0 0 0.25 30%Z true = Ok (ray, 4%Z))
    by (vm_compute; eexists; reflexivity).
  split; [exact E|]. destruct E as [ray E]. split.
  - intros M' fuel' HM Hf.
    destruct (ray2d_budget_independent _ _ _ _ _ _ _ _ _ _ 30%Z M' 60%nat fuel' ray 4%Z E ltac:(lia) HM (or_introl Hf))
      as (ray' & Hr' & _). exists ray'. exact Hr'.
  - intros M'' fuel'' HM Hf.
    exact (ray2d_budget_exhausted _ _ _ _ _ _ _ _ _ _ 30%Z M'' 60%nat fuel'' ray 4%Z E ltac:(lia) HM (or_introl Hf)).
Qed.

Example ray3d_budget_example_free :
  (exists ray, u_ray3d_core_v 80%nat ax3 ax3 ax3 gz27 gx27 gy27 1.75 1.5 1.25 0 0 0 0.25 30%Z false = Ok (ray, 11%Z)) /\
  (forall M' fuel', (11 < M')%Z -> (80 <= fuel')%nat ->
     exists ray', u_ray3d_core_v fuel' ax3 ax3 ax3 gz27 gx27 gy27 1.75 1.5 1.25 0 0 0 0.25 M' false = Ok (ray', 11%Z)) /\
  (forall M'' fuel'', (M'' <= 11)%Z -> (80 <= fuel'')%nat ->
     exists ray'', u_ray3d_core_v fuel'' ax3 ax3 ax3 gz27 gx27 gy27 1.75 1.5 1.25 0 0 0 0.25 M'' false = Ok (ray'', (-2)%Z)).
Proof.
  assert (E : exists ray, u_ray3d_core_v 80%nat ax3 ax3 ax3 gz27 gx27 gy27 1.75 1.5 1.25 0 0 0 0.25 30%Z false
                          = Ok (ray, 11%Z))
    by (vm_compute; eexists; reflexivity).
  split; [exact E|]. destruct E as [ray E]. split.
  - intros M' fuel' HM Hf.
    destruct (ray3d_budget_independent _ _ _ _ _ _ _ _ _ _ _ _ _ _ 30%Z M' 80%nat fuel' ray 11%Z E ltac:(lia) HM (or_introl Hf))
      as (ray' & Hr' & _). exists ray'. exact Hr'.
  - intros M'' fuel'' HM Hf.
    exact (ray3d_budget_exhausted _ _ _ _ _ _ _ _ _ _ _ _ _ _ 30%Z M'' 80%nat fuel'' ray 11%Z E ltac:(lia) HM (or_introl Hf)).
Qed.

Example ray3d_budget_example_grid :
  (exists ray, u_ray3d_core_v 80%nat ax3 ax3 ax3 gz27 gx27 gy27 1.75 1.5 1.25 0 0 0 0.25 30%Z true = Ok (ray, 5%Z)) /\
  (forall M' fuel', (5 < M')%Z -> (80 <= fuel')%nat ->
     exists ray', u_ray3d_core_v fuel' ax3 ax3 ax3 gz27 gx27 gy27 1.75 1.5 1.25 0 0 0 0.25 M' true = Ok (ray', 5%Z)) /\
  (forall M'' fuel'', (M'' <= 5)%Z -> (80 <= fuel'')%nat ->
     exists ray'', u_ray3d_core_v fuel'' ax3 ax3 ax3 gz27 gx27 gy27 1.75 1.5 1.25 0 0 0 0.25 M'' true = Ok (ray'', (-2)%Z)).
Proof.
  assert (E : exists ray, u_ray3d_core_v 80%nat ax3 ax3 ax3 gz27 gx27 gy27 1.75 1.5 1.25 0 0 0 0.25 30%Z true
                          = Ok (ray, 5%Z))
    by (vm_compute; eexists; reflexivity).
  split; [exact E|]. destruct E as [ray E]. split.
  - intros M' fuel' HM Hf.
    destruct (ray3d_budget_independent _ _ _ _ _ _ _ _ _ _ _ _ _ _ 30%Z M' 80%nat fuel' ray 5%Z E ltac:(lia) HM (or_introl Hf))
      as (ray' & Hr' & _). exists ray'. exact Hr'.
  - intros M'' fuel'' HM Hf.
    exact (ray3d_budget_exhausted _ _ _ _ _ _ _ _ _ _ _ _ _ _ 30%Z M'' 80%nat fuel'' ray 5%Z E ltac:(lia) HM (or_introl Hf)).
Qed.

(* the wrapper on the grid-mode run: one polyline for every sufficient budget *)
Example ray2d_1_budget_example :
  exists r, ray2d_1 60%nat ax3 ax3 gzz gxx (mkarr [2%Z] [1.75; 1.5]) (mkarr [2%Z] [0; 0]) 0.25 30%Z true = Ok r /\
    shape r = [5%Z; 2%Z] /\
    (forall M' fuel', (4 < M')%Z -> (60 <= fuel')%nat ->
       ray2d_1 fuel' ax3 ax3 gzz gxx (mkarr [2%Z] [1.75; 1.5]) (mkarr [2%Z] [0; 0]) 0.25 M' true = Ok r) /\
    (forall M'' fuel'', (M'' <= 4)%Z -> (60 <= fuel'')%nat ->
       ray2d_1 fuel'' ax3 ax3 gzz gxx (mkarr [2%Z] [1.75; 1.5]) (mkarr [2%Z] [0; 0]) 0.25 M'' true = Raise RuntimeError).
Proof.
  assert (E : exists r, ray2d_1 60%nat ax3 ax3 gzz gxx (mkarr [2%Z] [1.75; 1.5]) (mkarr [2%Z] [0; 0]) 0.25 30%Z true = Ok r
                        /\ shape r = [5%Z; 2%Z])
    by (vm_compute; eexists; split; reflexivity).
  destruct E as (r & E & Hs). exists r. split; [exact E|]. split; [exact Hs|].
  destruct (ray2d_1_budget _ _ _ _ _ _ _ _ _ _ _ E) as (c & Hc & Hs' & Hup & Hdown).
  assert (c = 4%Z) by (rewrite Hs in Hs'; injection Hs' as Hs'; lia). subst c.
  split.
  - intros M' fuel' HM Hf. apply Hup; [exact HM|left; exact Hf].
  - intros M'' fuel'' HM Hf. apply Hdown; [exact HM|left; exact Hf].
Qed.
End Examples.

Print Assumptions ray2d_budget_independent.
Print Assumptions ray2d_budget_mono.
Print Assumptions ray2d_budget_exhausted.
Print Assumptions ray2d_exhaustion_downward.
Print Assumptions ray2d_outside_budget_free.
Print Assumptions ray2d_wrapper_budget.
Print Assumptions ray2d_1_budget.
Print Assumptions ray3d_budget_independent.
Print Assumptions ray3d_budget_mono.
Print Assumptions ray3d_budget_exhausted.
Print Assumptions ray3d_exhaustion_downward.
Print Assumptions ray3d_outside_budget_free.
Print Assumptions ray3d_wrapper_budget.
Print Assumptions ray3d_1_budget.
Print Assumptions ray2d_budget_example_free.
Print Assumptions ray2d_budget_example_grid.
Print Assumptions ray3d_budget_example_free.
Print Assumptions ray3d_budget_example_grid.
Print Assumptions ray2d_1_budget_example.
