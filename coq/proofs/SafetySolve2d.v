(* Memory safety of the whole 2D solver (gen/Fteik2d.v: fteik2d), generic in the numeric type, all shapes with at
   least one cell per axis, all sources:
     fteik2d_p1_ok_true        reading the slowness of the source cell
     fteik2d_p2_ok_true        the source initialisation (four corner writes, four loops along the source row/column)
     fteik2d_ok_true           fteik2d only performs in-range accesses
   `f_ok true false args = true` : index obligations on, divisor obligations off.
   Compile proofs/SafetyTools.v, proofs/SafetySolveTools.v (TruncLaws, the walker), proofs/Safety2d.v first. *)
From Coq Require Import ZArith List Bool Lia Reals Lra.
From FT.lib Require Import Num Arr ArrLemmas.
From FT.gen Require Import Common Fteik2d.
From FT.proofs Require Import SafetyTools SafetySolveTools Safety2d.
Import ListNotations.
Open Scope Z_scope.

(* ---------- shapes through value-level code ---------- *)
(* Goal  P (let x := v in F x)  where P is an invariant of the final state.  The let-chain is walked one binding at a
   time and nothing is ever substituted: a bound array is replaced by a variable of known shape, a bound tuple of
   arrays (a loop result, a conditional update) by a variable satisfying the invariant `vinv` of its type, any
   other binding by an unconstrained variable.  `unfh H` unfolds an invariant hypothesis, `fin` closes an invariant
   of a tuple of variables. *)
Definition shp_is {A} (sh : list Z) (a : arr A) : Prop := shape a = sh.

Ltac shape_expr a :=
  lazymatch a with
  | set ?b _ _ => shape_expr b
  | set_sub ?b _ _ => shape_expr b
  | full ?sh _ => sh
  | fill ?b _ => shape_expr b
  | (if _ then _ else ?b) => shape_expr b
  | _ => lazymatch goal with
         | Hsh : shape a = ?sh |- _ => sh
         | _ => constr:(shape a)
         end
  end.

Ltac shape_hyp_norm Hx :=
  unfold shp_is in Hx; rewrite ?shape_set, ?shape_set_sub in Hx; cbn [shape full fill] in Hx;
  try match type of Hx with
      | _ = shape ?a => match goal with Ha : shape a = _ |- _ => rewrite Ha in Hx end
      end.

(* Conversion between two large let-terms is very expensive (every `let` is expanded on both sides, without sharing),
   so a chain  P (let x1 := v1 in ... let xn := vn in t)  is handled in ONE step: every binding is posed as a local
   definition, the goal is replaced by  P t  (`change_no_check`: the kernel checks it once, at Qed), and only then the
   definitions are visited in program order, each body being forgotten once the facts about it are recorded. *)
Ltac vpeel t acc k :=
  lazymatch t with
  | (let x := ?v in @?F x) =>
      lazymatch v with
      | (let y := ?a in @?G y) =>
          let t' := eval cbv beta in (let y := a in let x := G y in F x) in vpeel t' acc k
      | _ =>
          let x' := fresh "v" in
          pose (x' := v);
          let b := eval cbv beta in (F x') in
          vpeel b constr:((acc, x')) k
      end
  | _ => k t acc
  end.

Ltac vregion vinv unfh fin :=
  lazymatch goal with |- ?P ?t =>
    let t' := eval cbv beta in t in
    vpeel t' constr:(I) ltac:(fun ft acc =>
      change_no_check (P ft); vdefs vinv unfh fin acc; vterm vinv unfh fin)
  end
with vdefs vinv unfh fin acc :=
  lazymatch acc with
  | (?rest, ?x) => vdefs vinv unfh fin rest; vproc vinv unfh fin x
  | _ => idtac
  end
with vproc vinv unfh fin x :=
  let v := eval cbv delta [x] in x in
  let tv := type of x in
  lazymatch tv with
  | arr _ =>
      let sh := shape_expr v in
      let Hx := fresh "Hx" in
      assert (Hx : shp_is sh x) by (change_no_check (shp_is sh v); vregion vinv unfh fin);
      clearbody x; shape_hyp_norm Hx
  | _ =>
      tryif (let Pv := vinv tv in idtac)
      then (let Pv := vinv tv in
            let Hx := fresh "Hx" in
            assert (Hx : Pv x) by (change_no_check (Pv v); vregion vinv unfh fin);
            clearbody x; unfh Hx; norm_hyps)
      else clearbody x
  end
with vterm vinv unfh fin :=
  lazymatch goal with
  | |- ?P (if ?c then ?a else ?b) =>
      lazymatch c with
      | true => change_no_check (P a)
      | false => change_no_check (P b)
      | _ => destruct c
      end; vregion vinv unfh fin
  | |- ?P (for_list ?l ?b ?s) =>
      let s' := fresh "s" in let Hs := fresh "Hs" in
      apply (for_list_inv P l b s);
      [ vregion vinv unfh fin | intros ? s' ? Hs; unfh Hs; norm_hyps; vregion vinv unfh fin ]
  | |- _ => fin
  end.

(* ---------- the same for obligation terms ---------- *)
(* Goal  t = true  where t is a generated obligation term:
     a1 && (let x1 := v1 in a2 && (let x2 := v2 in ... tl))
   All bindings of the chain are posed, the goal becomes  a1 && (a2 && (... && tl)) = true  in ONE unchecked step,
   then the definitions are visited in program order (a let-bound continuation k := fun u => body gets the
   specification  forall u, kinv u -> k u = true,  a loop result its loop invariant, an array its shape), and finally
   the conjuncts and the tail (a conditional, a loop, a continuation call) are proved.  Parameters as for `okw`. *)
Ltac opeel t acc obs k :=
  lazymatch t with
  | andb ?a ?b => opeel b acc constr:((obs, a)) k
  | (let x := ?v in @?F x) =>
      let x' := fresh "v" in
      pose (x' := v);
      let b := eval cbv beta in (F x') in
      opeel b constr:((acc, x')) obs k
  | _ => k t acc obs
  end.
Ltac mk_conj obs tl :=
  lazymatch obs with
  | (?rest, ?a) => mk_conj rest constr:(andb a tl)
  | _ => tl
  end.
Ltac triv_k2 :=
  lazymatch goal with
  | |- true = true => reflexivity
  | |- (let x := ?v in @?F x) = true =>
      let x' := fresh "v" in
      pose (x' := v); (let b := eval cbv beta in (F x') in change_no_check (b = true)); clearbody x'; triv_k2
  end.

Ltac okregion kinv linv post unfh isolve istep leaf :=
  lazymatch goal with |- ?t = true =>
    let t' := eval cbv beta in t in
    opeel t' constr:(I) constr:(I) ltac:(fun tl acc obs =>
      let c := mk_conj obs tl in
      change_no_check (c = true);
      odefs kinv linv post unfh isolve istep leaf acc;
      oconj kinv linv post unfh isolve istep leaf)
  end
with odefs kinv linv post unfh isolve istep leaf acc :=
  lazymatch acc with
  | (?rest, ?x) => odefs kinv linv post unfh isolve istep leaf rest; oproc kinv linv post unfh isolve istep leaf x
  | _ => idtac
  end
with oproc kinv linv post unfh isolve istep leaf x :=
  let v := eval cbv delta [x] in x in
  let tv := type of x in
  lazymatch tv with
  | ?A -> bool =>
      let Hk := fresh "Hk" in
      tryif (assert (Hk : forall u, x u = true)
               by (let u := fresh "u" in intro u;
                   (let b := eval cbv beta in (v u) in change_no_check (b = true)); triv_k2))
      then clearbody x
      else (let Pk := kinv A in
            assert (Hk : forall u, Pk u -> x u = true)
              by (let u := fresh "u" in let Hu := fresh "Hu" in
                  intros u Hu; unfh Hu; norm_hyps;
                  (let b := eval cbv beta in (v u) in change_no_check (b = true));
                  okregion kinv linv post unfh isolve istep leaf);
            clearbody x)
  | _ =>
      lazymatch v with
      | for_list _ _ ?st =>
          let S := type of st in
          let Pinv := linv S in
          let Sx := fresh "Sx" in
          assert (Sx : Pinv x) by (change_no_check (Pinv v); isolve);
          clearbody x; unfh Sx; norm_hyps
      | _ =>
          let Hx := fresh "Hx" in
          pose proof (eq_refl : x = v) as Hx; clearbody x; post x Hx v
      end
  end
with oconj kinv linv post unfh isolve istep leaf :=
  lazymatch goal with
  | |- andb ?a ?b = true =>
      refine (andb_intro2 a b _ _);
      [ okregion kinv linv post unfh isolve istep leaf | oconj kinv linv post unfh isolve istep leaf ]
  | |- _ => oterm kinv linv post unfh isolve istep leaf
  end
with oterm kinv linv post unfh isolve istep leaf :=
  lazymatch goal with
  | |- true = true => reflexivity
  | |- (if ?c then ?a else ?b) = true =>
      let c' := eval cbn [andb negb orb] in c in
      lazymatch c' with
      | true => change_no_check (a = true); okregion kinv linv post unfh isolve istep leaf
      | false => change_no_check (b = true); okregion kinv linv post unfh isolve istep leaf
      | context [Z.eqb ?p ?q] =>
          let E := fresh "E" in
          destruct (Z.eqb p q) eqn:E; [ apply Z.eqb_eq in E | apply Z.eqb_neq in E ];
          use_imps; norm_hyps;
          okregion kinv linv post unfh isolve istep leaf
      | _ => let E := fresh "E" in destruct c eqn:E; bool_hyps_ns; okregion kinv linv post unfh isolve istep leaf
      end
  | |- for_list_ok _ _ _ ?st = true =>
      let S := type of st in
      let Pinv := linv S in
      let s := fresh "s" in let Hs := fresh "Hs" in let Hi := fresh "Hi" in
      apply (for_list_ok_inv Pinv);
      [ isolve
      | intros ? s Hi Hs; split;
        [ istep s | unfh Hs; norm_hyps; okregion kinv linv post unfh isolve istep leaf ] ]
  | |- obD false _ = true => reflexivity
  | Hk : forall u, ?k u = true |- ?k _ = true => apply Hk
  | Hk : forall u, _ -> ?k u = true |- ?k _ = true => apply Hk; isolve
  | |- _ => leaf
  end.

Section P2ok.
Context {T : Type} `{Num T}.

(* loop state (td, tt, ttsgn) of the four initialisation loops; NZ, NX are node counts *)
Definition inv3 (NZ NX : Z) (g : bool) (s : arr T * arr T * arr Z) : Prop :=
  shape (fst (fst s)) = [Z.max NZ NX] /\ shape (snd (fst s)) = [NZ; NX] /\
  (g = true -> shape (snd s) = [NZ; NX; 2]).
Definition inv2 (NZ NX : Z) (g : bool) (s : arr T * arr Z) : Prop :=
  shape (fst s) = [NZ; NX] /\ (g = true -> shape (snd s) = [NZ; NX; 2]).
Definition invg (NZ NX : Z) (g : bool) (a : arr T) : Prop := g = true -> shape a = [NZ; NX; 2].
Definition invs (NZ NX : Z) (g : bool) (a : arr Z) : Prop := g = true -> shape a = [NZ; NX; 2].

Ltac unfh2 H := unfold inv3, inv2, invg, invs in H; cbn [fst snd] in H.
Ltac fin2 :=
  unfold inv3, inv2, invg, invs, shp_is; cbn beta iota delta [fst snd];
  repeat split; rewrite ?shape_set, ?shape_set_sub; cbn [shape full fill];
  first [ assumption | reflexivity | intros _; assumption | let E := fresh "E" in intros E; discriminate E ].
Ltac vwalk2 NZ NX g :=
  vregion ltac:(fun A => lazymatch A with
                       | (arr T * arr T * arr Z)%type => constr:(inv3 NZ NX g)
                       | (arr T * arr Z)%type => constr:(inv2 NZ NX g)
                       end) unfh2 fin2.
Ltac isolve2 :=
  cbv beta;
  lazymatch goal with
  | |- inv3 ?NZ ?NX ?g _ => vwalk2 NZ NX g
  | |- _ => fin2
  end.
Ltac istep2 s :=
  cbv beta;
  match goal with Hs : inv3 ?NZ ?NX ?g s |- _ => unfh2 Hs; norm_hyps; vwalk2 NZ NX g end.

Ltac leaf2 :=
  first [ apply t_anad_ok_true | apply t_ana_ok_true | apply delta_ok_true
        | range_hyps; inb_solve ].

Theorem fteik2d_p2_ok_true (dx dz : T) grad iflag NX NZ (slow tt ttgrad : arr T) (ttsgn : arr Z)
        (vzero xsa : T) xsi (zsa : T) zsi :
  0 <= zsi <= NZ - 2 -> 0 <= xsi <= NX - 2 ->
  shape slow = [NZ - 1; NX - 1] -> shape tt = [NZ; NX] ->
  (grad = true -> shape ttgrad = [NZ; NX; 2] /\ shape ttsgn = [NZ; NX; 2]) ->
  (iflag <> 2 -> 0 <= ntrunc zsa < NZ /\ 0 <= ntrunc xsa < NX) ->
  fteik2d_p2_ok true false dx dz grad iflag NX NZ slow tt ttgrad ttsgn vzero xsa xsi zsa zsi = true.
Proof.
  intros Hz Hx Hslow Htt Hg Hfl.
  cbv beta delta [fteik2d_p2_ok].
  destruct grad; norm_hyps.
  - okregion ltac:(fun A => lazymatch A with
                       | (arr T * arr Z)%type => constr:(inv2 NZ NX true)
                       | arr Z => constr:(invs NZ NX true)
                       | arr T => constr:(invg NZ NX true)
                       end)
        ltac:(fun S => constr:(inv3 NZ NX true))
        let_post2 unfh2 isolve2 istep2 leaf2.
  - okregion ltac:(fun A => lazymatch A with
                       | (arr T * arr Z)%type => constr:(inv2 NZ NX false)
                       | arr Z => constr:(invs NZ NX false)
                       | arr T => constr:(invg NZ NX false)
                       end)
        ltac:(fun S => constr:(inv3 NZ NX false))
        let_post2 unfh2 isolve2 istep2 leaf2.
Qed.

(* the initialisation keeps the shapes of the traveltime and gradient arrays *)
Definition p2_shapes (NZ NX : Z) (g : bool) (r : arr T * arr T * arr Z) : Prop :=
  shape (fst (fst r)) = [NZ; NX] /\ (g = true -> shape (snd (fst r)) = [NZ; NX; 2]).
Lemma fteik2d_p2_shapes dx dz grad iflag NX NZ slow (tt G : arr T) (S : arr Z) vzero xsa xsi zsa zsi :
  shape tt = [NZ; NX] -> (grad = true -> shape G = [NZ; NX; 2] /\ shape S = [NZ; NX; 2]) ->
  p2_shapes NZ NX grad (fteik2d_p2 dx dz grad iflag NX NZ slow tt G S vzero xsa xsi zsa zsi).
Proof.
  intros Htt Hg.
  lazymatch goal with |- p2_shapes ?a ?b ?g ?t =>
    let t' := eval cbv beta delta [fteik2d_p2] in t in
    lazymatch t' with (let u := (if ?c then ?x else ?y) in _) =>
      change_no_check (p2_shapes a b g (if c then x else y)); destruct c end end;
  (destruct grad; norm_hyps;
   lazymatch goal with |- p2_shapes _ _ ?g _ =>
     vregion ltac:(fun A => lazymatch A with
                            | (arr T * arr T * arr Z)%type => constr:(inv3 NZ NX g)
                            | (arr T * arr Z)%type => constr:(inv2 NZ NX g)
                            end)
             ltac:(fun Hh => unfold inv3, inv2, invg, invs in Hh; cbn [fst snd] in Hh)
             ltac:(unfold p2_shapes, inv3, inv2, invg, invs, shp_is; cbn beta iota delta [fst snd];
                   repeat split; rewrite ?shape_set, ?shape_set_sub; cbn [shape full fill];
                   first [ assumption | reflexivity | intros _; assumption
                         | let E := fresh "E" in intros E; discriminate E ])
   end).
Qed.

End P2ok.

(* ------------------------------------------------------------------------------------------ *)
(* the solver                                                                                   *)
(* ------------------------------------------------------------------------------------------ *)
(* conversion must never unfold the big generated constants when comparing two calls *)
Local Strategy 1000 [fteik2d_p1 fteik2d_p2 fteik2d_p1_ok fteik2d_p2_ok sweep2d sweep2d_ok].

Section Main.
Context {T : Type} `{Num T}.

(* ---------- fteik2d_p1: straight-line code ---------- *)
Lemma fteik2d_p1_char (dx dz : T) grad nx nz (slow : arr T) (xsrc zsrc : T) :
  let zsi := Z.min (ntrunc (ndiv zsrc dz)) (nz - 1) in
  let xsi := Z.min (ntrunc (ndiv xsrc dx)) (nx - 1) in
  exists iflag zsa xsa,
    fteik2d_p1 dx dz grad nx nz slow xsrc zsrc =
      (iflag, nx + 1, nz + 1, full [nz + 1; nx + 1] Big,
       (if grad then full [nz + 1; nx + 1; 2] (nofZ 0) else full [0; 0; 0] (nofZ 0)),
       (if grad then full [nz + 1; nx + 1; 2] 0 else full [0; 0; 0] 0),
       get (nofZ 0) slow [zsi; xsi], xsa, xsi, zsa, zsi) /\
    (iflag <> 2 -> zsa = nround (ndiv zsrc dz) /\ xsa = nround (ndiv xsrc dx)).
Proof.
  intros zsi xsi. unfold fteik2d_p1. cbv zeta. fold zsi xsi.
  destruct grad; cbn [fst snd];
  repeat match goal with |- context [if ?c then _ else _] => destruct c end; cbn [fst snd];
  do 3 eexists; (split; [ reflexivity | intros N; first [ exfalso; apply N; reflexivity | split; reflexivity ] ]).
Qed.

Theorem fteik2d_p1_ok_true (dx dz : T) grad nx nz (slow : arr T) (xsrc zsrc : T) :
  shape slow = [nz; nx] ->
  0 <= Z.min (ntrunc (ndiv zsrc dz)) (nz - 1) -> 0 <= Z.min (ntrunc (ndiv xsrc dx)) (nx - 1) ->
  fteik2d_p1_ok true false dx dz grad nx nz slow xsrc zsrc = true.
Proof.
  intros Hs Hz Hx. cbv beta iota zeta delta [fteik2d_p1_ok obD obI].
  rewrite (inb2_true slow nz nx _ _ Hs) by lia. cbn [andb fst snd].
  destruct grad; repeat match goal with |- context [if ?c then _ else _] => destruct c end; reflexivity.
Qed.

Context `{!TruncLaws T}.

Theorem fteik2d_ok_true (slow : arr T) (dz dx zsrc xsrc : T) (nsweep : Z) (grad : bool) (nz nx : Z) :
  shape slow = [nz; nx] -> 1 <= nz -> 1 <= nx -> cells_ok nz -> cells_ok nx ->
  nltb (nofZ 0) dz = true -> nltb (nofZ 0) dx = true ->
  fteik2d_ok true false slow dz dx zsrc xsrc nsweep grad = true.
Proof.
  intros Hs Hnz Hnx Cz Cx Hdz Hdx.
  rewrite fteik2d_ok_tail. cbv beta zeta.
  rewrite (dim_0 slow nz [nx] Hs), (dim_1 slow nz nx [] Hs). cbn [fst snd].
  lazymatch goal with |- (if negb ?c then _ else _) = true => destruct c eqn:Hin end; [ | reflexivity ].
  cbn [negb].
  apply andb_true_iff in Hin. destruct Hin as [Hcz Hcx].
  apply andb_true_iff in Hcz. destruct Hcz as [Hz0 Hz1].
  apply andb_true_iff in Hcx. destruct Hcx as [Hx0 Hx1].
  pose proof (trunc_div_nonneg zsrc dz Hz0 Hdz) as Tz.
  pose proof (trunc_div_nonneg xsrc dx Hx0 Hdx) as Tx.
  pose proof (trunc_round_div_range zsrc dz nz Cz Hz0 Hdz Hz1) as Rz.
  pose proof (trunc_round_div_range xsrc dx nx Cx Hx0 Hdx Hx1) as Rx.
  destruct (fteik2d_p1_char dx dz grad nx nz slow xsrc zsrc) as (iflag & zsa & xsa & E & Hfl).
  cbv zeta in E.
  set (zsi := Z.min (ntrunc (ndiv zsrc dz)) (nz - 1)) in *.
  set (xsi := Z.min (ntrunc (ndiv xsrc dx)) (nx - 1)) in *.
  assert (Bz : 0 <= zsi <= nz - 1) by (unfold zsi; lia).
  assert (Bx : 0 <= xsi <= nx - 1) by (unfold xsi; lia).
  assert (Hslow' : shape slow = [nz + 1 - 1; nx + 1 - 1])
    by (rewrite Hs; f_equal; [ lia | f_equal; lia ]).
  apply andb_intro2; [ apply fteik2d_p1_ok_true; [ exact Hs | apply Bz | apply Bx ] | ].
  rewrite E. cbn [fst snd].
  set (G1 := if grad then full [nz + 1; nx + 1; 2] (nofZ 0) else full [0; 0; 0] (nofZ 0)).
  set (S1 := if grad then full [nz + 1; nx + 1; 2] 0 else full [0; 0; 0] 0).
  set (tt1 := full [nz + 1; nx + 1] Big).
  set (vz := get (nofZ 0) slow [zsi; xsi]).
  apply andb_intro2.
  - apply fteik2d_p2_ok_true; try lia; try assumption.
    + reflexivity.
    + intros ->. split; reflexivity.
    + intros N. destruct (Hfl N) as [-> ->]. lia.
  - assert (Sh : p2_shapes (nz + 1) (nx + 1) grad
                  (fteik2d_p2 dx dz grad iflag (nx + 1) (nz + 1) slow tt1 G1 S1 vz xsa xsi zsa zsi)).
    { apply fteik2d_p2_shapes; [ reflexivity | intros ->; split; reflexivity ]. }
    destruct Sh as [Sh1 Sh2].
    apply tail_ok_true; try lia; try assumption.
    intros G. split; [ | exact (Sh2 G) ]. subst grad.
    apply init_preserves_sgn_inv; try lia. apply sgn_inv_zeros; lia.
Qed.
End Main.

(* the theorem at the reals *)
Corollary fteik2d_ok_true_R (slow : arr R) (dz dx zsrc xsrc : R) (nsweep : Z) (grad : bool) (nz nx : Z) :
  shape slow = [nz; nx] -> 1 <= nz -> 1 <= nx -> (0 < dz)%R -> (0 < dx)%R ->
  fteik2d_ok true false slow dz dx zsrc xsrc nsweep grad = true.
Proof.
  intros Hs Hnz Hnx Hdz Hdx.
  apply (@fteik2d_ok_true R NumR TruncLawsR slow dz dx zsrc xsrc nsweep grad nz nx Hs Hnz Hnx);
    first [ exact I | apply Rltb_true; assumption ].
Qed.

Print Assumptions fteik2d_p1_ok_true.
Print Assumptions fteik2d_p2_ok_true.
Print Assumptions fteik2d_ok_true.
Print Assumptions fteik2d_ok_true_R.
